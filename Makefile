# Build: simulator runtime, instrumented babylon library (per flavour), harnesses.
# Everything is rebuilt from /repo's current working tree (depfiles).
REPO ?= /repo
B    ?= /verif/build
CXX  := clang++
STD  := -std=c++20
INC  := -I$(REPO)/src -isystem /root/miniconda/include
OPT  := -O1 -g -DNDEBUG -Wno-everything
TSAN := -fsanitize=thread -mllvm -tsan-instrument-func-entry-exit=0
LIBS := -L/root/miniconda/lib -Wl,-rpath,/root/miniconda/lib -lfmt -lprotobuf \
  -labsl_base -labsl_strings -labsl_str_format_internal -labsl_time -labsl_time_zone -labsl_int128 \
  -labsl_throw_delegate -labsl_raw_logging_internal -labsl_spinlock_wait -labsl_hash -labsl_city \
  -labsl_low_level_hash -labsl_raw_hash_set -labsl_synchronization -labsl_malloc_internal \
  -labsl_cord -labsl_cord_internal -labsl_cordz_info -labsl_cordz_handle -labsl_cordz_functions \
  -labsl_bad_optional_access -labsl_bad_variant_access -labsl_strings_internal \
  -latomic -ldl -lpthread

SRCS := $(filter-out $(REPO)/src/babylon/new.cpp,$(shell find $(REPO)/src/babylon -name '*.cpp' | sort))
SHIP_OBJS := $(patsubst $(REPO)/src/%.cpp,$(B)/ship/lib/%.o,$(SRCS))
TSM_OBJS  := $(patsubst $(REPO)/src/%.cpp,$(B)/tsm/lib/%.o,$(SRCS))
SIM_SRCS := core.cc mem.cc interpose.cc child.cc runner.cc
SIM_OBJS := $(patsubst %.cc,$(B)/sim/%.o,$(SIM_SRCS))
HARNESSES := $(patsubst /verif/harness/%.cc,%,$(wildcard /verif/harness/*.cc))

NOACCESS := reusable/message.trick.cpp reusable/patch/arena.cpp

all: $(patsubst %,$(B)/bin/%,$(HARNESSES))

$(B)/sim/%.o: /verif/sim/%.cc $(wildcard /verif/sim/*.h)
	@mkdir -p $(dir $@)
	$(CXX) $(STD) -O2 -g -Wall -Wno-unused-function -fno-omit-frame-pointer -isystem /root/miniconda/include -c $< -o $@

$(B)/ship/lib/%.o: $(REPO)/src/%.cpp
	@mkdir -p $(dir $@)
	$(CXX) $(STD) $(OPT) $(TSAN) -I/verif/shim $(INC) $(if $(filter $(NOACCESS),$(patsubst babylon/%,%,$*.cpp)),-fno-access-control) -MMD -MP -c $< -o $@

$(B)/tsm/lib/%.o: $(REPO)/src/%.cpp
	@mkdir -p $(dir $@)
	$(CXX) $(STD) $(OPT) $(TSAN) $(INC) $(if $(filter $(NOACCESS),$(patsubst babylon/%,%,$*.cpp)),-fno-access-control) -MMD -MP -c $< -o $@

$(B)/ship/libbabylon.a: $(SHIP_OBJS)
	@rm -f $@
	ar rcs $@ $^
$(B)/tsm/libbabylon.a: $(TSM_OBJS)
	@rm -f $@
	ar rcs $@ $^

$(B)/ship/h/%.o: /verif/harness/%.cc $(wildcard /verif/harness/*.h) /verif/sim/sim.h
	@mkdir -p $(dir $@)
	$(CXX) $(STD) $(OPT) $(TSAN) -fno-access-control -I/verif/shim -I/verif/sim -I/verif/harness $(INC) -MMD -MP -c $< -o $@
$(B)/tsm/h/%.o: /verif/harness/%.cc $(wildcard /verif/harness/*.h) /verif/sim/sim.h
	@mkdir -p $(dir $@)
	$(CXX) $(STD) $(OPT) $(TSAN) -fno-access-control -DVERIF_TSANMACRO=1 -I/verif/sim -I/verif/harness $(INC) -MMD -MP -c $< -o $@

$(B)/bin/%: $(B)/ship/h/%.o $(SIM_OBJS) $(B)/ship/libbabylon.a
	@mkdir -p $(dir $@)
	$(CXX) -rdynamic -o $@ $< $(SIM_OBJS) $(B)/ship/libbabylon.a $(LIBS)
$(B)/bin-tsm/%: $(B)/tsm/h/%.o $(SIM_OBJS) $(B)/tsm/libbabylon.a
	@mkdir -p $(dir $@)
	$(CXX) -rdynamic -o $@ $< $(SIM_OBJS) $(B)/tsm/libbabylon.a $(LIBS)

.SECONDARY:
-include $(shell find $(B) -name '*.d' 2>/dev/null)
