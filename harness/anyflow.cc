// Harness "anyflow": C05 — a graph run equals a sequential demand-driven
// evaluation of the same graph; each vertex processor runs at most once per run
// and only with resolved dependencies; vertices not needed do not run; each
// data is published once; wait() returns only after every started vertex has
// finished; the same again after reset().        DESIGN.md §3 C05.
//
// Plan encoding (every field that addresses something is an explicit key, never
// a position, so the plan stays executable when the minimiser deletes ops):
//   threads[0]  graph structure
//     vertex  b = vertex key (0..7)   c = bit0 trivial | 2 bits async mode per cycle (bits 1..6)   a = async delay us
//     emit    b = vertex key          c = data key | per-cycle "leave empty" mask << 8
//     dep     b = vertex key          c = target key | (cond key + 1) << 8 | sense << 16 | essential level << 20
//   threads[1..3]  one section per run/reset cycle (section empty = cycle absent)
//     cycle   a = delay (us) of the main thread before Graph::run
//     inject  b = data key  a = value seed  c = bit0 empty | bit1 concurrent (done by the injector thread while run() is activating) | delay us << 8
//     target  b = data key
//   cfg: nd (number of data keys), boolmask (data whose values are 0/1), exec (0 inplace, 1 thread pool, 2 thread per vertex),
//        workers, refuse_mask (mode 1 only: which submissions the harness executor refuses)
// Modes (--mode): -1 default mix; 0 = no concurrent injection; 1 = exploratory,
// the harness executor refuses submissions (only termination / finished /
// error code != 0 are judged); 2 = concurrent injection in most cycles;
// 3 = exploratory: like 2, but a vertex starting on an already flushed closure
// is only counted (probe), so that its raw consequences become visible.
// A dependency is kept only if its target and condition keys are lower than every
// emit key of its vertex (acyclic by construction, also after deletions); data
// without a producer are inputs.
#include <babylon/anyflow/builder.h>
#include <babylon/anyflow/closure.h>
#include <babylon/anyflow/data.h>
#include <babylon/anyflow/executor.h>
#include <babylon/anyflow/graph.h>
#include <babylon/anyflow/vertex.h>
#include <babylon/logging/logger.h>

#include <stdio.h>
#include <string.h>
#include <unistd.h>

#include <functional>
#include <memory>
#include <string>
#include <thread>
#include <vector>

#include "common.h"

using namespace sim;
namespace af = babylon::anyflow;

namespace {

enum Kind { K_VERTEX, K_EMIT, K_DEP, K_CYCLE, K_INJECT, K_TARGET };
const char* const kNames[] = {"vertex", "emit", "dep", "cycle", "inject", "target", nullptr};

constexpr int MAXD = 16, MAXV = 8, MAXDEP = 8, MAXEMIT = 3, MAXCYC = 3;

struct DepP { int target = 0, cond = -1, sense = 1, level = 0, opid = 0; };
struct VertP {
  int key = -1, opid = 0, delay = 1;
  bool trivial = false;
  int amode[MAXCYC] = {0, 0, 0};
  std::vector<DepP> deps;
  std::vector<int> emits, emptymask;
};
struct Inj { int d = 0; bool empty = false, conc = false; uint64_t v = 0; int delay = 0, opid = 0; };
struct Cyc { bool present = false; int delay = 0, opid = -1; std::vector<Inj> inj; std::vector<int> targets; };

// ---------------------------------------------------------------------------
// Reference interpreter (sequential, demand driven, memoised).
//
// Semantics and where they come from:
//  [doc]  overview.en.md / graph.en.md: a data is either injected before run or
//         produced by its single producer; running a target activates its
//         producer, which needs all its dependencies; process() emits; an emit
//         that is not published by the processor is published empty at done().
//  [test] test_dependency.cpp: a conditional dependency whose condition does
//         not hold is resolved without its target (target is not demanded;
//         value() is null); an empty target gives a null value().
//  [test] test_processor.cpp essential levels: level 1 (declare_essential) —
//         the vertex is skipped and its emits are published empty; level 2 —
//         the processor itself fails (non-zero done) and the run fails.
//  [code] dependency.h (comment of declare_essential, Chinese only) +
//         GraphVertex::invoke: essential failure = "!ready() || empty()", i.e.
//         the condition not holding also skips the vertex. English docs silent.
//  [code] GraphVertex::activate activates *all* dependencies of a vertex (no
//         short-circuit after an essential failure): every condition is
//         demanded, every unconditional or established target is demanded.
//  [code] GraphDependency::check_established → GraphData::as<bool>(): an empty
//         condition data counts as false; a uint64 counts as (v != 0).
//  [code] GraphData::trigger/activate: a data that is already ready is not
//         demanded from its producer (pre-injected intermediate data); an
//         unready data without producer fails the run ("can not activate").
//  [code] GraphVertexClosure::done(error != 0) does not publish the emits.
//  [code] Committer on an already acquired data is invalid: a producer's emit
//         to a pre-injected data is rejected and the injected value stays.
struct RD { bool ready = false, empty = true, poison = false, demanded = false, injected = false, conc = false; uint64_t v = 0; };
struct Ref {
  RD d[MAXD];
  bool vdone[MAXV] = {}, needed[MAXV] = {}, invoked[MAXV] = {}, complete[MAXV] = {}, essfail[MAXV] = {}, l2fail[MAXV] = {};
  int code[MAXV][MAXDEP] = {};
  uint64_t val[MAXV][MAXDEP] = {};
  bool ok = true, conc_demanded = false;
  const char* why = "";
};

struct DepTrace { char seq[14]; int n; int cond, target; };
struct HExec;

struct St {
  int nd = 0, mode = 0;
  bool isbool[MAXD] = {};
  std::vector<VertP> verts;
  int producer[MAXD];
  bool in_graph[MAXD] = {};
  Cyc cyc[MAXCYC];
  af::GraphData* gd[MAXD] = {};
  std::unique_ptr<af::Graph> graph;
  int cycle = 0;
  Ref ref;
  int ninvoked[MAXV] = {};
  int inflight = 0;
  int seals[MAXD] = {};
  int releasing[64];  // per thread: data whose release() is notifying successors (best effort, for probes only)
  bool tracing = false;
  DepTrace dt[MAXV][MAXDEP];
  uint64_t inj_stamp[MAXD] = {};
  int injector_tid = -1;
  bool cycle_conc = false, late_fatal = true;
  int refuse_mask = 0, refused = 0, attempts = 0;
};
St* S;

std::string dname(int k) { return "d" + std::to_string(k); }

uint64_t vertex_hash(int vkey, int n, const int* code, const uint64_t* val) {
  uint64_t h = mix64(0xA11F10, (uint64_t)vkey);
  for (int i = 0; i < n; i++) { h = mix64(h, (uint64_t)code[i]); h = mix64(h, code[i] == 2 ? val[i] : 0); }
  return h;
}
uint64_t emit_value(uint64_t h, int k, bool isbool) { uint64_t v = mix64(h, (uint64_t)k + 1); return isbool ? (v & 1) : v; }
bool leave_empty(const VertP& vp, int k, int cy) { return (vp.emptymask[(size_t)k] >> cy) & 1; }

void ref_vertex(Ref& R, int vi);
void ref_data(Ref& R, int k) {
  RD& d = R.d[k];
  d.demanded = true;
  if (d.injected) { if (d.conc) R.conc_demanded = true; return; }
  if (d.ready || d.poison) return;
  if (S->producer[k] < 0) { d.poison = true; if (R.ok) R.why = "a demanded input was never injected"; R.ok = false; return; }
  ref_vertex(R, S->producer[k]);
}
void ref_vertex(Ref& R, int vi) {
  if (R.vdone[vi]) return;
  R.vdone[vi] = R.needed[vi] = true;
  const VertP& vp = S->verts[(size_t)vi];
  bool poisoned = false, ess = false, l2 = false;
  for (size_t i = 0; i < vp.deps.size(); i++) {
    const DepP& dp = vp.deps[i];
    bool est = true;
    int code = 0;
    if (dp.cond >= 0) {
      ref_data(R, dp.cond);
      const RD& c = R.d[dp.cond];
      if (c.poison) { poisoned = true; continue; }
      bool b = !c.empty && c.v != 0;
      est = (b == (dp.sense != 0));
    }
    if (est) {
      ref_data(R, dp.target);
      const RD& t = R.d[dp.target];
      if (t.poison) { poisoned = true; continue; }
      code = t.empty ? 1 : 2;
      R.val[vi][i] = t.v;
    }
    R.code[vi][i] = code;
    if (dp.level == 1 && code != 2) ess = true;
    if (dp.level == 2 && code != 2) l2 = true;
  }
  auto set_emits = [&](int how) {  // 0 poison, 1 empty, 2 compute
    uint64_t h = how == 2 ? vertex_hash(vp.key, (int)vp.deps.size(), R.code[vi], R.val[vi]) : 0;
    for (size_t k = 0; k < vp.emits.size(); k++) {
      RD& e = R.d[vp.emits[k]];
      if (e.injected) continue;  // the injected value stays, the producer's publish is rejected
      if (how == 0) { e.poison = true; continue; }
      e.ready = true;
      e.empty = how == 1 || leave_empty(vp, (int)k, S->cycle);
      e.v = e.empty ? 0 : emit_value(h, (int)k, S->isbool[vp.emits[k]]);
    }
  };
  if (poisoned) { set_emits(0); return; }  // can never be invoked: a dependency never resolves
  R.complete[vi] = true;
  if (ess) { R.essfail[vi] = true; set_emits(1); return; }
  R.invoked[vi] = true;
  if (l2) { R.l2fail[vi] = true; if (R.ok) R.why = "a level-2 essential dependency was empty"; R.ok = false; set_emits(0); return; }
  set_emits(2);
}
void compute_ref(int cy) {
  St& s = *S;
  s.ref = Ref();
  Ref& R = s.ref;
  for (auto& in : s.cyc[cy].inj) {
    RD& d = R.d[in.d];
    if (d.injected) continue;
    d.injected = d.ready = true; d.conc = in.conc; d.empty = in.empty; d.v = in.empty ? 0 : in.v;
  }
  for (int t : s.cyc[cy].targets) ref_data(R, t);
}

// ---------------------------------------------------------------------------
// The generic processor.
struct Obs { int n = 0; int code[MAXDEP] = {}; uint64_t val[MAXDEP] = {}; bool l2 = false; };

void observe(int vi, af::GraphVertex* vx, Obs& o) {
  St& s = *S;
  const VertP& vp = s.verts[(size_t)vi];
  o.n = (int)vp.deps.size();
  if ((size_t)o.n != vx->anonymous_dependency_size()) fail("api", "anonymous_dependency_size", "vertex %d has %zu anonymous dependencies, built with %d", vp.key, vx->anonymous_dependency_size(), o.n);
  // pass 1: what a real processor sees, through the dependency API only (no
  // acquire loads of our own before the payload is read, so a missing
  // happens-before edge is not masked by the oracle)
  for (int i = 0; i < o.n; i++) {
    af::GraphDependency* d = vx->anonymous_dependency((size_t)i);
    const uint64_t* pv = d->value<uint64_t>();
    if (!d->ready()) { o.code[i] = 0; if (pv) fail("unresolved-dependency", "value-without-ready", "vertex %d dep %d: value() non-null although ready() is false", vp.key, i); }
    else if (d->empty()) { o.code[i] = 1; if (pv) fail("wrong-input", "value-of-empty", "vertex %d dep %d: value() non-null although empty()", vp.key, i); }
    else { o.code[i] = 2; if (!pv) fail("wrong-input", "value-missing", "vertex %d dep %d: ready and not empty but value<uint64_t>() is null", vp.key, i); o.val[i] = *pv; }
  }
  // pass 2: cross-check against the library state and the reference
  for (int i = 0; i < o.n; i++) {
    const DepP& dp = vp.deps[(size_t)i];
    bool est = true;
    if (dp.cond >= 0) {
      af::GraphData* c = s.gd[dp.cond];
      if (!c->ready()) fail("unresolved-dependency", "condition-unready", "cycle %d: vertex %d invoked while the condition d%d of its dependency %d (target d%d) is not published", s.cycle, vp.key, dp.cond, i, dp.target);
      est = (c->as<bool>() == (dp.sense != 0));
    }
    if (est) {
      if (!s.gd[dp.target]->ready()) fail("unresolved-dependency", "target-unready", "cycle %d: vertex %d invoked while the target d%d of its established dependency %d is not published", s.cycle, vp.key, dp.target, i);
      if (o.code[i] == 0) fail("unresolved-dependency", "established-not-ready", "cycle %d: vertex %d dependency %d (target d%d, cond d%d) is established and its target is published but ready() is false", s.cycle, vp.key, i, dp.target, dp.cond);
    } else if (o.code[i] != 0) {
      fail("unresolved-dependency", "ready-not-established", "cycle %d: vertex %d dependency %d (target d%d) reports ready() although its condition d%d does not hold", s.cycle, vp.key, i, dp.target, dp.cond);
    }
    if (dp.level == 1 && o.code[i] != 2) fail("essential-ignored", "level1", "cycle %d: vertex %d invoked although its essential dependency %d (target d%d) is %s", s.cycle, vp.key, i, dp.target, o.code[i] == 0 ? "not established" : "empty");
    if (dp.level == 2 && o.code[i] != 2) o.l2 = true;
    if (s.ref.complete[vi] && (s.ref.code[vi][i] != o.code[i] || (o.code[i] == 2 && s.ref.val[vi][i] != o.val[i])))
      fail("wrong-input", "dependency", "cycle %d: vertex %d dependency %d (target d%d): saw state %d value %#llx, sequential evaluation gives state %d value %#llx", s.cycle, vp.key, i, dp.target, o.code[i], (unsigned long long)o.val[i], s.ref.code[vi][i], (unsigned long long)s.ref.val[vi][i]);
  }
  if (!s.ref.complete[vi]) fail("unresolved-dependency", "never-resolvable", "cycle %d: vertex %d invoked although one of its dependencies needs an input that is never injected", s.cycle, vp.key);
  if (!s.ref.invoked[vi]) fail("essential-ignored", "reference", "cycle %d: vertex %d invoked although the sequential evaluation skips it (essential dependency failed)", s.cycle, vp.key);
}

void emit_all(int vi, af::GraphVertex* vx, const Obs& o) {
  St& s = *S;
  const VertP& vp = s.verts[(size_t)vi];
  uint64_t h = vertex_hash(vp.key, o.n, o.code, o.val);
  for (size_t k = 0; k < vp.emits.size(); k++) {
    int dk = vp.emits[k];
    af::GraphData* out = vx->anonymous_emit(k);
    if (out != s.gd[dk]) fail("api", "anonymous_emit", "vertex %d emit %zu is not d%d", vp.key, k, dk);
    bool le = leave_empty(vp, (int)k, s.cycle);
    if (le && ((s.cycle + dk) & 1)) continue;  // never touched: published empty by done()
    auto c = out->emit<uint64_t>();
    if (s.ref.d[dk].injected) {
      if (c.valid()) fail("double-publish", "producer-after-inject", "cycle %d: vertex %d obtained a valid committer for d%d which was injected (published) before the run", s.cycle, vp.key, dk);
      probe("publish_rejected_preinjected");
      continue;
    }
    if (!c.valid()) fail("publish-rejected", "own-emit", "cycle %d: vertex %d (the only producer) got an invalid committer for d%d", s.cycle, vp.key, dk);
    if (!le) *c = emit_value(h, (int)k, s.isbool[dk]);
    c.release();
  }
}

void finish(af::GraphVertexClosure& c, int rc) {
  S->inflight--;
  c.done(rc);
}

struct HProc : public af::GraphProcessor {
  int vi;
  explicit HProc(int v) : vi(v) {}
  int setup() noexcept override {
    const VertP& vp = S->verts[(size_t)vi];
    for (size_t i = 0; i < vertex().anonymous_dependency_size() && i < vp.deps.size(); i++) {
      auto* d = vertex().anonymous_dependency(i);
      d->declare_type<uint64_t>();
      d->declare_essential(vp.deps[i].level == 1);
    }
    for (size_t k = 0; k < vertex().anonymous_emit_size(); k++) vertex().anonymous_emit(k)->declare_type<uint64_t>();
    if (vp.trivial) vertex().declare_trivial();
    return 0;
  }
  void process(af::GraphVertexClosure&& closure) noexcept override {
    St& s = *S;
    const VertP& vp = s.verts[(size_t)vi];
    s.inflight++;
    int n = ++s.ninvoked[vi];
    if (n > 1) fail("ran-twice", "processor", "cycle %d: processor of vertex %d invoked %d times in one run", s.cycle, vp.key, n);
    if (!s.ref.needed[vi]) fail("unneeded-vertex-ran", "processor", "cycle %d: vertex %d invoked although no requested target needs it", s.cycle, vp.key);
    probe("vertex_invoked");
    if (vp.trivial) probe("trivial_inline");
    if (tid() == s.injector_tid) probe("invoked_on_injector_thread");
    int mode = vp.trivial ? 0 : vp.amode[s.cycle];
    af::GraphVertex* vx = &vertex();
    int v = vi;
    int delay = vp.delay;
    if (mode == 3) {
      probe("async_vertex");
      std::thread([v, vx, delay, c = std::move(closure)]() mutable {
        ::usleep((useconds_t)delay);
        Obs o;
        observe(v, vx, o);
        if (o.l2) { probe("level2_fail"); finish(c, -1); return; }
        emit_all(v, vx, o);
        finish(c, 0);
      }).detach();
      return;
    }
    Obs o;
    observe(vi, vx, o);
    if (o.l2) { probe("level2_fail"); finish(closure, -1); return; }
    if (mode == 0) { emit_all(vi, vx, o); finish(closure, 0); return; }
    probe("async_vertex");
    if (mode == 2) emit_all(vi, vx, o);
    std::thread([v, vx, delay, mode, o, c = std::move(closure)]() mutable {
      ::usleep((useconds_t)delay);
      if (mode == 1) emit_all(v, vx, o);
      finish(c, 0);
    }).detach();
  }
};

// The closure counts the vertices in flight; it starts at 1 (run() itself),
// reaches 0 exactly once — that is what wait() waits for — and nothing of the
// run may start afterwards. A 0 -> 1 transition means a vertex was invoked on a
// closure that has already notified "flushed" (wait() may have returned, the
// client may reset or destroy the graph).
void vnum_watch(void*, const void*, uint64_t oldv, uint64_t newv);
af::Closure hook(af::Closure c) {
  watch(&c.context()->_waiting_vertex_num, 8, vnum_watch, nullptr);
  return c;
}
// The real executors, with the closure registered for the watch above.
struct HInplace : public af::InplaceGraphExecutor {
  af::Closure create_closure() noexcept override { return hook(af::InplaceGraphExecutor::create_closure()); }
};
struct HPool : public af::ThreadPoolGraphExecutor {
  af::Closure create_closure() noexcept override { return hook(af::ThreadPoolGraphExecutor::create_closure()); }
};
// Executor that runs every vertex / closure callback on a fresh thread; in
// mode 1 it refuses the submissions selected by refuse_mask.
struct HExec : public af::GraphExecutor {
  af::Closure create_closure() noexcept override { return hook(af::Closure::create<::babylon::SchedInterface>(*this)); }
  int32_t run(af::GraphVertex* vertex, af::GraphVertexClosure&& closure) noexcept override {
    int a = S->attempts++;
    if (a < 30 && ((S->refuse_mask >> a) & 1)) { S->refused++; fault_fired("executor_refused"); return -1; }
    std::thread([vertex, c = std::move(closure)]() mutable { vertex->run(std::move(c)); }).detach();
    return 0;
  }
  int32_t run(af::ClosureContext* closure, af::Closure::Callback* callback) noexcept override {
    std::thread([closure, callback] { closure->run(callback); }).detach();
    return 0;
  }
};

// ---------------------------------------------------------------------------
void vnum_watch(void*, const void*, uint64_t oldv, uint64_t newv) {
  if (!S || !S->tracing) return;
  if (oldv == 0 && newv == 1 && !S->late_fatal) probe("late_vertex_on_flushed_closure");
  if (oldv == 0 && newv == 1 && S->late_fatal)
    fail("late-vertex", S->cycle_conc ? "concurrent-inject" : "no-external-input",
         "cycle %d: a vertex was invoked on a closure whose in-flight count had already dropped to zero (flush notified, wait() returns) — T%d", S->cycle, tid());
}
void act_watch(void*, const void*, uint64_t oldv, uint64_t newv) {
  if (!S || !S->tracing) return;
  if ((oldv & 0xff) == 0 && (newv & 0xff) == 1 && tid() != 0) probe("runtime_activation_off_main");
}
void dep_watch(void* ctx, const void*, uint64_t oldv, uint64_t newv) {
  if (!S || !S->tracing) return;
  DepTrace* t = (DepTrace*)ctx;
  int64_t d = (int64_t)newv - (int64_t)oldv;
  char ch = 'A';
  if (d < 0) {  // which data became ready: condition (c) or target (t)?
    int me = tid(), rel = me >= 0 && me < 64 ? S->releasing[me] : -1;
    bool cs = t->cond >= 0 && S->gd[t->cond] && S->gd[t->cond]->ready(), ts = S->gd[t->target] && S->gd[t->target]->ready();
    ch = rel >= 0 && rel == t->cond ? 'c' : rel >= 0 && rel == t->target ? 't' : (cs && !ts) ? 'c' : (ts && !cs) ? 't' : 'r';
  }
  if (t->n < 12) t->seq[t->n++] = ch;
}
void seal_watch(void* ctx, const void*, uint64_t, uint64_t newv) {
  if (!S || !S->tracing) return;
  if (newv == (uint64_t)(uintptr_t)af::GraphData::SEALED_CLOSURE) {
    int k = (int)((int*)ctx - S->seals);
    (*(int*)ctx)++;
    int me = tid();
    if (me >= 0 && me < 64) S->releasing[me] = k;
  }
}

void inject(const Inj& in) {
  af::GraphData* g = S->gd[in.d];
  auto c = g->emit<uint64_t>();
  if (!c.valid()) fail("publish-rejected", "inject", "cycle %d: first publish of d%d from outside was rejected", S->cycle, in.d);
  if (!in.empty) *c = in.v;
  c.release();
}

void parse(const Plan& p) {
  St& s = *S;
  s.nd = (int)std::max<int64_t>(1, std::min<int64_t>(p.get("nd", 4), MAXD));
  int64_t bm = p.get("boolmask", 0);
  for (int k = 0; k < MAXD; k++) { s.isbool[k] = (bm >> k) & 1; s.producer[k] = -1; }
  if (p.threads.empty()) return;
  auto vindex = [&](int64_t key) { for (size_t i = 0; i < s.verts.size(); i++) if (s.verts[i].key == (int)key) return (int)i; return -1; };
  for (auto& op : p.threads[0]) {
    if (op.kind != K_VERTEX || op.b < 0 || op.b >= MAXV || vindex(op.b) >= 0 || (int)s.verts.size() >= MAXV) continue;
    VertP v;
    v.key = (int)op.b; v.opid = op.id; v.trivial = op.c & 1;
    for (int c = 0; c < MAXCYC; c++) v.amode[c] = (int)((op.c >> (1 + 2 * c)) & 3);
    v.delay = (int)std::max<int64_t>(1, std::min<int64_t>(op.a, 400));
    s.verts.push_back(v);
  }
  for (auto& op : p.threads[0]) {
    if (op.kind != K_EMIT) continue;
    int vi = vindex(op.b), dk = (int)(op.c & 0xff);
    if (vi < 0 || dk >= s.nd || s.producer[dk] >= 0 || s.verts[(size_t)vi].emits.size() >= MAXEMIT) continue;
    s.verts[(size_t)vi].emits.push_back(dk);
    s.verts[(size_t)vi].emptymask.push_back((int)((op.c >> 8) & 7));
    s.producer[dk] = vi;
    s.in_graph[dk] = true;
  }
  for (auto& op : p.threads[0]) {
    if (op.kind != K_DEP) continue;
    int vi = vindex(op.b);
    if (vi < 0) continue;
    VertP& v = s.verts[(size_t)vi];
    DepP d;
    d.target = (int)(op.c & 0xff); d.cond = (int)((op.c >> 8) & 0xff) - 1; d.sense = (int)((op.c >> 16) & 1); d.level = (int)((op.c >> 20) & 3); d.opid = op.id;
    if (d.level > 2) d.level = 2;
    if (d.target >= s.nd || d.cond >= s.nd || d.cond == d.target || v.deps.size() >= MAXDEP) continue;
    bool lower = true;
    for (int e : v.emits) if (d.target >= e || d.cond >= e) lower = false;
    if (!lower) continue;
    v.deps.push_back(d);
    s.in_graph[d.target] = true;
    if (d.cond >= 0) s.in_graph[d.cond] = true;
  }
  for (int c = 0; c < MAXCYC && (size_t)c + 1 < p.threads.size(); c++) {
    Cyc& cy = s.cyc[c];
    for (auto& op : p.threads[(size_t)c + 1]) {
      cy.present = true;
      if (op.kind == K_CYCLE) { cy.delay = (int)std::max<int64_t>(0, std::min<int64_t>(op.a, 200)); cy.opid = op.id; }
      if (op.kind == K_INJECT && op.b >= 0 && op.b < s.nd && s.in_graph[op.b]) {
        bool dup = false;
        for (auto& i : cy.inj) if (i.d == (int)op.b) dup = true;
        if (dup) continue;
        Inj in;
        in.d = (int)op.b; in.empty = op.c & 1; in.conc = (op.c & 2) && s.producer[op.b] < 0; in.delay = (int)((op.c >> 8) & 0xff); in.opid = op.id;
        in.v = mix64(0x1213, (uint64_t)op.a);
        if (s.isbool[in.d]) in.v &= 1;
        cy.inj.push_back(in);
      }
      if (op.kind == K_TARGET && op.b >= 0 && op.b < s.nd && s.in_graph[op.b]) {
        bool dup = false;
        for (int t : cy.targets) if (t == (int)op.b) dup = true;
        if (!dup) cy.targets.push_back((int)op.b);
      }
    }
  }
}

void check_reset_state() {
  St& s = *S;
  for (int k = 0; k < s.nd; k++) {
    if (!s.in_graph[k]) continue;
    af::GraphData* g = s.gd[k];
    if (g->ready()) fail("reset-state", "data-ready", "d%d is still published after reset()", k);
    if (!g->empty() || g->value<uint64_t>() != nullptr) fail("reset-state", "data-value", "d%d still holds a value after reset()", k);
    if (g->_acquired.load(std::memory_order_relaxed) || g->_active || g->_depend_state.load(std::memory_order_relaxed) != 0 || g->_has_preset_value)
      fail("reset-state", "data-flags", "d%d keeps run state after reset() (acquired=%d active=%d depend_state=%d)", k, (int)g->_acquired.load(std::memory_order_relaxed), (int)g->_active, (int)g->_depend_state.load(std::memory_order_relaxed));
  }
  for (auto& v : s.graph->_vertexes) {
    if (v._activated.load(std::memory_order_relaxed) || v._waiting_num.load(std::memory_order_relaxed) != 0 || v._closure != nullptr || v._runnable_vertexes != nullptr)
      fail("reset-state", "vertex", "vertex %zu keeps run state after reset() (activated=%d waiting=%lld closure=%p)", v.index(), (int)v._activated.load(std::memory_order_relaxed), (long long)v._waiting_num.load(std::memory_order_relaxed), (void*)v._closure);
    for (auto& d : v._dependencies)
      if (d._waiting_num.load(std::memory_order_relaxed) != 0 || d._ready || d._established)
        fail("reset-state", "dependency", "a dependency of vertex %zu keeps run state after reset() (waiting=%lld ready=%d established=%d)", v.index(), (long long)d._waiting_num.load(std::memory_order_relaxed), (int)d._ready, (int)d._established);
  }
}

// returns false if the graph instance must not be reused (see "late inject")
bool do_cycle(int cy) {
  St& s = *S;
  const Cyc& C = s.cyc[cy];
  s.cycle = cy;
  s.inflight = 0; s.injector_tid = -1; s.refused = 0;
  for (int i = 0; i < MAXV; i++) { s.ninvoked[i] = 0; for (int j = 0; j < MAXDEP; j++) s.dt[i][j].n = 0; }
  for (int k = 0; k < MAXD; k++) { s.seals[k] = 0; s.inj_stamp[k] = 0; }
  for (int t = 0; t < 64; t++) s.releasing[t] = -1;
  compute_ref(cy);
  const Ref& R = s.ref;
  s.tracing = true;
  bool any_conc = false;
  for (auto& in : C.inj) if (in.conc) any_conc = true;
  s.cycle_conc = any_conc;
  // crashes while an input is being injected concurrently get their own site
  auto site = [any_conc](const char* x) { set_crash_site(any_conc ? "concurrent-inject" : x); };
  site("inject");
  for (auto& in : C.inj) if (!in.conc) inject(in);
  std::thread injector;
  if (any_conc) {
    const Cyc* cp = &C;
    injector = std::thread([cp] {
      S->injector_tid = tid();
      for (auto& in : cp->inj) {
        if (!in.conc) continue;
        OpScope scope(in.opid);
        if (in.delay) ::usleep((useconds_t)in.delay);
        inject(in);
        S->inj_stamp[in.d] = stamp();
      }
    });
  }
  if (C.delay) ::usleep((useconds_t)C.delay);
  OpScope run_scope(C.opid >= 0 ? C.opid : 900 + cy);  // run() .. wait() is one client operation
  std::vector<af::GraphData*> tv;
  for (int t : C.targets) tv.push_back(s.gd[t]);
  site("run");
  uint64_t run_enter = stamp();
  af::Closure cl = s.graph->run(tv.data(), tv.size());
  uint64_t run_exit = stamp();
  site("get");
  int rc = cl.get();
  if (!cl.finished()) fail("closure", "not-finished-after-get", "cycle %d: get() returned %d but finished() is false", cy, rc);
  if (cl.error_code() != rc) fail("closure", "error-code-changed", "cycle %d: get() returned %d, error_code() %d", cy, rc, cl.error_code());
  if (s.inflight > 0) probe("finished_with_vertex_in_flight");
  if (s.mode == 1 && s.refused > 0) {
    if (rc == 0) fail("refused-not-reported", "error-code", "cycle %d: the executor refused %d vertex submissions but the run reported success", cy, s.refused);
  } else if (!R.ok) {
    if (rc == 0) fail("error-code", "success-on-failing-graph", "cycle %d: run reported success although %s", cy, R.why);
    probe("run_failed_as_expected");
  } else if (rc != 0) {
    if (!R.conc_demanded) fail("error-code", "failure-on-good-graph", "cycle %d: run failed with %d although the sequential evaluation of the %zu targets succeeds", cy, rc, C.targets.size());
    probe("concurrent_input_missed");  // an input injected concurrently was not there yet when it was demanded
  }
  bool full = rc == 0 && R.ok && !(s.mode == 1 && s.refused > 0);
  if (full)
    for (int t : C.targets) {
      af::GraphData* g = s.gd[t];
      if (!g->ready()) fail("target", "not-published", "cycle %d: run succeeded but target d%d is not published", cy, t);
      const uint64_t* pv = g->value<uint64_t>();
      if (g->empty() != R.d[t].empty) fail("target", "emptiness", "cycle %d: target d%d is %s, sequential evaluation gives %s", cy, t, g->empty() ? "empty" : "non-empty", R.d[t].empty ? "empty" : "a value");
      if (!R.d[t].empty && (!pv || *pv != R.d[t].v)) fail("target", "value", "cycle %d: target d%d holds %#llx, sequential evaluation gives %#llx", cy, t, pv ? (unsigned long long)*pv : 0ULL, (unsigned long long)R.d[t].v);
    }
  site("wait");
  cl.wait();
  if (s.inflight != 0) fail("wait-early", "in-flight", "cycle %d: wait() returned while %d vertex processors of this run have not finished", cy, s.inflight);
  if (injector.joinable()) injector.join();
  // A run that failed because a concurrently injected input came too late can
  // still be poked by that late publish: a vertex that was left waiting is
  // invoked on the already flushed closure (its processor is skipped, but
  // invoke()/run() read graph state and count on the closure) — possibly on a
  // pool worker, after the injector has returned. The API offers nothing to
  // wait for that, so reset()/destruction by the client necessarily races with
  // it. Injecting into a run that has already failed is outside what the
  // property quantifies over, so the harness lets everything settle, stops
  // checking payload races and does not reuse this graph instance.
  if (rc != 0 && any_conc) {
    wait_quiescent();
    probe("settle_after_late_inject");
    if (s.inflight != 0) fail("wait-early", "in-flight-late", "cycle %d: %d vertex processors still running after wait() and the injector finished", cy, s.inflight);
    for (size_t vi = 0; vi < s.verts.size(); vi++)
      if (s.ninvoked[vi] > 1) fail("ran-twice", "end", "cycle %d: vertex %d invoked %d times", cy, s.verts[vi].key, s.ninvoked[vi]);
    for (int k = 0; k < s.nd; k++) if (s.gd[k]) { hb_unregister(&s.gd[k]->_data); hb_unregister(&s.gd[k]->_empty); preempt_unregister(&s.gd[k]->_empty); s.gd[k] = nullptr; }
    s.tracing = false;
    cl = af::Closure();
    set_crash_site(nullptr);
    return false;
  }
  if (s.inflight != 0) fail("wait-early", "in-flight-late", "cycle %d: %d vertex processors still running after wait() and the injector finished", cy, s.inflight);
  for (size_t vi = 0; vi < s.verts.size(); vi++) {
    if (s.ninvoked[vi] > 1) fail("ran-twice", "end", "cycle %d: vertex %d invoked %d times", cy, s.verts[vi].key, s.ninvoked[vi]);
    if (full && R.invoked[vi] && s.ninvoked[vi] == 0) fail("needed-vertex-not-run", "end", "cycle %d: run succeeded but vertex %d, which the sequential evaluation runs, was never invoked", cy, s.verts[vi].key);
    if (R.essfail[vi] && s.ninvoked[vi] == 0) probe("essential_skip");
  }
  for (int k = 0; k < s.nd; k++) {
    if (!s.in_graph[k]) continue;
    af::GraphData* g = s.gd[k];
    if (s.seals[k] > 1) fail("double-release", "seal", "cycle %d: d%d was released %d times", cy, k, s.seals[k]);
    if (full) {
      bool want = R.d[k].ready;
      if (g->ready() && !want) fail("unneeded-data-published", "end", "cycle %d: d%d is published although nothing requested needs its producer", cy, k);
      if (!g->ready() && want) fail("needed-data-unpublished", "end", "cycle %d: d%d is not published after wait() although the sequential evaluation produces it", cy, k);
      if (want) {
        const uint64_t* pv = g->value<uint64_t>();
        if (g->empty() != R.d[k].empty || (!R.d[k].empty && (!pv || *pv != R.d[k].v)))
          fail("data", "value", "cycle %d: d%d is %s %#llx, sequential evaluation gives %s %#llx", cy, k, g->empty() ? "empty" : "value", pv ? (unsigned long long)*pv : 0ULL, R.d[k].empty ? "empty" : "value", (unsigned long long)R.d[k].v);
      }
    }
    if (g->ready()) {
      auto c = g->emit<uint64_t>();
      if (c.valid()) fail("double-publish", "emit-after-ready", "cycle %d: d%d is published but emit() handed out a valid committer again", cy, k);
    }
    if (s.inj_stamp[k] > run_enter && s.inj_stamp[k] < run_exit) { probe("inject_during_run"); if (rc == 0 && R.d[k].demanded) probe("inject_during_run_demanded_ok"); }
  }
  // probes: order in which each dependency counter saw activation (A) and readiness (r)
  for (size_t vi = 0; vi < s.verts.size(); vi++)
    for (size_t i = 0; i < s.verts[vi].deps.size(); i++) {
      DepTrace& t = s.dt[vi][i];
      if (t.n == 0) continue;
      char name[40];
      snprintf(name, sizeof name, "dep_%s_%.*s", s.verts[vi].deps[i].cond >= 0 ? "c" : "u", t.n, t.seq);
      probe(name);
    }
  for (size_t vi = 0; vi < s.verts.size(); vi++)
    for (auto& d : s.verts[vi].deps) if (d.cond >= 0 && R.complete[vi]) probe(R.code[vi][&d - &s.verts[vi].deps[0]] == 0 ? "cond_false" : "cond_true");
  if (cy > 0) probe("cycle_after_reset");
  site("closure-destroy");
  cl = af::Closure();
  s.tracing = false;
  site("reset");
  s.graph->reset();
  sim::drain();  // the relaxed stores of reset() are main's own; keeps them out of the next cycle's traces
  check_reset_state();
  set_crash_site(nullptr);
  return true;
}

void run(const Plan& p) {
  S = new St();
  St& s = *S;
  {
    // failing runs log warnings; keep them off stderr (public configuration API)
    babylon::LoggerBuilder lb;
    lb.set_min_severity(babylon::LogSeverity::FATAL);
    babylon::LoggerManager::instance().set_root_builder(std::move(lb));
    babylon::LoggerManager::instance().apply();
  }
  s.late_fatal = p.get("late_fatal", 1) != 0;
  s.mode = p.get("refuse_mask", 0) != 0 ? 1 : 0;
  s.refuse_mask = (int)p.get("refuse_mask", 0);
  parse(p);
  bool any_emit = false;
  for (auto& v : s.verts) if (!v.emits.empty()) any_emit = true;
  if (s.verts.empty() || !any_emit) skip("empty-graph");
  int ex = (int)p.get("exec", 0);
  if (s.mode == 1) ex = 2;
  int workers = (int)std::max<int64_t>(1, std::min<int64_t>(p.get("workers", 1), 3));
  HPool* pool = nullptr;
  HExec* hexec = nullptr;
  HInplace* inplace = nullptr;
  af::GraphExecutor* exec;
  if (ex == 1) exec = pool = new HPool();
  else if (ex == 2) exec = hexec = new HExec();
  else exec = inplace = new HInplace();
  // single-threaded construction through the real builder
  af::GraphBuilder* gb = new af::GraphBuilder();
  gb->set_name("h");
  gb->set_executor(*exec);
  for (size_t vi = 0; vi < s.verts.size(); vi++) {
    int v = (int)vi;
    auto& vb = gb->add_vertex([v] { return std::unique_ptr<af::GraphProcessor>(new HProc(v)); });
    for (auto& d : s.verts[vi].deps) {
      auto& db = vb.anonymous_depend().to(dname(d.target));
      if (d.cond >= 0) { if (d.sense) db.on(dname(d.cond)); else db.unless(dname(d.cond)); }
    }
    for (int e : s.verts[vi].emits) vb.anonymous_emit().to(dname(e));
  }
  if (gb->finish() != 0) fail("api", "finish", "GraphBuilder::finish failed on a valid acyclic graph");
  s.graph = gb->build();
  if (!s.graph) fail("api", "build", "GraphBuilder::build failed on a valid acyclic graph");
  for (int k = 0; k < s.nd; k++) {
    if (!s.in_graph[k]) continue;
    s.gd[k] = s.graph->find_data(dname(k));
    if (!s.gd[k]) fail("api", "find_data", "data d%d not found in the built graph", k);
    hb_register(&s.gd[k]->_data, sizeof(s.gd[k]->_data), "graphdata-value");
    hb_register(&s.gd[k]->_empty, sizeof(s.gd[k]->_empty), "graphdata-empty");
    // scheduling points on the plain reads of a condition's value: widens the
    // window between the two decrements of a failing condition (dependency.cpp)
    preempt_register(&s.gd[k]->_empty, sizeof(s.gd[k]->_empty));
    watch(&s.gd[k]->_closure, sizeof(void*), seal_watch, &s.seals[k]);
  }
  for (size_t vi = 0; vi < s.verts.size(); vi++) {
    auto& gv = s.graph->_vertexes[vi];
    watch(&gv._activated, 1, act_watch, nullptr);
    for (size_t i = 0; i < s.verts[vi].deps.size(); i++) {
      s.dt[vi][i].n = 0; s.dt[vi][i].cond = s.verts[vi].deps[i].cond; s.dt[vi][i].target = s.verts[vi].deps[i].target;
      watch(&gv._dependencies[i]._waiting_num, 8, dep_watch, &s.dt[vi][i]);
    }
  }
  if (pool && pool->initialize((size_t)workers, 64) != 0) fail("api", "pool-initialize", "ThreadPoolGraphExecutor::initialize failed");
  bool any = false;
  for (int c = 0; c < MAXCYC; c++)
    if (s.cyc[c].present) { any = true; if (!do_cycle(c)) break; }
  if (!any) { if (pool) pool->stop(); skip("no-cycle"); }
  if (pool) pool->stop();
  while (others_alive() > 0) ::usleep(1000);
  for (int k = 0; k < s.nd; k++) if (s.gd[k]) { hb_unregister(&s.gd[k]->_data); hb_unregister(&s.gd[k]->_empty); preempt_unregister(&s.gd[k]->_empty); }
  s.graph.reset();
  delete gb;
  delete pool;
  delete hexec;
  delete inplace;
}

// Targeted shape ("conditional diamond"): two sinks W1, W2 each depend on an
// output of the same vertex V under a condition computed by P1 resp. P2. V is
// not activated by run() itself but at run time, by whichever thread
// establishes a condition — with P1 and P2 finishing on different threads both
// activate V (and the data in between) at the same moment.
int gen_diamond(Rng& r, std::function<void(int, int64_t, int64_t, int64_t)> add, int64_t& boolmask, int& ni) {
  ni = (int)r.range(1, 2);
  int k = ni;
  auto vflags = [&](bool may_trivial) {
    int64_t flags = may_trivial && r.chance(1, 8) ? 1 : 0;
    for (int c = 0; c < MAXCYC; c++) if (r.chance(1, 2)) flags |= (int64_t)r.range(1, 3) << (1 + 2 * c);
    return flags;
  };
  int same = (int)r.range(1, 25);
  int c1 = k++, c2 = k++;
  boolmask |= (1LL << c1) | (1LL << c2);
  for (int v = 0; v < 2; v++) {
    add(K_VERTEX, r.chance(2, 3) ? same : (int64_t)r.range(1, 40), v, vflags(false));
    add(K_EMIT, 1, v, v == 0 ? c1 : c2);
    if (r.chance(1, 2)) add(K_DEP, 1, v, (int64_t)r.below((uint64_t)ni));
  }
  int x = k++, y = r.chance(1, 2) ? k++ : -1;
  add(K_VERTEX, (int64_t)r.range(1, 30), 2, vflags(true));
  add(K_EMIT, 1, 2, x);
  if (y >= 0) add(K_EMIT, 1, 2, y);
  if (r.chance(2, 3)) add(K_DEP, 1, 2, (int64_t)r.below((uint64_t)ni));
  // V itself may depend on an input under the *other* branch's condition: its
  // activation (by the thread that established c1) then races with c2 becoming ready
  if (r.chance(1, 2)) add(K_DEP, 1, 2, (int64_t)r.below((uint64_t)ni) | ((int64_t)((r.chance(3, 4) ? c2 : c1) + 1) << 8) | ((int64_t)r.below(2) << 16));
  for (int v = 3; v < 5; v++) {
    add(K_VERTEX, (int64_t)r.range(1, 30), v, vflags(true));
    add(K_EMIT, 1, v, k++);
    int target = (v == 4 && y >= 0 && r.chance(2, 3)) ? y : x;
    int cond = v == 3 ? c1 : c2;
    add(K_DEP, 1, v, target | ((int64_t)(cond + 1) << 8) | ((int64_t)r.below(2) << 16) | ((int64_t)(r.chance(1, 4) ? 1 : 0) << 20));
    if (r.chance(1, 3)) add(K_DEP, 1, v, (int64_t)r.below((uint64_t)ni));
  }
  return k;
}

// Targeted shape ("fan-in"): a sink V with many dependencies, the first ones on
// vertices that finish on other threads while the activating thread is still
// walking V's remaining (already ready) dependencies: readiness notifications
// race with the bookkeeping at the end of V's activation.
int gen_fanin(Rng& r, std::function<void(int, int64_t, int64_t, int64_t)> add, int64_t& boolmask, int& ni) {
  (void)boolmask;
  ni = 3;
  int np = (int)r.range(1, 2);
  int k = ni;
  for (int v = 0; v < np; v++) {
    add(K_VERTEX, (int64_t)r.range(1, 20), v, r.chance(1, 3) ? ((int64_t)r.range(1, 3) << 1) : 0);
    add(K_EMIT, 1, v, k++);
    if (r.chance(1, 2)) add(K_DEP, 1, v, (int64_t)r.below(3));
  }
  int vkey = np;
  add(K_VERTEX, (int64_t)r.range(1, 20), vkey, 0);
  add(K_EMIT, 1, vkey, k++);
  // pending producers first, then a run of ready inputs
  for (int v = 0; v < np; v++) add(K_DEP, 1, vkey, (int64_t)(ni + v));
  int nready = (int)r.range(2, 5);
  for (int i = 0; i < nready; i++) add(K_DEP, 1, vkey, (int64_t)r.below(3));
  return k;
}

// Targeted shape ("double failure"): two vertices whose level-2 essential input
// is empty fail on different threads at the same moment (and a third one may
// publish the last target meanwhile): two finishers race for the closure.
int gen_doublefail(Rng& r, std::function<void(int, int64_t, int64_t, int64_t)> add, int64_t& boolmask, int& ni) {
  (void)boolmask;
  ni = 2;
  int k = ni;
  int same = (int)r.range(1, 25);
  auto vflags = [&]() { int64_t flags = 0; for (int c = 0; c < MAXCYC; c++) if (r.chance(1, 2)) flags |= (int64_t)r.range(1, 3) << (1 + 2 * c); return flags; };
  for (int v = 0; v < 2; v++) {
    add(K_VERTEX, r.chance(3, 4) ? same : (int64_t)r.range(1, 40), v, vflags());
    add(K_EMIT, 1, v, k++);
    add(K_DEP, 1, v, 0 | ((int64_t)2 << 20));  // input 0, essential level 2
    if (r.chance(1, 2)) add(K_DEP, 1, v, 1);
  }
  if (r.chance(1, 2)) {
    add(K_VERTEX, r.chance(1, 2) ? same : (int64_t)r.range(1, 40), 2, vflags());
    add(K_EMIT, 1, 2, k++);
    add(K_DEP, 1, 2, 1);
  }
  return k;
}

void gen(Rng& r, Plan& p, const GenParams& gp) {
  gen_common(r, p, SB_HALF, false, 3000);
  int ncyc = (int)r.range(1, 3);
  p.threads.resize((size_t)ncyc + 1);
  int opid = 0;
  auto add = [&](int t, int kind, int64_t a, int64_t b, int64_t c) { Op o; o.kind = kind; o.a = a; o.b = b; o.c = c; o.id = opid++; p.threads[(size_t)t].push_back(o); };
  int64_t boolmask = 0;
  int ni = 0, nd = 0;
  bool diamond = r.chance(1, 5);
  bool fanin = !diamond && r.chance(1, 6);
  bool doublefail = !diamond && !fanin && r.chance(1, 8);
  if (diamond) {
    nd = gen_diamond(r, [&](int kind, int64_t a, int64_t b, int64_t c) { add(0, kind, a, b, c); }, boolmask, ni);
  } else if (fanin) {
    nd = gen_fanin(r, [&](int kind, int64_t a, int64_t b, int64_t c) { add(0, kind, a, b, c); }, boolmask, ni);
  } else if (doublefail) {
    nd = gen_doublefail(r, [&](int kind, int64_t a, int64_t b, int64_t c) { add(0, kind, a, b, c); }, boolmask, ni);
  } else {
    const int maxd = gp.thorough ? 12 : 10;
    int nv = (int)r.range(1, 6);
    int e[6];
    int E = 0;
    for (int v = 0; v < nv; v++) { e[v] = r.chance(1, 3) ? 2 : 1; E += e[v]; }
    ni = r.chance(1, 10) ? 0 : (int)r.range(1, 3);
    while (E + ni > maxd) {
      bool cut = false;
      for (int v = nv - 1; v >= 0 && !cut; v--) if (e[v] == 2) { e[v] = 1; E--; cut = true; }
      if (!cut) { if (ni > 1) ni--; else { nv--; E--; } }
    }
    if (E + ni < 3) ni = 3 - E;
    nd = E + ni;
    for (int k = 0; k < nd; k++) if (r.chance(2, 5)) boolmask |= 1LL << k;
    int base = ni;
    for (int v = 0; v < nv; v++) {
      int64_t flags = r.chance(3, 20) ? 1 : 0;
      for (int c = 0; c < MAXCYC; c++) if (r.chance(2, 5)) flags |= (int64_t)r.range(1, 3) << (1 + 2 * c);
      add(0, K_VERTEX, (int64_t)r.range(1, 60), v, flags);
      for (int k = 0; k < e[v]; k++) {
        int64_t mask = 0;
        for (int c = 0; c < MAXCYC; c++) if (r.chance(1, 7)) mask |= 1 << c;
        add(0, K_EMIT, 1, v, (base + k) | (mask << 8));
      }
      int ndeps = 0;
      if (base > 0) { int y = (int)r.below(20); ndeps = y < 3 ? 0 : y < 10 ? 1 : y < 16 ? 2 : 3; }
      for (int i = 0; i < ndeps; i++) {
        int target = r.chance(3, 5) ? (int)r.range(std::max(0, base - 3), base - 1) : (int)r.below((uint64_t)base);
        int cond = -1;
        if (base > 1 && r.chance(9, 20)) {
          std::vector<int> bools, others;
          for (int k = 0; k < base; k++) if (k != target) { ((boolmask >> k) & 1 ? bools : others).push_back(k); }
          if (!bools.empty() && (others.empty() || r.chance(17, 20))) cond = bools[r.below(bools.size())];
          else if (!others.empty()) cond = others[r.below(others.size())];
        }
        int y = (int)r.below(25);
        int level = y < 16 ? 0 : y < 23 ? 1 : 2;
        add(0, K_DEP, 1, v, target | ((int64_t)(cond + 1) << 8) | ((int64_t)r.below(2) << 16) | ((int64_t)level << 20));
      }
      base += e[v];
    }
  }
  p.cfg["nd"] = nd;
  p.cfg["boolmask"] = boolmask;
  int x = (int)r.below(20);
  p.cfg["exec"] = (diamond || fanin || doublefail) ? (x < 2 ? 0 : x < 10 ? 1 : 2) : (x < 6 ? 0 : x < 13 ? 1 : 2);
  p.cfg["workers"] = (int64_t)r.range((diamond || fanin || doublefail) ? 2 : 1, 3);
  p.cfg["refuse_mask"] = gp.mode == 1 ? (int64_t)r.range(1, 63) : 0;
  p.cfg["max_idle_jumps"] = 6000;
  p.cfg["late_fatal"] = gp.mode == 3 ? 0 : 1;
  for (int c = 0; c < ncyc; c++) {
    int t = c + 1;
    add(t, K_CYCLE, (int64_t)r.range(0, 30), 0, 0);
    bool conc_cycle = (gp.mode < 0 && r.chance(7, 20)) || (gp.mode >= 2 && r.chance(4, 5));
    for (int k = 0; k < nd; k++) {
      bool input = k < ni;
      if (input ? !r.chance((fanin || doublefail) ? 50 : 48, 50) : !r.chance((diamond || fanin) ? 1 : 3, 50)) continue;
      int64_t fl = r.chance(1, 9) ? 1 : 0;
      if (doublefail && input) fl = k == 0 ? (r.chance(9, 10) ? 1 : 0) : 0;
      if (input && conc_cycle && r.chance(1, 2)) fl |= 2 | ((int64_t)r.range(0, 6) << 8);
      add(t, K_INJECT, (int64_t)r.range(1, 1 << 20), k, fl);
    }
    int nt = 0;
    bool none = r.chance(1, 40);
    if (diamond && r.chance(4, 5)) { add(t, K_TARGET, 1, nd - 2, 0); add(t, K_TARGET, 1, nd - 1, 0); nt = 2; }
    else if (fanin) { add(t, K_TARGET, 1, nd - 1, 0); nt = 1; }
    else if (doublefail) { for (int k = ni; k < nd; k++) { add(t, K_TARGET, 1, k, 0); nt++; } }
    else
      for (int k = 0; k < nd && !none; k++)
        if (r.chance(k < ni ? (conc_cycle ? 8 : 2) : 9, 25)) { add(t, K_TARGET, 1, k, 0); nt++; }  // a concurrently injected input is often itself a target
    if (nt == 0 && !none) add(t, K_TARGET, 1, (int64_t)r.range(ni < nd ? ni : 0, nd - 1), 0);
  }
}

const char* const kShrink[] = {"workers", nullptr};
}  // namespace

const Harness sim::g_harness = {"anyflow", kNames, gen, run, kShrink, 0};
