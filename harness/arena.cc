// Harness "arena": C06 — monotonic memory resources.  DESIGN.md §3 C06.
//
// Every block returned by allocate is aligned as requested, lies in memory the
// resource owns (a page handed out by the recording PageAllocator or an
// oversize block from the recording upstream), overlaps no other live block and
// keeps its contents until release(); release() runs each registered destructor
// exactly once, then returns every page / oversize block exactly once (oversize
// blocks with the (bytes, alignment) they were obtained with); afterwards the
// accounting is zero and the resource works again.
//
// kind 0  ExclusiveMonotonicBufferResource: ONE thread. There is no schedule
//         here — the check is seeded history generation against the ledger, the
//         1-thread case of the very same ledger the concurrent kinds share.
// kind 1  SharedMonotonicBufferResource, kind 2 SwissMemoryResource: waves of
//         worker threads (1–3 per wave, plus the main thread) are started,
//         overlap and exit, so babylon thread ids — and with them the
//         thread-local exclusive resources — are recycled during the run.
#include <babylon/reusable/memory_resource.h>

#include <google/protobuf/arena.h>

#include <string.h>

#include <algorithm>
#include <map>
#include <set>
#include <thread>
#include <vector>

#include "common.h"

using namespace sim;

namespace {

using Excl = babylon::ExclusiveMonotonicBufferResource;
using Shared = babylon::SharedMonotonicBufferResource;
using Swiss = babylon::SwissMemoryResource;
using Mono = babylon::MonotonicBufferResource;

enum Kind {
  K_ALLOC, K_BURN, K_OVER, K_REGD, K_CONTAINS, K_VERIFY, K_START, K_JOIN, K_RELEASE, K_MOVE_CTOR, K_MOVE_ASSIGN,
  K_ARENA_ALLOC, K_ARENA_OBJ,
};
const char* const kNames[] = {"allocate", "burn_pages", "burn_oversize", "register_destructor", "contains", "verify",
                              "start_wave", "join", "release", "move_construct", "move_assign",
                              "arena_view_allocate", "arena_view_create_object", nullptr};

// allocate() entry points
enum Variant { V_RUNTIME = 0, V_TEMPLATE = 1, V_PMR = 2, V_NVARIANT = 3, V_ARENA = 4, V_ARENA_OBJ = 5 };  // V_ARENA*: swiss resource through its protobuf Arena view

constexpr uint64_t OBJ_MAGIC = 0x0b1ec7c0ffee0000ULL;
struct Obj {
  uint64_t magic;
  uint64_t id;
  ~Obj();
};

struct PageRec { int group; bool out; };
struct UpRec { size_t bytes, align; int group; bool live; };
struct Blk { size_t n, align; int group; int tid; uint32_t seq; bool obj; int objid; };
struct ObjRec { uintptr_t p; int group; int destroyed; };
struct Group { uint64_t user_bytes = 0; uint64_t nreg = 0; uint64_t arrays = 0; bool arena_view = false; };

struct State;
State* S;

struct RecPages : public babylon::PageAllocator {
  size_t psz = 128;
  bool recycle = true;
  std::vector<void*> freelist;
  std::map<uintptr_t, PageRec> pages;
  uint64_t out = 0, handed = 0, returned = 0;
  size_t page_size() const noexcept override { return psz; }
  using PageAllocator::allocate;
  using PageAllocator::deallocate;
  void allocate(void** pages, size_t num) noexcept override;
  void deallocate(void** pages, size_t num) noexcept override;
};

struct RecUp : public std::pmr::memory_resource {
  std::map<uintptr_t, UpRec> blocks;
  uint64_t live = 0, live_bytes = 0, handed = 0;
  void* do_allocate(size_t bytes, size_t align) override;
  void do_deallocate(void* p, size_t bytes, size_t align) override;
  bool do_is_equal(const std::pmr::memory_resource& o) const noexcept override { return this == &o; }
};

// Allocators configured into an unrelated object that is constructed in the
// storage of a destroyed, moved-from resource: nothing may ever reach them.
struct TrapPages : public babylon::PageAllocator {
  size_t psz = 128;
  size_t page_size() const noexcept override { return psz; }
  using PageAllocator::allocate;
  using PageAllocator::deallocate;
  void allocate(void**, size_t) noexcept override {
    fail("move-dangling-this", "thread-constructor", "a thread-local resource created after the resource was move-constructed took its page allocator from the moved-from object (destroyed, storage reused by an unrelated resource) instead of from the object it belongs to");
  }
  void deallocate(void**, size_t) noexcept override {
    fail("move-dangling-this", "thread-constructor", "page returned to the allocator of an unrelated resource living in the moved-from object's storage");
  }
};
struct TrapUp : public std::pmr::memory_resource {
  void* do_allocate(size_t, size_t) override {
    fail("move-dangling-this", "thread-constructor", "a thread-local resource created after the resource was move-constructed took its upstream from the moved-from object (destroyed, storage reused by an unrelated resource)");
  }
  void do_deallocate(void*, size_t, size_t) override {
    fail("move-dangling-this", "thread-constructor", "oversize block returned to the upstream of an unrelated resource living in the moved-from object's storage");
  }
  bool do_is_equal(const std::pmr::memory_resource& o) const noexcept override { return this == &o; }
};

struct Res {
  int kind = 0;
  int group = 0;
  bool move_constructed = false;
  bool arena_view_used = false;  // the protobuf Arena of this (swiss) resource object exists
  bool arena_stale = false;      // ... and was created by an object this one was moved from
  Excl* ex = nullptr;
  Shared* sh = nullptr;  // kinds 1 and 2
  Swiss* sw = nullptr;   // kind 2
  Mono* base() { return kind == 0 ? static_cast<Mono*>(ex) : static_cast<Mono*>(sh); }
};

struct State {
  int kind = 0;
  RecPages pages;
  RecUp up;
  TrapPages trap_pages;
  TrapUp trap_up;
  std::map<uintptr_t, Blk> live;  // non-empty live blocks by start address
  std::vector<ObjRec> objs;
  std::vector<Group> groups;
  int cur_group[64];
  int releasing = -1;           // group whose memory may currently be given back
  const char* ctx = "release";  // what the harness is doing while `releasing` is set
  int ctxk = 0;                 // 1: destroying the source of a move assignment, 2: of a move construction
  uint32_t seq = 0;
  Res* cur = nullptr;
  std::vector<Res*> zombies;  // unrelated objects living in reused storage
  std::vector<std::thread> th;
  std::set<int> started;
  std::set<const void*> slots;
  std::map<const void*, int> slot_user;  // thread-local resource -> simulated thread that used it last
  bool moved_since_wave = false;
  char foreign[64];
};

int new_group() { S->groups.emplace_back(); return (int)S->groups.size() - 1; }

// ---------------------------------------------------------------------------
// raw memory helpers: bulk fill/compare is not a scheduling matter; the first
// and last byte are touched through instrumented accesses so that the
// simulator's heap checker sees blocks lying in freed / unowned memory.
__attribute__((no_sanitize("thread"))) void raw_fill(void* p, int c, size_t n) { memset(p, c, n); }
inline uint8_t pat(uint64_t seed, size_t i) { return (uint8_t)(seed + i * 131 + (i >> 8) * 7); }
__attribute__((no_sanitize("thread"))) void raw_pattern(uint8_t* p, size_t n, uint64_t seed) {
  for (size_t i = 0; i < n; i++) p[i] = pat(seed, i);
}
__attribute__((no_sanitize("thread"))) ssize_t raw_check(const uint8_t* p, size_t n, uint64_t seed) {
  for (size_t i = 0; i < n; i++)
    if (p[i] != pat(seed, i)) return (ssize_t)i;
  return -1;
}
uint64_t seed_of(const Blk& b) { return mix64(0xa7e4a, b.seq) | 1; }

void fill_block(uint8_t* p, const Blk& b) {
  volatile uint8_t* v = p;
  v[0] = 0; v[b.n - 1] = 0;  // instrumented touches (heap checker)
  raw_pattern(p, b.n, seed_of(b));
}

// ---------------------------------------------------------------------------
// recording allocators
bool page_of(uintptr_t a, uintptr_t* start, PageRec** rec) {
  auto it = S->pages.pages.upper_bound(a);
  if (it == S->pages.pages.begin()) return false;
  --it;
  if (a >= it->first + S->pages.psz) return false;
  *start = it->first; *rec = &it->second;
  return true;
}
bool up_of(uintptr_t a, uintptr_t* start, UpRec** rec) {
  auto it = S->up.blocks.upper_bound(a);
  if (it == S->up.blocks.begin()) return false;
  --it;
  if (a >= it->first + std::max<size_t>(it->second.bytes, 1)) return false;
  *start = it->first; *rec = &it->second;
  return true;
}
// Something of content group `g` is given back while another group is being
// released. After a move the moved blocks must follow the target: if they are
// given back by the destruction of the moved-from source the move did not
// transfer them (own class, so that it is not confused with other early frees).
[[noreturn]] void foreign_release(const char* what, unsigned long addr, int g) {
  if (S->ctxk == 1)
    fail("move-assign-not-transferred", "source-destruction", "after `target = std::move(source)` the destruction of the source %s %#lx, which belongs to blocks that were moved to the target and are still in use there", what, addr);
  if (S->ctxk == 2)
    fail("move-construct-not-transferred", "source-destruction", "after move construction the destruction of the source %s %#lx, which belongs to blocks that were moved to the new object", what, addr);
  fail("foreign-release", S->ctx, "%s %s %#lx, which belongs to another resource object (content group %d, releasing %d)", S->ctx, what, addr, g, S->releasing);
}

int pending_destructors(int group) {
  int n = 0;
  for (auto& o : S->objs) if (o.group == group && o.destroyed == 0) n++;
  return n;
}

void RecPages::allocate(void** out_pages, size_t num) noexcept {
  sim::yield_point();  // a real page allocator synchronises inside
  int g = S->cur_group[tid() & 63];
  if (g < 0) fail("harness", "page-allocate-context", "page allocator called outside a harness API call");
  for (size_t i = 0; i < num; i++) {
    void* p;
    if (recycle && !freelist.empty()) { p = freelist.back(); freelist.pop_back(); probe("page_recycled"); }
    else p = ::operator new(psz, std::align_val_t(psz));
    raw_fill(p, 0xC9, psz);
    PageRec& r = pages[(uintptr_t)p];
    if (r.out) fail("harness", "page-allocate", "recording allocator handed out a page twice");
    r.group = g; r.out = true;
    out++; handed++;
    out_pages[i] = p;
  }
}

void RecPages::deallocate(void** in_pages, size_t num) noexcept {
  sim::yield_point();
  for (size_t i = 0; i < num; i++) {
    uintptr_t a = (uintptr_t)in_pages[i];
    auto it = pages.find(a);
    if (it == pages.end())
      fail("bad-page", "page-deallocate", "%s handed %#lx to the page allocator, which never handed out such a page", S->ctx, (unsigned long)a);
    PageRec& r = it->second;
    if (!r.out)
      fail("page-returned-twice", "page-deallocate", "%s returned page %#lx to the page allocator a second time", S->ctx, (unsigned long)a);
    if (S->releasing < 0)
      fail("early-free", "page-deallocate", "page %#lx returned to the page allocator outside release()/destruction", (unsigned long)a);
    if (r.group != S->releasing) foreign_release("returned page", (unsigned long)a, r.group);
    int pend = pending_destructors(r.group);
    if (pend)
      fail("order", "page-before-destructor", "page %#lx was returned while %d registered destructors of the resource had not run yet", (unsigned long)a, pend);
    r.out = false;
    out--; returned++;
    raw_fill((void*)a, 0xDD, psz);
    if (recycle) freelist.push_back((void*)a);
    else ::operator delete((void*)a, std::align_val_t(psz));
  }
}

void* RecUp::do_allocate(size_t bytes, size_t align) {
  int g = S->cur_group[tid() & 63];
  if (g < 0) fail("harness", "upstream-allocate-context", "upstream called outside a harness API call");
  if (align == 0 || (align & (align - 1))) fail("upstream-request", "alignment", "upstream asked for alignment %zu", align);
  void* p = ::operator new(bytes ? bytes : 1, std::align_val_t(align));
  raw_fill(p, 0xC7, bytes);
  blocks[(uintptr_t)p] = UpRec{bytes, align, g, true};
  live++; live_bytes += bytes; handed++;
  probe("oversize_from_upstream");
  return p;
}

void RecUp::do_deallocate(void* p, size_t bytes, size_t align) {
  auto it = blocks.find((uintptr_t)p);
  if (it == blocks.end())
    fail("bad-oversize", "upstream-deallocate", "%s handed %p (%zu bytes, align %zu) to upstream deallocate, which never allocated it", S->ctx, p, bytes, align);
  UpRec& r = it->second;
  if (!r.live)
    fail("oversize-returned-twice", "upstream-deallocate", "%s returned oversize block %p to upstream a second time", S->ctx, p);
  if (r.bytes != bytes || r.align != align)
    fail("oversize-mismatch", "upstream-deallocate", "oversize block %p was obtained with (bytes=%zu, align=%zu) but returned with (bytes=%zu, align=%zu)", p, r.bytes, r.align, bytes, align);
  if (S->releasing < 0)
    fail("early-free", "upstream-deallocate", "oversize block %p returned to upstream outside release()/destruction", p);
  if (r.group != S->releasing) foreign_release("returned oversize block", (unsigned long)p, r.group);
  int pend = pending_destructors(r.group);
  if (pend)
    fail("order", "oversize-before-destructor", "oversize block %p was returned while %d registered destructors had not run yet", p, pend);
  r.live = false;
  live--; live_bytes -= r.bytes;
  ::operator delete(p, std::align_val_t(align));
}

// ---------------------------------------------------------------------------
// destructor ledger
void on_destroy(Obj* o) {
  uint64_t id = o->id;
  if (id >= S->objs.size() || o->magic != (OBJ_MAGIC ^ id))
    fail("destructor", "corrupt-object", "registered destructor ran on %p whose contents are no longer the object that was registered (magic %#llx id %llu)", (void*)o, (unsigned long long)o->magic, (unsigned long long)id);
  ObjRec& r = S->objs[id];
  if (r.p != (uintptr_t)o) fail("destructor", "wrong-pointer", "destructor of object %llu ran on %p, registered at %#lx", (unsigned long long)id, (void*)o, (unsigned long)r.p);
  if (++r.destroyed > 1) fail("destructor", "run-twice", "registered destructor of object %llu ran %d times", (unsigned long long)id, r.destroyed);
  if (S->releasing != r.group && S->releasing >= 0 && S->ctxk != 0) foreign_release("ran the registered destructor of the object at", (unsigned long)r.p, r.group);
  if (S->releasing != r.group) fail("destructor", "outside-release", "registered destructor of object %llu (content group %d) ran while %s (group %d)", (unsigned long long)id, r.group, S->releasing < 0 ? "no release was in progress" : S->ctx, S->releasing);
}
Obj::~Obj() { on_destroy(this); }
void obj_dtor_fn(void* p) { on_destroy(reinterpret_cast<Obj*>(p)); }

// ---------------------------------------------------------------------------
// API wrappers
Excl* local_of(Res& R) { return R.kind == 0 ? R.ex : &R.sh->_resources.local(); }

template <size_t A>
void* alloc_t(Res& R, size_t bytes) {
  switch (R.kind) {
    case 0: return R.ex->allocate<A>(bytes);
    case 1: return R.sh->allocate<A>(bytes);
    default: return R.sw->allocate<A>(bytes);
  }
}

void note_block(Res& R, void* ptr, size_t bytes, size_t align, bool obj, int objid, const char* site) {
  uintptr_t p = (uintptr_t)ptr;
  S->groups[(size_t)R.group].user_bytes += bytes;
  if (p & (align - 1))
    fail("misaligned", site, "%s(%zu, align %zu) returned %#lx", site, bytes, align, (unsigned long)p);
  if (bytes == 0) { probe("zero_byte_block"); return; }
  // ownership
  uintptr_t start; PageRec* pr; UpRec* ur;
  if (page_of(p, &start, &pr)) {
    if (!pr->out)
      fail("not-owned", site, "%s(%zu, align %zu) returned %#lx inside page %#lx, which the resource has already given back to the page allocator", site, bytes, align, (unsigned long)p, (unsigned long)start);
    if (pr->group != R.group)
      fail("not-owned", site, "%s(%zu, align %zu) returned %#lx inside page %#lx, which belongs to another resource object", site, bytes, align, (unsigned long)p, (unsigned long)start);
    if (p + bytes > start + S->pages.psz)
      fail("out-of-page", site, "%s(%zu, align %zu) returned %#lx: the block runs %zu bytes past the end of its page %#lx (page size %zu)", site, bytes, align, (unsigned long)p, (size_t)(p + bytes - start - S->pages.psz), (unsigned long)start, S->pages.psz);
  } else if (up_of(p, &start, &ur)) {
    if (!ur->live)
      fail("not-owned", site, "%s(%zu, align %zu) returned %#lx inside an oversize block already returned to upstream", site, bytes, align, (unsigned long)p);
    if (ur->group != R.group)
      fail("not-owned", site, "%s(%zu, align %zu) returned %#lx inside an oversize block of another resource object", site, bytes, align, (unsigned long)p);
    if (p + bytes > start + ur->bytes)
      fail("out-of-page", site, "%s(%zu, align %zu) returned %#lx: the block runs past the end of the oversize block (%zu bytes at %#lx)", site, bytes, align, (unsigned long)p, ur->bytes, (unsigned long)start);
  } else {
    bool oversize = bytes > S->pages.psz || align > S->pages.psz;
    if (oversize && R.move_constructed && R.kind == 0)
      fail("wrong-upstream", "after-move-construct", "%s(%zu, align %zu) on a move-constructed resource returned %#lx, memory that was not obtained from the upstream configured with set_upstream() on the source (the move did not carry the upstream over)", site, bytes, align, (unsigned long)p);
    fail("not-owned", site, "%s(%zu, align %zu) returned %#lx, which lies in no page handed out by the page allocator and in no oversize block obtained from upstream", site, bytes, align, (unsigned long)p);
  }
  // overlap with other live blocks
  auto nx = S->live.lower_bound(p);
  if (nx != S->live.end() && nx->first < p + bytes)
    fail("overlap", site, "%s(%zu, align %zu) by T%d returned [%#lx,+%zu) overlapping live block [%#lx,+%zu) handed to T%d", site, bytes, align, tid(), (unsigned long)p, bytes, (unsigned long)nx->first, nx->second.n, nx->second.tid);
  if (nx != S->live.begin()) {
    auto pv = std::prev(nx);
    if (pv->first + pv->second.n > p)
      fail("overlap", site, "%s(%zu, align %zu) by T%d returned [%#lx,+%zu) overlapping live block [%#lx,+%zu) handed to T%d", site, bytes, align, tid(), (unsigned long)p, bytes, (unsigned long)pv->first, pv->second.n, pv->second.tid);
  }
  Blk b{bytes, align, R.group, tid(), ++S->seq, obj, objid};
  if (!obj) fill_block((uint8_t*)ptr, b);
  S->live[p] = b;
}

void* api_alloc(Res& R, size_t bytes, unsigned lg, int variant, bool obj = false, int objid = -1) {
  size_t align = (size_t)1 << lg;
  int me = tid() & 63;
  S->cur_group[me] = R.group;
  const char* site = variant == V_TEMPLATE ? "allocate<A>" : variant == V_PMR ? "pmr-allocate" : variant == V_ARENA ? "arena-view-CreateArray" : variant == V_ARENA_OBJ ? "arena-view-Create" : "allocate";
  set_crash_site(site);
  // placement of a new page array (probe only; reads private state)
  bool inspect = variant != V_TEMPLATE;
  Excl* loc = nullptr; void* pa0 = nullptr; uintptr_t fe0 = 0;
  if (inspect) {
    loc = local_of(R); pa0 = loc->_last_page_array; fe0 = (uintptr_t)loc->_free_end;
    if (R.kind != 0) {
      auto ins = S->slot_user.insert({loc, tid()});
      if (!ins.second && ins.first->second != tid()) { probe("thread_local_resource_inherited_by_new_thread"); ins.first->second = tid(); }
    }
  }
  void* p = nullptr;
  if (variant == V_TEMPLATE) {
    switch (lg) {
      case 0: p = alloc_t<1>(R, bytes); break;
      case 3: p = alloc_t<8>(R, bytes); break;
      case 4: p = alloc_t<16>(R, bytes); break;
      case 6: p = alloc_t<64>(R, bytes); break;
      case 8: p = alloc_t<256>(R, bytes); break;
      default: p = alloc_t<4096>(R, bytes); align = 4096; break;
    }
  } else if (variant == V_PMR) {
    p = static_cast<std::pmr::memory_resource*>(R.base())->allocate(bytes, align);
  } else if (variant == V_ARENA || variant == V_ARENA_OBJ) {
    // the swiss resource seen as a google::protobuf::Arena (created lazily on
    // first use, possibly by several threads at once)
    S->groups[(size_t)R.group].arena_view = true;
    // Listed defect (DESIGN §9.2 K5): an Arena created before the resource was
    // moved keeps the address of the moved-from object; whatever goes wrong
    // inside such a call is attributed to it.
    if (R.arena_stale) { probe("arena_view_used_after_move"); fail_context("move-dangling-this", "arena-view-after-move"); }
    else R.arena_view_used = true;
    ::google::protobuf::Arena& a = *R.sw;
    if (variant == V_ARENA) { if (bytes == 0) bytes = 1; p = ::google::protobuf::Arena::CreateArray<char>(&a, bytes); align = 1; }
    else { p = ::google::protobuf::Arena::Create<Obj>(&a); align = alignof(Obj); }
  } else {
    switch (R.kind) {
      case 0: p = R.ex->allocate(bytes, align); break;
      case 1: p = R.sh->allocate(bytes, align); break;
      default: p = R.sw->allocate(bytes, align); break;
    }
  }
  set_crash_site(nullptr);
  S->cur_group[me] = -1;
  if (inspect && loc->_last_page_array != pa0) {
    uintptr_t pa = (uintptr_t)loc->_last_page_array, psz = S->pages.psz;
    if (pa >= (uintptr_t)p && pa < ((uintptr_t)p & ~(psz - 1)) + psz && bytes <= psz) probe("page_array_in_new_page_tail");
    else if (fe0 && pa >= fe0 - psz && pa < fe0) probe("page_array_in_old_page_tail");
    else probe("page_array_in_extra_page");
  }
  note_block(R, p, bytes, align, obj, objid, site);
  fail_context(nullptr, nullptr);
  return p;
}

// an object with a destructor created through the Arena view: the arena's
// clean-up list must end up as a registered destructor of the resource
void api_arena_object(Res& R) {
  int id = (int)S->objs.size();
  S->objs.push_back(ObjRec{0, R.group, 0});
  Obj* o = reinterpret_cast<Obj*>(api_alloc(R, sizeof(Obj), 3, V_ARENA_OBJ, true, id));
  o->magic = OBJ_MAGIC ^ (uint64_t)id;
  o->id = (uint64_t)id;
  S->objs[(size_t)id].p = (uintptr_t)o;
  S->groups[(size_t)R.group].nreg++;
}

void api_register(Res& R, int variant) {
  int id = (int)S->objs.size();
  S->objs.push_back(ObjRec{0, R.group, 0});
  Obj* o = reinterpret_cast<Obj*>(api_alloc(R, sizeof(Obj), 3, variant % 2 ? V_TEMPLATE : V_RUNTIME, true, id));
  o->magic = OBJ_MAGIC ^ (uint64_t)id;
  o->id = (uint64_t)id;
  S->objs[(size_t)id].p = (uintptr_t)o;
  int me = tid() & 63;
  S->cur_group[me] = R.group;
  set_crash_site("register_destructor");
  Excl* loc = local_of(R);
  void* da0 = loc->_last_destroy_task_array;
  switch (variant % 3) {
    case 0:  // typed
      if (R.kind == 0) R.ex->register_destructor(o); else if (R.kind == 1) R.sh->register_destructor(o); else R.sw->register_destructor(o);
      break;
    case 1:  // type erased
      if (R.kind == 0) R.ex->register_destructor(o, obj_dtor_fn); else R.sh->register_destructor(o, obj_dtor_fn);
      break;
    default:  // through the interface class (virtual do_register_destructor)
      R.base()->register_destructor(o);
      break;
  }
  set_crash_site(nullptr);
  S->cur_group[me] = -1;
  Group& g = S->groups[(size_t)R.group];
  g.nreg++;
  if (loc->_last_destroy_task_array != da0) { g.arrays++; if (da0) probe("destroy_task_array_chained"); }
}

bool api_contains(Res& R, const void* p) {
  set_crash_site("contains");
  bool r = R.base()->contains(p);
  set_crash_site(nullptr);
  return r;
}

// ---------------------------------------------------------------------------
// quiescent checks
size_t space_used(Res& R) { return R.base()->space_used(); }
size_t space_allocated(Res& R) { return R.base()->space_allocated(); }

void register_slots(Res& R) {
  if (R.kind == 0) return;
  // The thread-local exclusive resources are plain (non-atomic) state that is
  // handed from an exited thread to the next thread with the same babylon
  // thread id: any access not ordered by happens-before is a `race`.
  R.sh->_resources.for_each([&](Excl* b, Excl* e) {
    for (; b != e; ++b)
      if (S->slots.insert(b).second) {
        hb_register(b, sizeof(Excl), "thread-local-resource");
        if (R.move_constructed) probe("thread_local_resource_created_after_move");
      }
  });
}
void unregister_slots(Res& R) {
  if (R.kind == 0) return;
  R.sh->_resources.for_each([&](Excl* b, Excl* e) {
    for (; b != e; ++b)
      if (S->slots.erase(b)) hb_unregister(b);
  });
}

void verify_all(const char* site, Res* extra = nullptr) {
  for (auto& kv : S->live) {
    const Blk& b = kv.second;
    if (b.obj) {
      const Obj* o = (const Obj*)kv.first;
      if (o->magic != (OBJ_MAGIC ^ (uint64_t)b.objid) || o->id != (uint64_t)b.objid)
        fail("corrupt", site, "registered object %d at %#lx (T%d) was overwritten before release()", b.objid, (unsigned long)kv.first, b.tid);
      continue;
    }
    ssize_t bad = raw_check((const uint8_t*)kv.first, b.n, seed_of(b));
    if (bad >= 0)
      fail("corrupt", site, "block [%#lx,+%zu) (align %zu, handed to T%d as #%u) changed at offset %zd: %#04x instead of %#04x — something else (the resource's own bookkeeping or another block) was written over it", (unsigned long)kv.first, b.n, b.align, b.tid, b.seq, bad, ((const uint8_t*)kv.first)[bad], pat(seed_of(b), (size_t)bad));
  }
  // accounting: what the resource says it obtained is what the recording allocators handed out
  size_t alloc = space_allocated(*S->cur) + (extra ? space_allocated(*extra) : 0);
  size_t expect = S->pages.out * S->pages.psz + S->up.live_bytes;
  // (private state read only to name the cause of an observed symptom)
  if (alloc != expect && S->cur->kind == 0 && S->cur->move_constructed && S->cur->ex->_upstream != &S->up)
    fail("wrong-upstream", "after-move-construct", "a move-constructed resource obtained memory behind the back of the upstream configured on its source: space_allocated() = %zu but only %llu pages of %zu bytes and %llu oversize bytes were handed out by the configured page allocator and upstream (the move did not carry the upstream over)", alloc, (unsigned long long)S->pages.out, S->pages.psz, (unsigned long long)S->up.live_bytes);
  if (alloc != expect)
    fail("accounting", "space_allocated", "space_allocated() = %zu but %llu pages of %zu bytes and %llu oversize bytes are outstanding (%zu)", alloc, (unsigned long long)S->pages.out, S->pages.psz, (unsigned long long)S->up.live_bytes, expect);
  Group& g = S->groups[(size_t)S->cur->group];
  size_t used = space_used(*S->cur);
  size_t dta = sizeof(Excl::DestroyTaskArray);
  // every destroy-task array the resource set up for itself is one allocate<8>(sizeof(DestroyTaskArray))
  size_t want = g.user_bytes + dta * g.arrays;
  // (the Arena object and its clean-up bookkeeping are the resource's own allocations: lower bound only)
  if (g.arena_view ? used < want : used != want)
    fail("accounting", "space_used", "space_used() = %zu, expected %zu (%llu requested bytes, %llu registered destructors in %llu destroy-task arrays)", used, want, (unsigned long long)g.user_bytes, (unsigned long long)g.nreg, (unsigned long long)g.arrays);
  register_slots(*S->cur);
}

void check_contains(Res& R) {
  int n = 0;
  for (auto& kv : S->live) {
    if (kv.second.group != R.group) continue;
    if ((n++ % 3) != 0 && n > 4) continue;
    if (!api_contains(R, (const void*)kv.first) || !api_contains(R, (const void*)(kv.first + kv.second.n - 1)))
      fail("contains", "false-negative", "contains() is false for live block [%#lx,+%zu)", (unsigned long)kv.first, kv.second.n);
  }
  if (api_contains(R, S->foreign + 13)) fail("contains", "false-positive", "contains() is true for memory that never belonged to the resource");
  // addresses right behind a page that belong to no page / oversize block of this resource
  static const size_t deltas[] = {0, 8, 100, 1000};
  int probes_done = 0;
  for (auto& kv : S->pages.pages) {
    if (!kv.second.out || kv.second.group != R.group) continue;
    for (size_t d : deltas) {
      uintptr_t q = kv.first + S->pages.psz + d, s; PageRec* pr; UpRec* ur;
      if (page_of(q, &s, &pr) && pr->out) continue;
      if (up_of(q, &s, &ur) && ur->live) continue;
      if (api_contains(R, (const void*)q))
        fail("contains", "false-positive-past-page", "contains(%#lx) is true although the address lies %zu bytes behind the end of page %#lx and in no memory the resource obtained", (unsigned long)q, d, (unsigned long)kv.first);
      probes_done++;
    }
    if (probes_done > 24) break;
  }
}

void check_group_released(int g, bool moved, const char* what) {
  if (S->ctxk == 1) {
    // after `target = std::move(source)` and the destruction of the source,
    // what the target held before must be gone (swapped into the source, or
    // released by the assignment): if it is all still there, nothing was transferred
    bool any = false;
    for (auto& o : S->objs) if (o.group == g && o.destroyed == 0) any = true;
    for (auto& kv : S->pages.pages) if (kv.second.out && kv.second.group == g) any = true;
    for (auto& kv : S->up.blocks) if (kv.second.live && kv.second.group == g) any = true;
    if (any)
      fail("move-assign-not-transferred", "source-destruction", "after `target = std::move(source)` and the destruction of the source, the target still holds the pages / oversize blocks / registered objects it held before the assignment: the assignment exchanged nothing");
  }
  for (auto& o : S->objs) {
    if (o.group != g) continue;
    if (o.destroyed == 0) fail("destructor", "not-run", "%s: a registered destructor (object at %#lx) did not run", what, (unsigned long)o.p);
    if (o.destroyed > 1) fail("destructor", "run-twice", "%s: a registered destructor ran %d times", what, o.destroyed);
  }
  for (auto& kv : S->pages.pages)
    if (kv.second.out && kv.second.group == g)
      fail("leak", "page-not-returned", "%s did not return page %#lx to the page allocator", what, (unsigned long)kv.first);
  for (auto& kv : S->up.blocks)
    if (kv.second.live && kv.second.group == g) {
      if (heap_is_freed((const void*)kv.first))
        fail("wrong-upstream", moved ? "after-move-construct" : "release", "%s freed oversize block %#lx (%zu bytes) but not through the upstream resource it was obtained from", what, (unsigned long)kv.first, kv.second.bytes);
      fail("leak", "oversize-not-returned", "%s did not return oversize block %#lx (%zu bytes, align %zu) to upstream", what, (unsigned long)kv.first, kv.second.bytes, kv.second.align);
    }
}

void join_all() {
  for (auto& t : S->th) t.join();
  S->th.clear();
}

// mark the blocks of a group dead; returns a few of their addresses
std::vector<uintptr_t> kill_blocks(int g) {
  std::vector<uintptr_t> sample;
  for (auto it = S->live.begin(); it != S->live.end();) {
    if (it->second.group == g) { if (sample.size() < 6) sample.push_back(it->first); it = S->live.erase(it); }
    else ++it;
  }
  return sample;
}

void destroy_res(Res* R) {
  unregister_slots(*R);
  if (R->kind == 0) delete R->ex; else if (R->kind == 1) delete R->sh; else delete R->sw;
  delete R;
}

void do_release(Res& R, int how) {
  join_all();
  verify_all("before-release");
  int g = R.group;
  std::vector<uintptr_t> sample = kill_blocks(g);
  S->releasing = g; S->ctx = "release()";
  set_crash_site("release");
  if (how == 1 && R.kind != 0) { if (R.kind == 1) R.sh->Shared::release(); else R.sw->Swiss::release(); }
  else R.base()->release();
  set_crash_site(nullptr);
  S->releasing = -1;
  check_group_released(g, R.move_constructed, "release()");
  if (space_used(R) != 0 || space_allocated(R) != 0)
    fail("accounting", "after-release", "after release(): space_used() = %zu, space_allocated() = %zu", space_used(R), space_allocated(R));
  if (S->pages.out != 0 || S->up.live != 0)
    fail("leak", "balance-after-release", "after release() the page allocator still has %llu pages out and upstream %llu blocks", (unsigned long long)S->pages.out, (unsigned long long)S->up.live);
  for (uintptr_t a : sample)
    if (api_contains(R, (const void*)a)) fail("contains", "after-release", "contains(%#lx) is still true after release()", (unsigned long)a);
  R.group = new_group();
  R.arena_view_used = false; R.arena_stale = false;  // release() drops the Arena; the next use creates a new one
  probe("release_cycles");
}

Res* make_res(int kind, bool ctor_variant) {
  Res* R = new Res();
  R->kind = kind;
  R->group = new_group();
  switch (kind) {
    case 0:
      R->ex = new Excl();
      R->ex->set_page_allocator(S->pages);
      R->ex->set_upstream(S->up);
      break;
    case 1:
      if (ctor_variant) R->sh = new Shared(S->pages);
      else { R->sh = new Shared(); R->sh->set_page_allocator(S->pages); }
      R->sh->set_upstream(S->up);
      break;
    default:
      if (ctor_variant) R->sw = new Swiss(S->pages);
      else { R->sw = new Swiss(); R->sw->set_page_allocator(S->pages); }
      R->sw->set_upstream(S->up);
      R->sh = R->sw;
      break;
  }
  return R;
}

// Destroy a moved-from source. For the shared kinds its storage is reused at
// once for an unrelated resource object of the same type (a legal thing for a
// client to do: optional<>, vector slot, pool of resources) configured with
// allocators that nobody may ever call: whatever still refers to the old
// object after the move ends up there instead of in freed memory.
void destroy_moved_from(Res* src) {
  unregister_slots(*src);
  if (src->kind == 0) { delete src->ex; delete src; return; }
  Res* z = new Res(); z->kind = src->kind; z->group = src->group;
  if (src->kind == 1) {
    void* mem = src->sh; src->sh->~Shared();
    z->sh = new (mem) Shared(); z->sh->set_page_allocator(S->trap_pages); z->sh->set_upstream(S->trap_up);
  } else {
    void* mem = src->sw; src->sw->~Swiss();
    z->sw = new (mem) Swiss(); z->sw->set_page_allocator(S->trap_pages); z->sw->set_upstream(S->trap_up); z->sh = z->sw;
  }
  S->zombies.push_back(z);
  delete src;
  probe("source_storage_reused");
}

void do_move_construct(int flags) {
  join_all();
  verify_all("before-move");
  Res* src = S->cur;
  Res* dst = new Res();
  dst->kind = src->kind; dst->group = src->group; dst->move_constructed = true;
  dst->arena_stale = src->arena_view_used || src->arena_stale;
  set_crash_site("move-construct");
  switch (src->kind) {
    case 0: dst->ex = new Excl(std::move(*src->ex)); break;
    case 1: dst->sh = new Shared(std::move(*src->sh)); break;
    default: dst->sw = new Swiss(std::move(*src->sw)); dst->sh = dst->sw; break;
  }
  set_crash_site(nullptr);
  // the moved-from object is destroyed; nothing that was moved may be given back by that
  int empty = new_group();
  src->group = empty;
  S->releasing = empty; S->ctx = "destruction of the moved-from source of a move construction"; S->ctxk = 2;
  (void)flags;
  destroy_moved_from(src);
  S->releasing = -1; S->ctxk = 0;
  S->cur = dst;
  S->moved_since_wave = true;
  verify_all("after-move");
  probe("move_construct");
}

void do_move_assign(int pre, int flags) {
  join_all();
  verify_all("before-move");
  Res* src = S->cur;
  Res* dst = make_res(src->kind, flags & 2);
  // the target may already hold blocks of its own
  pre = std::max(0, std::min(pre, 3));
  for (int i = 0; i < pre; i++) {
    if (i == 1) api_register(*dst, i);
    else api_alloc(*dst, i == 0 ? 24 : S->pages.psz + 9, 3, V_RUNTIME);
  }
  int L = dst->group, G = src->group;
  verify_all("before-move", dst);
  // whatever the target held may be given back during the assignment or (swap) later by the source
  std::vector<Blk> lblocks;
  S->releasing = L; S->ctx = "move assignment";
  uint64_t ret0 = S->pages.returned;
  set_crash_site("move-assign");
  switch (src->kind) {
    case 0: *dst->ex = std::move(*src->ex); break;
    case 1: *dst->sh = std::move(*src->sh); break;
    default: *dst->sw = std::move(*src->sw); break;
  }
  set_crash_site(nullptr);
  S->releasing = -1;
  dst->group = G; src->group = L;
  dst->arena_stale = src->arena_view_used || src->arena_stale; dst->arena_view_used = false;
  bool l_released = S->pages.returned != ret0;
  for (auto& o : S->objs) if (o.group == L && o.destroyed) l_released = true;
  if (l_released) { kill_blocks(L); check_group_released(L, false, "move assignment (which released the target's previous contents)"); }
  // destroying the source must give back exactly what the target held before (if not already done)
  if (!l_released) {
    for (auto& kv : S->live) if (kv.second.group == L) lblocks.push_back(kv.second);
    // previous contents must still be intact until then
    for (auto& kv : S->live) {
      if (kv.second.group != L || kv.second.obj) continue;
      if (raw_check((const uint8_t*)kv.first, kv.second.n, seed_of(kv.second)) >= 0) fail("corrupt", "after-move", "a block of the move-assignment target changed during the assignment although it was not released");
    }
    kill_blocks(L);
  }
  S->releasing = L; S->ctx = "destruction of the moved-from source of a move assignment"; S->ctxk = 1;
  set_crash_site("move-assign-source-destructor");
  destroy_moved_from(src);
  set_crash_site(nullptr);
  S->releasing = -1;
  check_group_released(L, false, "move assignment followed by destruction of the source");
  S->ctxk = 0;
  S->cur = dst;
  S->moved_since_wave = true;
  verify_all("after-move");
  probe("move_assign");
}

// ---------------------------------------------------------------------------
void do_alloc_op(Res& R, const Op& op) {
  size_t psz = S->pages.psz;
  switch (op.kind) {
    case K_ALLOC: {
      size_t bytes = (size_t)std::max<int64_t>(0, std::min<int64_t>(op.a, 20000));
      unsigned lg = (unsigned)std::max<int64_t>(0, std::min<int64_t>(op.b & 0xff, 14));
      int variant = (int)((op.b >> 8) % V_NVARIANT);
      api_alloc(R, bytes, lg, variant);
      break;
    }
    case K_BURN: {  // a run of blocks each taking more than half a page: walks through page arrays
      int n = (int)std::max<int64_t>(1, std::min<int64_t>(op.a, 20));
      for (int i = 0; i < n; i++) {
        size_t bytes = psz / 2 + 1 + (size_t)((op.b + i * 37) % (int64_t)(psz / 2));
        api_alloc(R, bytes, (unsigned)((op.b >> 4) % 4), V_RUNTIME);
      }
      break;
    }
    case K_OVER: {  // a run of oversize blocks: walks through oversize page arrays
      int n = (int)std::max<int64_t>(1, std::min<int64_t>(op.a, 18));
      for (int i = 0; i < n; i++) {
        bool by_align = ((op.b + i) % 5) == 0;
        size_t bytes = by_align ? (size_t)(op.b % 40) : psz + 1 + (size_t)((op.b * 7 + i * 3) % 70);
        unsigned lg = 0;
        if (by_align) { while (((size_t)1 << lg) <= psz) lg++; } else lg = (unsigned)(op.b % 5);
        api_alloc(R, bytes, lg, V_RUNTIME);
      }
      break;
    }
    case K_REGD: {
      int n = (int)std::max<int64_t>(1, std::min<int64_t>(op.a, 20));
      for (int i = 0; i < n; i++) api_register(R, (int)(op.b + i));
      break;
    }
    case K_ARENA_ALLOC:
      if (R.kind == 2) api_alloc(R, (size_t)std::max<int64_t>(1, std::min<int64_t>(op.a, 20000)), 0, V_ARENA);
      break;
    case K_ARENA_OBJ: {
      if (R.kind != 2) break;
      int n = (int)std::max<int64_t>(1, std::min<int64_t>(op.a, 6));
      for (int i = 0; i < n; i++) api_arena_object(R);
      break;
    }
  }
}

void start_wave(const Plan& p, int wave) {
  if (S->kind == 0) return;
  if (!S->started.insert(wave).second) return;
  if (!S->th.empty()) probe("wave_started_while_threads_run");
  for (size_t t = 1; t < p.threads.size(); t++) {
    if (p.threads[t].empty() || p.threads[t][0].c != wave) continue;
    if (S->moved_since_wave) probe("threads_started_after_move");
    const Plan* pp = &p;
    S->th.emplace_back([pp, t]() {
      for (auto& op : pp->threads[t]) {
        OpScope scope(op.id);
        do_alloc_op(*S->cur, op);
      }
    });
  }
}

void run(const Plan& p) {
  S = new State();
  State& s = *S;
  s.kind = (int)std::max<int64_t>(0, std::min<int64_t>(p.get("kind", 0), 2));
  static const size_t sizes[] = {128, 256, 512, 4096};
  size_t psz = (size_t)p.get("page", 128);
  bool ok = false;
  for (size_t z : sizes) if (z == psz) ok = true;
  if (!ok) psz = 128;
  s.pages.psz = psz; s.trap_pages.psz = psz;
  s.pages.recycle = p.get("recycle", 1) != 0;
  for (int& g : s.cur_group) g = -1;
  s.cur = make_res(s.kind, p.get("ctor", 0) != 0);
  if (p.threads.empty()) return;
  for (auto& op : p.threads[0]) {
    OpScope scope(op.id);
    switch (op.kind) {
      case K_ALLOC: case K_BURN: case K_OVER: case K_REGD: case K_ARENA_ALLOC: case K_ARENA_OBJ:
        do_alloc_op(*s.cur, op);
        break;
      case K_CONTAINS:
        // contains() walks every thread-local resource without synchronisation:
        // only meaningful while no other thread allocates
        join_all();
        check_contains(*s.cur);
        break;
      case K_VERIFY:
        join_all();
        verify_all("quiescence");
        break;
      case K_START: start_wave(p, (int)op.a); break;
      case K_JOIN: join_all(); break;
      case K_RELEASE: do_release(*s.cur, (int)(op.b & 1)); break;
      case K_MOVE_CTOR: do_move_construct((int)op.b); break;
      case K_MOVE_ASSIGN: do_move_assign((int)op.a, (int)op.b); break;
    }
  }
  join_all();
  verify_all("end");
  check_contains(*s.cur);
  // destruction is the last release
  {
    Res* R = s.cur;
    int g = R->group;
    bool moved = R->move_constructed;
    kill_blocks(g);
    s.releasing = g; s.ctx = "destructor";
    set_crash_site("destructor");
    destroy_res(R);
    set_crash_site(nullptr);
    s.releasing = -1;
    check_group_released(g, moved, "destruction");
    s.cur = nullptr;
  }
  if (s.pages.out != 0) fail("leak", "end-pages", "%llu pages were never returned to the page allocator", (unsigned long long)s.pages.out);
  if (s.up.live != 0) fail("leak", "end-oversize", "%llu oversize blocks were never returned to upstream", (unsigned long long)s.up.live);
  for (auto& o : s.objs) if (o.destroyed != 1) fail("destructor", o.destroyed ? "run-twice" : "not-run", "a registered destructor ran %d times by the end of the run", o.destroyed);
  s.releasing = new_group(); s.ctx = "destruction of an unrelated resource";
  for (Res* z : s.zombies) destroy_res(z);
  s.releasing = -1;
  if (s.pages.handed) probe("pages_handed_out", s.pages.handed);
  for (void* pg : s.pages.freelist) ::operator delete(pg, std::align_val_t(psz));
}

// ---------------------------------------------------------------------------
void gen(Rng& r, Plan& p, const GenParams& gp) {
  gen_common(r, p, SB_HALF, false, 1200);
  int kind = gp.mode >= 0 ? gp.mode % 3 : (int)(r.below(10) < 3 ? 0 : r.below(7) < 4 ? 1 : 2);
  p.cfg["kind"] = kind;
  static const int64_t pages[] = {128, 128, 128, 256, 256, 512, 512, 4096};
  int64_t P = pages[r.below(8)];
  p.cfg["page"] = P;
  p.cfg["recycle"] = r.chance(2, 3);
  p.cfg["ctor"] = r.chance(1, 2);
  unsigned lgP = 0;
  while (((int64_t)1 << lgP) < P) lgP++;
  int opid = 0;
  p.threads.resize(1);
  auto add = [&](size_t t, int kind_, int64_t a, int64_t b, int64_t c) {
    if (p.threads.size() <= t) p.threads.resize(t + 1);
    Op o; o.kind = kind_; o.a = a; o.b = b; o.c = c; o.id = opid++;
    p.threads[t].push_back(o);
  };
  auto gen_bytes = [&]() -> int64_t {
    switch (r.below(10)) {
      case 0: case 1: case 2: { static const int64_t sm[] = {0, 1, 2, 3, 7, 8, 9, 15, 16, 17, 24, 31, 32, 33, 48, 63, 64, 65, 100, 127, 128}; return sm[r.below(21)]; }
      case 3: case 4: return P + r.range(-9, 9);
      case 5: return std::max<int64_t>(0, P - 128 + r.range(-9, 9));   // around page - sizeof(PageArray)
      case 6: { static const int dv[] = {2, 2, 3, 4}; return P / dv[r.below(4)] + r.range(-1, 1); }
      case 7: return P * r.range(2, 4) + r.range(-1, 1);
      case 8: return std::max<int64_t>(0, P - 248 + r.range(-9, 9));   // around page - sizeof(DestroyTaskArray)
      default: return r.chance(1, 2) ? 10000 : 5 * P + 3;
    }
  };
  auto gen_align = [&]() -> int64_t {
    uint64_t x = r.below(20);
    if (x < 7) return 0;
    if (x < 11) return 3;
    if (x < 13) return 4;
    if (x < 17) return r.range(1, 12);
    if (x < 18) return lgP;
    if (x < 19) return lgP + 1;
    return 13;
  };
  bool arena_view = kind == 2 && r.chance(1, 2);  // this run also uses the swiss resource as a protobuf Arena
  auto add_alloc_op = [&](size_t t, int64_t wave) {
    uint64_t x = r.below(100);
    if (arena_view && r.chance(1, 3)) {
      if (r.chance(2, 3)) add(t, K_ARENA_ALLOC, std::max<int64_t>(1, gen_bytes()), 0, wave);
      else add(t, K_ARENA_OBJ, r.range(1, 4), 0, wave);
    } else if (x < 58) {
      int variant = (int)r.below(V_NVARIANT);
      int64_t lg = gen_align();
      if (variant == V_TEMPLATE) { static const int64_t tl[] = {0, 3, 4, 6, 8, 12}; lg = tl[r.below(6)]; }
      add(t, K_ALLOC, gen_bytes(), lg | (variant << 8), wave);
    } else if (x < 72) add(t, K_BURN, r.range(2, 20), (int64_t)r.below(1000), wave);
    else if (x < 80) add(t, K_OVER, r.range(1, 18), (int64_t)r.below(1000), wave);
    else add(t, K_REGD, r.chance(1, 3) ? r.range(10, 20) : r.range(1, 4), (int64_t)r.below(6), wave);
  };
  int cycles = (int)r.range(1, 3);
  int wave = 0;
  size_t next_thread = 1;
  // a resource that is moved before its first use (returned from a factory,
  // element of a growing vector): its thread-local parts are created afterwards
  if (r.chance(1, 6)) {
    if (r.chance(2, 3)) add(0, K_MOVE_CTOR, 0, (int64_t)r.below(2), 0);
    else add(0, K_MOVE_ASSIGN, (int64_t)r.below(4), (int64_t)r.below(4), 0);
  }
  for (int c = 0; c < cycles; c++) {
    if (kind == 0) {
      int n = (int)r.range(4, gp.thorough ? 30 : 20);
      for (int i = 0; i < n; i++) {
        if (r.chance(1, 12)) add(0, K_CONTAINS, 0, 0, 0);
        else if (r.chance(1, 15)) add(0, K_VERIFY, 0, 0, 0);
        else add_alloc_op(0, 0);
      }
    } else {
      int nw = (int)r.range(1, 2);
      for (int w = 0; w < nw; w++) {
        int nt = (int)r.range(1, 3);
        for (int i = 0; i < nt && next_thread <= 10; i++) {
          size_t t = next_thread++;
          int nops = (int)r.range(2, gp.thorough ? 9 : 6);
          for (int k = 0; k < nops; k++) add_alloc_op(t, wave);
        }
        add(0, K_START, wave, 0, 0);
        wave++;
        int nm = (int)r.below(4);
        for (int k = 0; k < nm; k++) add_alloc_op(0, 0);
        if (w + 1 < nw && r.chance(1, 2)) add(0, K_JOIN, 0, 0, 0);
      }
      add(0, K_JOIN, 0, 0, 0);
      add(0, K_VERIFY, 0, 0, 0);
      if (r.chance(1, 2)) add(0, K_CONTAINS, 0, 0, 0);
    }
    if (r.chance(1, 3)) {
      if (r.chance(1, 2)) add(0, K_MOVE_CTOR, 0, (int64_t)r.below(2), 0);
      else add(0, K_MOVE_ASSIGN, (int64_t)r.below(4), (int64_t)r.below(4), 0);
      // keep using the resource after the move
      if (kind == 0) { int n = (int)r.below(5); for (int i = 0; i < n; i++) add_alloc_op(0, 0); }
      else if (r.chance(2, 3) && next_thread <= 10) {
        // often more threads than any earlier wave: thread-local resources are created after the move
        int nt = r.chance(1, 2) ? 4 : (int)r.range(1, 3);
        for (int i = 0; i < nt && next_thread <= 10; i++) {
          size_t t = next_thread++;
          int nops = (int)r.range(1, 4);
          for (int k = 0; k < nops; k++) add_alloc_op(t, wave);
        }
        add(0, K_START, wave, 0, 0);
        wave++;
        add(0, K_JOIN, 0, 0, 0);
      }
      if (r.chance(1, 2)) add(0, K_CONTAINS, 0, 0, 0);
    }
    if (c + 1 < cycles || r.chance(1, 2)) add(0, K_RELEASE, 0, (int64_t)r.below(2), 0);
  }
}

const char* const kShrink[] = {nullptr};

}  // namespace

const Harness sim::g_harness = {"arena", kNames, gen, run, kShrink, 0};
