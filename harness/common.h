// Helpers shared by harnesses.
#pragma once
#include <stdint.h>

#include <functional>
#include <thread>
#include <type_traits>
#include <vector>

#include "sim.h"

namespace hx {

// Call f(std::bool_constant<c>, std::bool_constant<w>, std::bool_constant<k>)
template <typename F>
inline void with_flags(bool c, bool w, bool k, F&& f) {
  auto K = [&](auto cc, auto ww) {
    if (k) f(cc, ww, std::true_type{});
    else f(cc, ww, std::false_type{});
  };
  auto W = [&](auto cc) {
    if (w) K(cc, std::true_type{});
    else K(cc, std::false_type{});
  };
  if (c) W(std::true_type{});
  else W(std::false_type{});
}
template <typename F>
inline void with_flags2(bool c, bool k, F&& f) {
  auto K = [&](auto cc) {
    if (k) f(cc, std::true_type{});
    else f(cc, std::false_type{});
  };
  if (c) K(std::true_type{});
  else K(std::false_type{});
}

inline uint64_t mixv(uint64_t v, uint64_t i) { return sim::mix64(v, i + 17); }

// Run the per-thread op lists of a plan on simulated threads (thread index i
// of the plan becomes a std::thread) and join them. body(thread_index, op)
struct Workers {
  std::vector<std::thread> th;
  template <typename Body>
  void start(const sim::Plan& p, Body body, size_t first = 0) {
    for (size_t t = first; t < p.threads.size(); t++) {
      if (p.threads[t].empty()) continue;
      th.emplace_back([&p, t, body]() {
        for (auto& op : p.threads[t]) {
          sim::OpScope scope(op.id);
          body((int)t, op);
        }
      });
    }
  }
  void join() {
    for (auto& t : th) t.join();
    th.clear();
  }
};

}  // namespace hx
