// Harness "coroutine": C13 — each suspension resumed exactly once, on its
// executor, right result; coroutine::Futex wake/cancel semantics; no leaked
// per-wait bookkeeping.   DESIGN.md §3 C13.
#include <babylon/coroutine/cancelable.h>
#include <babylon/coroutine/futex.h>
#include <babylon/executor.h>
#include <babylon/future.h>

#include <chrono>
#include <condition_variable>
#include <memory>
#include <mutex>
#include <vector>

#include "common.h"

using namespace sim;
using babylon::CoroutineTask;
using babylon::coroutine::Cancellable;
using CoFutex = babylon::coroutine::Futex;

namespace {

enum Kind { K_LAUNCH, K_WAKE_ONE, K_WAKE_ALL, K_CANCEL, K_PAUSE, K_SET, K_AWAIT, K_CHANGE, nullK };
const char* const kNames[] = {"launch", "wake_one", "wake_all", "cancel", "pause", "set_value", "await_suspended", "change_value_and_wake_all", nullptr};

// scenario 0: futex.  launch: a = waiter kind (0 plain, 1 observed, 2 cancellable), b = expected value matches?, c = executor
// scenario 1: cancellable<future>. launch: a = unused, c = executor ; set_value a = which ; cancel a = which
struct Waiter {
  int idx = 0, kind = 0; bool match = true; int exec = 0; int inner_exec = -1; int fi = 0;
  bool launched = false, started = false;
  bool suspended = false;        // on_suspend callback ran (only kinds 1, 2)
  uint64_t susp_stamp = 0;
  int resumed = 0; uint64_t resumed_stamp = 0;
  bool finished = false;
  bool in_executor_ok = true;
  bool has_token = false; CoFutex::Cancellation token;
  babylon::coroutine::BasicCancellable::Cancellation ctoken;
  bool cancel_targeted = false;   // somebody may call the token
  int cancel_won = 0;
  // scenario 1
  babylon::Promise<uint64_t> promise; bool promise_set = false; uint64_t value = 0;
  bool got_empty = false, got_value = false; uint64_t got = 0;
  babylon::Future<void> fut;
};

struct WakeRec { bool all; uint64_t inv, ret; int n; bool done = false; int fi = 0; };

struct State {
  int scenario = 0;
  CoFutex* fx[2] = {new CoFutex(), new CoFutex()};  // two futexes: a wake on one must never resume a waiter of the other
  std::vector<Waiter*> waiters;
  std::vector<WakeRec*> wakes;
  babylon::ThreadPoolExecutor pool[2];
  int npool = 0;
  std::vector<babylon::Executor*> execs;
  int cancel_success = 0;
  bool value_changed = false;    // a change_value_and_wake_all op completed (the word never matches again)
  bool change_planned = false;
  // workload shaping only: lets a canceller and a waker start at the very
  // moment a waiter is known to be suspended
  std::mutex mu;
  std::condition_variable cv;
};
State* S;

void notify_event() {
  { std::lock_guard<std::mutex> l(S->mu); }
  S->cv.notify_all();
}
template <typename P>
void await_event(P pred) {
  std::unique_lock<std::mutex> l(S->mu);
  for (int i = 0; i < 20 && !pred(); i++) S->cv.wait_for(l, std::chrono::microseconds(500));
}

static const uint64_t FV = 7;

template <typename Box>
size_t live_slots(Box& box) {
  size_t freec = 0;
  // ids in [0, end) that are not on the free list are live
  size_t end = box._slot_id_allocator.end();
  size_t live = 0;
  box._slot_id_allocator.for_each([&](uint32_t b, uint32_t e) { live += e - b; });
  (void)freec; (void)end;
  return live;
}

CoroutineTask<> futex_waiter(Waiter* w, babylon::Executor* ex) {
  w->started = true;
  if (!ex->is_running_in()) w->in_executor_ok = false;
  uint64_t expect = w->match ? FV : FV + 1;
  if (w->kind == 0) {
    co_await S->fx[w->fi]->wait(expect);
  } else {
    co_await S->fx[w->fi]->wait(expect).on_suspend([w](CoFutex::Cancellation token) {
      sim::drain();  // handing the token to another thread is a synchronising act of the client
      w->susp_stamp = stamp();
      w->token = token; w->has_token = (w->kind == 2);
      w->suspended = true;
      notify_event();
    });
  }
  w->resumed++;
  w->resumed_stamp = stamp();
  if (w->resumed > 1) fail("resumed-twice", "futex-wait", "waiter %d resumed %d times", w->idx, w->resumed);
  if (!ex->is_running_in()) fail("wrong-executor", "futex-wait", "waiter %d resumed on a thread that is not running in its executor", w->idx);
  if (!w->match && w->suspended) fail("suspended-on-mismatch", "futex-wait", "waiter %d suspended although the futex value did not match", w->idx);
  w->finished = true;
  notify_event();
  co_return;
}

CoroutineTask<> cancellable_waiter(Waiter* w, babylon::Executor* ex) {
  w->started = true;
  // inner task (possibly bound to another executor) awaits a babylon::Future
  // that some thread sets: future-awaitable registration races with set_value
  auto inner = [](Waiter* ww, babylon::Executor* iex) -> CoroutineTask<uint64_t> {
    if (iex && !iex->is_running_in()) fail("wrong-executor", "inner-task", "inner task of waiter %d started outside its executor", ww->idx);
    uint64_t v = co_await ww->promise.get_future();
    if (iex && !iex->is_running_in()) fail("wrong-executor", "future-await", "inner task of waiter %d resumed outside its executor after awaiting a future", ww->idx);
    co_return v;
  };
  babylon::Executor* iex = w->inner_exec >= 0 ? S->execs[(size_t)w->inner_exec % S->execs.size()] : nullptr;
  auto task = inner(w, iex);
  if (iex) task.set_executor(*iex);
  set_crash_site(w->inner_exec < 0 ? "future-resumes-task-without-executor" : nullptr);
  auto r = co_await Cancellable<CoroutineTask<uint64_t>>(std::move(task)).on_suspend([w](babylon::coroutine::BasicCancellable::Cancellation token) {
    sim::drain();  // handing the token to another thread is a synchronising act of the client
    w->susp_stamp = stamp();
    w->ctoken = token; w->has_token = true; w->suspended = true;
    notify_event();
  });
  set_crash_site(nullptr);
  w->resumed++;
  w->resumed_stamp = stamp();
  if (w->resumed > 1) fail("resumed-twice", "cancellable", "waiter %d resumed %d times", w->idx, w->resumed);
  if (!ex->is_running_in()) fail("wrong-executor", "cancellable", "waiter %d resumed on a thread that is not running in its executor", w->idx);
  if (r) { w->got_value = true; w->got = *r; } else w->got_empty = true;
  w->finished = true;
  co_return;
}

void do_op(int t, const Op& op) {
  (void)t;
  switch (op.kind) {
    case K_LAUNCH: {
      if (op.b < 0 || (size_t)op.b >= S->waiters.size()) return;
      Waiter* w = S->waiters[(size_t)op.b];
      if (w->launched) return;  // (shrunk or malformed plan) one coroutine per waiter record
      babylon::Executor* ex = S->execs[(size_t)w->exec % S->execs.size()];
      w->launched = true;
      if (S->scenario == 0) w->fut = ex->execute(futex_waiter, w, ex);
      else w->fut = ex->execute(cancellable_waiter, w, ex);
      if (!w->fut.valid()) fail("api", "execute", "execute of coroutine returned an invalid future");
      break;
    }
    case K_WAKE_ONE:
    case K_WAKE_ALL: {
      if (S->scenario != 0) return;
      if (op.a > 0 && (size_t)(op.a - 1) < S->waiters.size()) {
        // workload shaping only: start the wake right when waiter a-1 is known to be suspended
        Waiter* x = S->waiters[(size_t)(op.a - 1)];
        await_event([x] { return x->suspended || x->finished; });
      }
      WakeRec* r = new WakeRec();
      r->all = op.kind == K_WAKE_ALL;
      r->fi = (int)(op.c & 1);
      r->inv = stamp();
      S->wakes.push_back(r);
      r->n = r->all ? S->fx[r->fi]->wake_all() : S->fx[r->fi]->wake_one();
      r->ret = stamp(); r->done = true;
      if (!r->all) probe(r->n ? "wake_one_1" : "wake_one_0");
      if (r->n < 0 || (!r->all && r->n > 1)) fail("api", "wake", "wake returned %d", r->n);
      break;
    }
    case K_CANCEL: {
      if (op.b < 0 || (size_t)op.b >= S->waiters.size()) return;
      Waiter* w = S->waiters[(size_t)op.b];
      // wait (bounded, workload only) for the token to appear
      await_event([w] { return w->has_token || w->finished; });
      if (!w->has_token) return;
      bool ok = S->scenario == 0 ? w->token() : w->ctoken();
      if (ok) { w->cancel_won++; S->cancel_success++; probe("cancel_won"); } else probe("cancel_lost");
      if (w->cancel_won > 1) fail("cancel-twice", "token", "cancellation of waiter %d reported success twice", w->idx);
      break;
    }
    case K_SET: {
      if (S->scenario != 1 || op.b < 0 || (size_t)op.b >= S->waiters.size()) return;
      Waiter* w = S->waiters[(size_t)op.b];
      if (w->promise_set) return;
      w->promise_set = true;
      w->value = 1000 + (uint64_t)w->idx;
      set_crash_site(w->inner_exec < 0 ? "future-resumes-task-without-executor" : nullptr);
      w->promise.set_value(w->value);
      set_crash_site(nullptr);
      break;
    }
    case K_CHANGE: {
      // the classic futex protocol of a waker: change the word, then wake everybody
      if (S->scenario != 0) return;
      S->fx[0]->atomic_value().store(FV + 100, std::memory_order_seq_cst);
      WakeRec* r = new WakeRec();
      r->all = true; r->fi = 0; r->inv = stamp();
      S->wakes.push_back(r);
      r->n = S->fx[0]->wake_all();
      r->ret = stamp(); r->done = true;
      S->value_changed = true;
      break;
    }
    case K_AWAIT: {
      // workload shaping only
      if (op.b < 0 || (size_t)op.b >= S->waiters.size()) return;
      Waiter* x = S->waiters[(size_t)op.b];
      await_event([x] { return x->suspended || x->finished; });
      break;
    }
    case K_PAUSE:
      ::usleep((useconds_t)std::max<int64_t>(1, std::min<int64_t>(op.a, 2000)));
      break;
  }
}

void gen(Rng& r, Plan& p, const GenParams& gp) {
  gen_common(r, p, SB_HALF, false, 3000);
  int scenario = gp.mode >= 0 ? gp.mode % 2 : (r.chance(2, 3) ? 0 : 1);
  p.cfg["scenario"] = scenario;
  p.cfg["pool_workers"] = (int64_t)r.range(1, 2);
  p.cfg["execs"] = (int64_t)r.range(0, 2);  // 0: one pool, 1: new-thread executor, 2: pool + new-thread
  p.cfg["max_idle_jumps"] = 4000;
  int nthreads = (int)r.range(2, gp.thorough ? 5 : 4);
  int nwait = (int)r.range(1, gp.thorough ? 5 : 4);
  p.cfg["nwait"] = nwait;
  p.threads.resize((size_t)nthreads + 1);
  int opid = 0;
  auto add = [&](int t, int kind, int64_t a, int64_t b, int64_t c) { Op o; o.kind = kind; o.a = a; o.b = b; o.c = c; o.id = opid++; p.threads[(size_t)t].push_back(o); };
  if (scenario == 0 && r.chance(1, 4)) {
    // targeted shape: an observed waiter, then a cancellable one (list head),
    // cancel of the head racing with a single wake_one
    nwait = 2; p.cfg["nwait"] = 2;
    add(1, K_LAUNCH, 1, 0, (int64_t)r.below(2) | (1 << 8));
    add(1, K_PAUSE, (int64_t)r.range(50, 300), 0, 0);
    add(1, K_LAUNCH, 2, 1, (int64_t)r.below(2) | (1 << 8));
    add(1, r.chance(3, 4) ? K_WAKE_ONE : K_WAKE_ALL, 2, 0, 0);
    add(2, K_CANCEL, 0, 1, 0);
    return;
  }
  if (scenario == 0 && r.chance(1, 8)) {
    // targeted shape: cancel of the list head races with wake_all on futex 0; afterwards
    // a new waiter (likely reusing the cancelled waiter's slot) waits on futex 1 and
    // futex 0 is woken once more: it must not find anybody
    nwait = 3; p.cfg["nwait"] = 3;
    add(1, K_LAUNCH, 1, 0, (int64_t)r.below(2) | (1 << 8));
    add(1, K_PAUSE, (int64_t)r.range(50, 300), 0, 0);
    add(1, K_LAUNCH, 2, 1, (int64_t)r.below(2) | (1 << 8));
    add(1, K_WAKE_ALL, 2, 0, 0);
    add(1, K_PAUSE, (int64_t)r.range(20, 200), 0, 0);
    add(1, K_LAUNCH, 1, 2, (int64_t)r.below(2) | (1 << 8) | (1 << 9));
    add(1, K_AWAIT, 0, 2, 0);
    add(1, K_WAKE_ONE, 0, 0, 0);
    add(2, K_CANCEL, 0, 1, 0);
    return;
  }
  if (scenario == 0 && r.chance(1, 10)) {
    // targeted shape: a history of cancellations inside the list (newest first, then
    // its older neighbour), a new waiter that reuses a released node, then wakes:
    // the list must still reach the oldest waiter and nobody of another futex
    nwait = 4; p.cfg["nwait"] = 4;
    for (int w = 0; w < 3; w++) { add(1, K_LAUNCH, 2, w, (int64_t)r.below(2) | (1 << 8)); add(1, K_AWAIT, 0, w, 0); }
    int first = r.chance(3, 4) ? 2 : 1, second = first == 2 ? 1 : (r.chance(1, 2) ? 2 : 0);
    add(1, K_CANCEL, 0, first, 0);
    add(1, K_CANCEL, 0, second, 0);
    add(1, K_LAUNCH, (int64_t)r.below(3), 3, (int64_t)r.below(2) | (1 << 8) | ((int64_t)r.below(2) << 9));
    add(1, K_AWAIT, 0, 3, 0);
    add(1, r.chance(1, 2) ? K_WAKE_ONE : K_WAKE_ALL, 0, 0, 0);
    if (r.chance(1, 2)) add(1, K_WAKE_ONE, 0, 0, 0);
    return;
  }
  if (scenario == 0 && r.chance(1, 6)) {
    // targeted shape: wake_all over two suspended waiters while a third one registers
    nwait = 4; p.cfg["nwait"] = 4;
    add(1, K_LAUNCH, 1, 0, (int64_t)r.below(2) | (1 << 8));
    add(1, K_LAUNCH, 1, 1, (int64_t)r.below(2) | (1 << 8));
    add(1, K_AWAIT, 0, 0, 0);
    add(1, K_WAKE_ALL, 2, 0, 0);
    add(2, K_AWAIT, 0, 1, 0);
    add(2, K_LAUNCH, (int64_t)r.below(2), 2, (int64_t)r.below(2) | (1 << 8));
    if (r.chance(1, 2)) add(2, K_LAUNCH, 0, 3, (int64_t)r.below(2) | (1 << 8));
    return;
  }
  if (scenario == 0 && r.chance(1, 6)) {
    // targeted shape: wakes racing with a waiter that is just registering; long
    // preemptions (PCT / starve-one) are what exposes the window after registration
    nwait = (int)r.range(1, 2); p.cfg["nwait"] = nwait;
    p.cfg["policy"] = r.chance(1, 2) ? 2 : 3;
    p.cfg["starve_from"] = (int64_t)r.range(20, 400);
    p.cfg["starve_len"] = (int64_t)r.range(200, 3000);
    p.cfg["starve_tid"] = (int64_t)r.range(2, 5);
    for (int w = 0; w < nwait; w++) add(1, K_LAUNCH, (int64_t)r.below(2), w, (int64_t)r.below(2) | (1 << 8));
    int nw = (int)r.range(2, 5);
    for (int i = 0; i < nw; i++) add(2, r.chance(4, 5) ? K_WAKE_ONE : K_WAKE_ALL, 0, 0, 0);
    return;
  }
  if (scenario == 0 && r.chance(1, 8)) {
    // targeted shape: waiters registering while the waker changes the word and wakes all
    nwait = (int)r.range(1, 3); p.cfg["nwait"] = nwait;
    for (int w = 0; w < nwait; w++) add(1 + (w % 2), K_LAUNCH, (int64_t)r.below(3), w, (int64_t)r.below(2) | (1 << 8));
    if (r.chance(1, 2)) add(3 <= nthreads ? 3 : 2, K_PAUSE, (int64_t)r.range(1, 200), 0, 0);
    add(3 <= nthreads ? 3 : 2, K_CHANGE, 0, 0, 0);
    return;
  }
  if (scenario == 0 && r.chance(1, 8)) {
    // targeted shape: the client destroys the futex as soon as every waiter has
    // finished, while a canceller may still be in the tail of its call
    nwait = (int)r.range(1, 2); p.cfg["nwait"] = nwait;
    p.cfg["early_destroy"] = 1;
    for (int w = 0; w < nwait; w++) add(1, K_LAUNCH, 2, w, (int64_t)r.below(2) | (1 << 8));
    for (int w = 0; w < nwait; w++) add(2 + (w % 2 && nthreads >= 3 ? 1 : 0), K_CANCEL, 0, w, 0);
    return;
  }
  // waiter attributes live in the launch op: a = kind, b = waiter index, c = executor | inner executor<<4 | match<<8 | futex<<9
  bool two_futexes = scenario == 0 && r.chance(1, 3);
  for (int w = 0; w < nwait; w++) {
    int t = (int)r.range(1, nthreads);
    int kind = scenario == 0 ? (int)r.below(3) : 2;
    int match = scenario == 0 ? (r.chance(5, 6) ? 1 : 0) : 1;
    if (r.chance(1, 3)) add(t, K_PAUSE, (int64_t)r.range(1, 300), 0, 0);
    add(t, K_LAUNCH, kind, w, (int64_t)r.below(2) | ((int64_t)r.below(3) << 4) | (match << 8) | ((two_futexes ? (int64_t)r.below(2) : 0) << 9));
  }
  int nops = (int)r.range(2, gp.thorough ? 10 : 7);
  for (int i = 0; i < nops; i++) {
    int t = (int)r.range(1, nthreads);
    int k = (int)r.below(10);
    if (scenario == 0) {
      if (k < 4) add(t, K_WAKE_ONE, 0, 0, two_futexes ? (int64_t)r.below(2) : 0);
      else if (k < 6) add(t, K_WAKE_ALL, 0, 0, two_futexes ? (int64_t)r.below(2) : 0);
      else if (k < 9) add(t, K_CANCEL, 0, (int64_t)r.below((uint64_t)nwait), 0);
      else if (r.chance(1, 2)) add(t, K_CHANGE, 0, 0, 0);
      else add(t, K_PAUSE, (int64_t)r.range(1, 300), 0, 0);
    } else {
      if (k < 4) add(t, K_SET, 0, (int64_t)r.below((uint64_t)nwait), 0);
      else if (k < 8) add(t, K_CANCEL, 0, (int64_t)r.below((uint64_t)nwait), 0);
      else add(t, K_PAUSE, (int64_t)r.range(1, 300), 0, 0);
    }
  }
}

void wait_idle() {
  // let every executor thread run until it blocks
  for (int i = 0; i < 3; i++) { wait_quiescent(); ::usleep(2000); }
  wait_quiescent();
}

void run(const Plan& p) {
  S = new State();
  State& s = *S;
  s.scenario = (int)p.get("scenario", 0);
  s.fx[0]->value() = FV; s.fx[1]->value() = FV;
  int nwait = (int)std::max<int64_t>(0, std::min<int64_t>(p.get("nwait", 0), 16));
  for (int i = 0; i < nwait; i++) { Waiter* w = new Waiter(); w->idx = i; s.waiters.push_back(w); }
  // waiter attributes from launch ops; cancel targeting
  bool any_launch = false;
  for (auto& th : p.threads)
    for (auto& op : th) {
      if (op.kind == K_LAUNCH && op.b >= 0 && op.b < nwait) { Waiter* w = s.waiters[(size_t)op.b]; w->kind = (int)(op.a % 3); w->exec = (int)(op.c & 0xf); w->inner_exec = (int)((op.c >> 4) & 0xf) - 1; w->match = ((op.c >> 8) & 1) != 0; w->fi = (int)((op.c >> 9) & 1); any_launch = true; }
      if (op.kind == K_CANCEL && op.b >= 0 && op.b < nwait) s.waiters[(size_t)op.b]->cancel_targeted = true;
      if (op.kind == K_CHANGE) s.change_planned = true;
    }
  if (!any_launch) return;
  int execs = (int)p.get("execs", 0);
  auto& newthread = babylon::AlwaysUseNewThreadExecutor::instance();
  if (execs == 0 || execs == 2) {
    s.pool[0].set_worker_number((size_t)std::max<int64_t>(1, std::min<int64_t>(p.get("pool_workers", 1), 3)));
    s.pool[0].set_global_capacity(16);
    s.pool[0].start();
    s.npool = 1;
    s.execs.push_back(&s.pool[0]);
  }
  if (execs == 1 || execs == 2) s.execs.push_back(&newthread);
  auto& nodebox = babylon::DepositBox<CoFutex::Node>::instance();
  auto& cbox = babylon::DepositBox<babylon::coroutine::BasicCancellable*>::instance();
  size_t live0 = live_slots(nodebox), clive0 = live_slots(cbox);

  hx::Workers w;
  w.start(p, [](int t, const Op& op) { do_op(t, op); }, 1);
  if (p.get("early_destroy", 0) && s.scenario == 0) {
    // legal only for plans whose remaining ops cannot touch the futex: launches and cancels
    bool only = true; int planned = 0;
    for (auto& th : p.threads) for (auto& op : th) { if (op.kind == K_LAUNCH) planned++; else if (op.kind != K_CANCEL && op.kind != K_PAUSE) only = false; }
    if (only && planned > 0) {
      await_event([&] { int fin = 0; for (Waiter* x : s.waiters) if (x->finished) fin++; return fin >= planned; });
      int fin = 0; for (Waiter* x : s.waiters) if (x->finished) fin++;
      if (fin >= planned) {
        probe("futex_destroyed_early");
        delete s.fx[0]; delete s.fx[1];
        w.join();
        for (Waiter* x : s.waiters) if (x->launched) x->fut.get();
        if (s.npool) s.pool[0].stop();
        newthread.join();
        while (others_alive() > 0) ::usleep(1000);
        size_t l1 = live_slots(nodebox);
        if (l1 != live0) fail("leak", "futex-node-slot", "%zu DepositBox<Futex::Node> slots were live before the run and %zu after everything finished", live0, l1);
        return;
      }
    }
  }
  w.join();
  wait_idle();

  if (s.scenario == 0) {
    // --- oracle at quiescence (no wake/cancel in progress, every launched coroutine ran as far as it can)
    for (Waiter* x : s.waiters) {
      if (!x->launched || x->finished) continue;
      if (s.value_changed && x->fi == 0)
        fail("lost-wakeup", "futex-value-change", "waiter %d is suspended although the futex word was changed and wake_all() returned afterwards: either it suspended on a non-matching value or the wake missed it (check and enqueue are not atomic)", x->idx);
      if (!x->match) fail("suspended-on-mismatch", "futex-wait", "waiter %d did not finish although its expected value never matched", x->idx);
      // still suspended. Was there a wake that should have taken it?
      if (x->kind == 0 || x->cancel_targeted) continue;  // suspension moment unknown / may be being cancelled
      for (WakeRec* k : s.wakes) {
        if (!k->done || k->fi != x->fi || !(x->suspended && x->susp_stamp < k->inv)) continue;
        if (k->all) fail("wake_all-missed", "futex-wake_all", "wake_all() returned %d and left waiter %d suspended, although it was suspended before the call began and is never cancelled", k->n, x->idx);
        if (k->n == 0) fail("wake_one-missed", "futex-wake_one", "wake_one() returned 0 although waiter %d was suspended before the call began, stayed suspended and is never cancelled", x->idx);
      }
    }
    // wake_one that returned 0 although a never-cancelled waiter sat in the list
    // during the whole call: suspended before it began, resumed (if at all)
    // after it returned, and no other wake overlapped that could have taken it
    for (WakeRec* k : s.wakes) {
      if (!k->done || k->all || k->n != 0) continue;
      // sound only if no wake that started before this one returned can have
      // taken the waiter (a taken waiter is resumed asynchronously, later)
      bool overlapped = false;
      for (WakeRec* o : s.wakes) if (o != k && o->fi == k->fi && o->inv < k->ret && !(o->done && o->n == 0)) overlapped = true;
      if (overlapped) continue;
      for (Waiter* x : s.waiters) {
        if (!x->launched || x->kind != 1 || x->cancel_targeted || !x->match || x->fi != k->fi) continue;
        if (x->suspended && x->susp_stamp < k->inv && (x->resumed == 0 || x->resumed_stamp > k->ret))
          fail("wake_one-missed", "futex-wake_one", "wake_one() returned 0 although waiter %d was suspended before the call began, was not resumed until after it returned, is never cancelled, and no other wake that started before it returned woke anybody", x->idx);
      }
    }
    // final: wake everybody, everything must finish
    int final_woken[2] = {s.fx[0]->wake_all(), 0};
    wait_idle();
    final_woken[1] = s.fx[1]->wake_all();
    wait_idle();
    for (Waiter* x : s.waiters)
      if (x->launched && !x->finished) fail("never-resumed", "futex-wait", "waiter %d (kind %d, futex %d) is still suspended after final wake_all() calls returned %d/%d and everything went idle", x->idx, x->kind, x->fi, final_woken[0], final_woken[1]);
    // per futex: what the wake calls reported == suspended waiters of THAT futex resumed by wakes
    // (waiters of kind 0 that matched are always suspended: the word only changes in change plans)
    for (int f = 0; f < 2 && !s.change_planned; f++) {
      int resumed_by_wake = 0, wake_returns = final_woken[f];
      for (WakeRec* k : s.wakes) if (k->fi == f) wake_returns += k->n;
      for (Waiter* x : s.waiters) if (x->launched && x->fi == f && x->match && !x->cancel_won && (x->kind == 0 || x->suspended)) resumed_by_wake++;
      if (wake_returns != resumed_by_wake)
        fail("wake-count", "futex", "wake_one/wake_all on futex %d reported %d resumptions in total but %d of its suspended waiters were resumed by wakes (a wake resumed a waiter of another futex, or reported a phantom)", f, wake_returns, resumed_by_wake);
    }
    for (int f = 0; f < 2; f++) if (s.fx[f]->wake_one() != 0 || s.fx[f]->wake_all() != 0) fail("wake-count", "futex", "wake on an empty futex reported a resumption");
  } else {
    // everyone not yet decided gets its value now
    for (Waiter* x : s.waiters) if (x->launched && !x->promise_set) {
      x->promise_set = true; x->value = 1000 + (uint64_t)x->idx;
      set_crash_site(x->inner_exec < 0 ? "future-resumes-task-without-executor" : nullptr);
      x->promise.set_value(x->value);
      set_crash_site(nullptr);
    }
    wait_idle();
    for (Waiter* x : s.waiters) {
      if (!x->launched) continue;
      if (!x->finished) fail("never-resumed", "cancellable", "waiter %d never resumed although its future is set (cancel won: %d)", x->idx, x->cancel_won);
      if (x->got_empty != (x->cancel_won == 1)) fail("optional", "cancellable", "waiter %d got %s result but cancel() %s", x->idx, x->got_empty ? "an empty" : "a", x->cancel_won ? "returned true" : "never returned true");
      if (x->got_value && x->got != x->value) fail("value", "cancellable", "waiter %d got %llu, expected %llu", x->idx, (unsigned long long)x->got, (unsigned long long)x->value);
    }
  }
  for (Waiter* x : s.waiters) if (x->launched) { x->fut.get(); }
  if (s.npool) s.pool[0].stop();
  newthread.join();
  while (others_alive() > 0) ::usleep(1000);
  size_t live1 = live_slots(nodebox), clive1 = live_slots(cbox);
  if (live1 != live0) fail("leak", "futex-node-slot", "%zu DepositBox<Futex::Node> slots were live before the run and %zu after everything finished: per-wait bookkeeping leaked", live0, live1);
  if (clive1 != clive0) fail("leak", "cancellable-slot", "%zu DepositBox<BasicCancellable*> slots were live before the run and %zu after", clive0, clive1);
  for (Waiter* x : s.waiters) { if (x->suspended) probe("suspended_observed"); if (!x->match && x->launched) probe("mismatch_wait"); }
}

const char* const kShrink[] = {"nwait", nullptr};
}  // namespace

const Harness sim::g_harness = {"coroutine", kNames, gen, run, kShrink, 0};
