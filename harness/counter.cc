// Harness "counter": ConcurrentAdder / Summer / Maxer / Miner,
// EnumerableThreadLocal, CompactEnumerableThreadLocal — C19.  DESIGN.md §3 C19.
//
// cfg "subject": 0 adder, 1 summer, 2 maxer, 3 miner, 4 EnumerableThreadLocal<Cell>,
//                5 CompactEnumerableThreadLocal<Cell16,1> (4 instances share one line)
// --mode 0..5 selects one subject. Three scenarios that fire on the unmodified
// tree are opt-in so that default batches stay clean (see report):
//   --mode 7  reader concurrent with maxer/miner writers (bounded-read clause)
//   --mode 8  non-const for_each_alive on an instance whose storage is smaller
//             than the live thread-id range
//   --mode 9  maxer/miner fed with the numeric limit of the value type
//
// Plan layout: p.threads[0] = script of the harness main thread, p.threads[t]
// = ops of worker t; Op::c = generation. Per generation main runs its ops at
// quiescence (create/destroy/move/reset/read), then one std::thread per worker
// that has ops in this generation is spawned, they count and exit; a worker
// may linger (blocked) into the next generation so that its ThreadId slot is
// not free when the next generation starts.
#include <babylon/concurrent/counter.h>
#include <babylon/concurrent/thread_local.h>

#include <algorithm>
#include <condition_variable>
#include <limits>
#include <map>
#include <mutex>
#include <set>
#include <vector>

#include "common.h"

using namespace sim;

namespace {

enum Kind { K_CREATE, K_DESTROY, K_MOVE, K_RESET, K_READ, K_COUNT, K_VALUE, K_LINGER, K_ALIVE, K_CHURN };
const char* const kNames[] = {"create", "destroy", "move", "reset", "read", "count", "value", "linger", "for_each_alive", "private_instance", nullptr};
enum Subject { S_ADDER, S_SUMMER, S_MAXER, S_MINER, S_ETL, S_CETL, S_ETLL };  // S_ETLL: EnumerableThreadLocal<Cell, Leaky = true> (the flavour the counters build on)

struct Cell { uint64_t v; uint64_t magic; Cell() : v(0), magic(0xC0FFEEull) {} };
struct Cell16 { uint64_t v = 0; uint64_t w = 0; uint64_t pad[2] = {0, 0}; };  // 32 bytes: 4 instances per 128-byte line
typedef babylon::ConcurrentAdder Adder;
typedef babylon::ConcurrentSummer Summer;
typedef babylon::ConcurrentMaxer Maxer;
typedef babylon::ConcurrentMiner Miner;
typedef babylon::EnumerableThreadLocal<Cell> ETL;
typedef babylon::EnumerableThreadLocal<Cell, true> ETLL;
typedef babylon::CompactEnumerableThreadLocal<Cell16, 1> CETL;

constexpr int NINST = 6;

struct Rec { uint64_t start = 0, end = 0; uint32_t clk = 0; int64_t v = 0; bool done = false; };

struct Inst {
  void* obj = nullptr;
  uint64_t epoch = 0;                          // bumped on create/destroy/move/reset
  std::map<int, std::vector<Rec>> adds;        // sim tid -> contributions of the current period, in program order
  std::map<int, const void*> local_addr;       // sim tid -> address of its local() (live and dead threads of this instance)
  std::map<const void*, int> addr_owner;       // local() address -> live sim tid
  std::set<const void*> used;                  // every local() address ever handed out by this instance
};

struct State {
  int subject = 0;
  Inst inst[NINST];
  std::mutex m;
  std::condition_variable cv;
  int release_level = -1;
  std::map<int, int> live_tid16;               // sim tid -> babylon thread id value (ETL / CETL tag), live threads only
  std::set<const void*> preempt;
  bool maxer_reader = false, empty_alive = false, extreme = false;
};
State* S;

// ---------------------------------------------------------------------------
// type dispatch
template <typename F> auto with(int subject, void* o, F&& f) {
  switch (subject) {
    case S_ADDER: return f((Adder*)o);
    case S_SUMMER: return f((Summer*)o);
    case S_MAXER: return f((Maxer*)o);
    case S_MINER: return f((Miner*)o);
    case S_ETL: return f((ETL*)o);
    case S_ETLL: return f((ETLL*)o);
    default: return f((CETL*)o);
  }
}

// address of the calling thread's slot (this is the call operator<< makes)
void* slot_of(Adder* a) { return &a->_storage.local(); }
void* slot_of(Summer* a) { return &a->_storage.local(); }
void* slot_of(Maxer* a) { return &a->_storage.local(); }
void* slot_of(Miner* a) { return &a->_storage.local(); }
void* slot_of(ETL* a) { return &a->local(); }
void* slot_of(ETLL* a) { return &a->local(); }
void* slot_of(CETL* a) { return &a->local(); }
size_t slot_size(int subject) { return subject == S_ADDER ? 8 : 16; }

void do_count(Adder* a, int64_t v) { *a << v; }
void do_count(Summer* a, int64_t v) { *a << (ssize_t)v; }
void do_count(Maxer* a, int64_t v) { *a << (ssize_t)v; }
void do_count(Miner* a, int64_t v) { *a << (ssize_t)v; }
template <typename E> void do_count_etl(E* a, int64_t v) { Cell& c = a->local(); if (c.magic != 0xC0FFEEull) fail("unconstructed", "local", "local() returned a slot whose constructor never ran"); c.v = c.v + (uint64_t)v; }
void do_count(ETL* a, int64_t v) { do_count_etl(a, v); }
void do_count(ETLL* a, int64_t v) { do_count_etl(a, v); }
void do_count(CETL* a, int64_t v) { Cell16& c = a->local(); c.v = c.v + (uint64_t)v; c.w = c.w + 1; }

// a callback range must be a range
void check_range(const void* b, const void* e, const char* what) {
  if ((uintptr_t)b > (uintptr_t)e || (uintptr_t)e - (uintptr_t)b > (1u << 26))
    fail("oob", what, "%s passed the range [%p, %p) to its callback: not a range of slots of this instance", what, b, e);
}

struct Reading { int64_t sum = 0; uint64_t num = 0; bool has = true; };
Reading do_read(const Adder* a) { Reading r; r.sum = a->value(); return r; }
Reading do_read(const Summer* a) { auto s = a->value(); Reading r; r.sum = s.sum; r.num = s.num; return r; }
template <typename M> Reading read_ext(const M* a) {
  Reading r; ssize_t v = 12345; r.has = a->value(v); r.sum = v;
  if (!r.has && v != 12345) fail("api", "value", "value(T&) returned false but modified its argument");
  return r;
}
Reading do_read(const Maxer* a) { return read_ext(a); }
Reading do_read(const Miner* a) { return read_ext(a); }
template <typename E> Reading do_read_etl(const E* a) {
  Reading r;
  a->for_each([&](const Cell* b, const Cell* e) { check_range(b, e, "for_each"); for (; b != e; ++b) { if (b->magic != 0xC0FFEEull) fail("unconstructed", "for_each", "for_each visited a slot whose constructor never ran"); r.sum += (int64_t)b->v; } });
  return r;
}
Reading do_read(const ETL* a) { return do_read_etl(a); }
Reading do_read(const ETLL* a) { return do_read_etl(a); }
Reading do_read(const CETL* a) { Reading r; a->for_each([&](const Cell16& c) { r.sum += (int64_t)c.v; r.num += c.w; }); return r; }

bool is_ext(int s) { return s == S_MAXER || s == S_MINER; }
bool movable(int s) { return s == S_ADDER || s == S_ETL || s == S_CETL || s == S_ETLL; }
bool is_etl(int s) { return s == S_ETL || s == S_ETLL; }
bool has_num(int s) { return s == S_SUMMER || s == S_CETL; }

// ---------------------------------------------------------------------------
// quiescent expectations
void expect_exact(int k, const char* where) {
  Inst& I = S->inst[k];
  if (!I.obj) return;
  Reading r = with(S->subject, I.obj, [](auto* o) { return do_read((const std::remove_pointer_t<decltype(o)>*)o); });
  int64_t sum = 0; uint64_t num = 0; bool any = false; int64_t ext = 0;
  for (auto& kv : I.adds)
    for (auto& a : kv.second) {
      sum += a.v; num++;
      if (!any || (S->subject == S_MAXER ? a.v > ext : a.v < ext)) ext = a.v;
      any = true;
    }
  if (is_ext(S->subject)) {
    // the only recorded extreme equals the numeric limit the implementation uses
    // as its "nothing recorded" sentinel: reported under its own site
    bool sentinel_case = any && ext == (S->subject == S_MAXER ? std::numeric_limits<ssize_t>::min() : std::numeric_limits<ssize_t>::max());
    if (sentinel_case && !r.has) fail("lost", "extreme-equals-sentinel", "%s #%d: value(T&) returned false although %llu values were recorded in the current period, all equal to the numeric limit %lld", S->subject == S_MAXER ? "maxer" : "miner", k, (unsigned long long)num, (long long)ext);
    if (r.has != any) fail(any ? "lost" : "stale", where, "%s #%d: value(T&) returned %s although %llu values were recorded in the current period", S->subject == S_MAXER ? "maxer" : "miner", k, r.has ? "true" : "false", (unsigned long long)num);
    if (any && r.sum != ext) fail(any && (S->subject == S_MAXER ? r.sum > ext : r.sum < ext) ? "stale" : "lost", where, "%s #%d reports %lld, the extreme of the current period is %lld", S->subject == S_MAXER ? "maxer" : "miner", k, (long long)r.sum, (long long)ext);
    ssize_t v0 = with(S->subject, I.obj, [](auto* o) -> ssize_t { if constexpr (std::is_same_v<decltype(o), Maxer*> || std::is_same_v<decltype(o), Miner*>) return o->value(); else return 0; });
    if (v0 != (any ? ext : 0)) fail("api", where, "value() returned %lld, expected %lld", (long long)v0, (long long)(any ? ext : 0));
    return;
  }
  if (r.sum != sum || (has_num(S->subject) && r.num != num))
    fail(num == 0 ? "not-zero" : "wrong-sum", where, "counter #%d at quiescence reads sum=%lld num=%llu, exact total of the %llu contributions is sum=%lld num=%llu", k, (long long)r.sum, (unsigned long long)r.num, (unsigned long long)num, (long long)sum, (unsigned long long)num);
}

template <typename T> const void* storage_slot(const babylon::ConcurrentVector<T, 128>& v, int id) { return (size_t)id < v.size() ? (const void*)&v[(size_t)id] : nullptr; }

// for_each visits every slot ever used; for_each_alive exactly the live ones
void expect_enumeration(int k, const char* where, bool nonconst_alive) {
  Inst& I = S->inst[k];
  if (!I.obj || (!is_etl(S->subject) && S->subject != S_CETL)) return;
  std::set<const void*> all, alive, expect;
  size_t dup = 0;
  // Known defect (see report): the unclipped for_each_alive overloads
  // (EnumerableThreadLocal non-const; CompactEnumerableThreadLocal both, since
  // its Storage* member is not const-propagated) index the block table with
  // live thread ids beyond this instance's storage size. Default runs avoid
  // that call; --mode 8 makes it and reports class "oob".
  size_t size = S->subject == S_ETL ? ((ETL*)I.obj)->_storage.size() : S->subject == S_ETLL ? ((ETLL*)I.obj)->_storage.size() : ((CETL*)I.obj)->_storage->_storage.size();
  bool beyond = false;
  for (auto& kv : S->live_tid16) if ((size_t)kv.second >= size) beyond = true;
  bool unclipped = nonconst_alive || S->subject == S_CETL;
  bool skip_alive = beyond && unclipped && !S->empty_alive;
  if (skip_alive) probe("for_each_alive_skipped_known_oob");
  auto etl_part = [&](auto* e) {
    typedef std::remove_pointer_t<decltype(e)> E;
    ((const E*)e)->for_each([&](const Cell* b, const Cell* en) { check_range(b, en, "for_each"); for (; b != en; ++b) dup += !all.insert(b).second; });
    if (skip_alive) {}
    else if (nonconst_alive) e->for_each_alive([&](Cell* b, Cell* en) { check_range(b, en, "for_each_alive"); for (; b != en; ++b) dup += !alive.insert(b).second; });
    else ((const E*)e)->for_each_alive([&](const Cell* b, const Cell* en) { check_range(b, en, "for_each_alive"); for (; b != en; ++b) dup += !alive.insert(b).second; });
    for (auto& kv : S->live_tid16) if (const void* a = storage_slot(e->_storage, kv.second)) expect.insert(a);
  };
  if (S->subject == S_ETL) etl_part((ETL*)I.obj);
  else if (S->subject == S_ETLL) etl_part((ETLL*)I.obj);
  else {
    CETL* e = (CETL*)I.obj;
    ((const CETL*)e)->for_each([&](const Cell16& c) { dup += !all.insert(&c).second; });
    if (skip_alive) {}
    else if (nonconst_alive) e->for_each_alive([&](Cell16& c) { dup += !alive.insert(&c).second; });
    else ((const CETL*)e)->for_each_alive([&](const Cell16& c) { dup += !alive.insert(&c).second; });
    for (auto& kv : S->live_tid16) if (const void* a = storage_slot(e->_storage->_storage, kv.second)) expect.insert(&((const CETL::CacheLine*)a)->value[e->_cacheline_offset]);
  }
  if (beyond && unclipped && !skip_alive)
    for (const void* a : alive) if (!expect.count(a)) fail("oob", "for_each_alive", "for_each_alive of instance #%d, whose storage holds %zu slots while a live thread has a larger thread id, passed %p to the callback: not a slot of this instance (block table indexed out of bounds)", k, size, a);
  if (skip_alive) { for (const void* a : I.used) if (!all.count(a)) fail("enumeration", where, "for_each of instance #%d does not visit a slot that a thread obtained from local() earlier", k); return; }
  if (dup) fail("enumeration", where, "for_each/for_each_alive visited a slot twice");
  for (const void* a : I.used) if (!all.count(a)) fail("enumeration", where, "for_each of instance #%d does not visit a slot that a thread obtained from local() earlier", k);
  for (const void* a : alive) if (!expect.count(a)) fail("enumeration", where, "for_each_alive of instance #%d visits a slot (%p) that belongs to no live thread", k, a);
  for (const void* a : expect) if (!alive.count(a)) fail("enumeration", where, "for_each_alive of instance #%d misses the slot of a live thread", k);
  for (auto& kv : I.addr_owner) if (!alive.count(kv.first)) fail("enumeration", where, "for_each_alive of instance #%d misses the local() slot of live thread T%d", k, kv.second);
  if (!expect.empty()) probe("for_each_alive_with_live_threads");
}

// ---------------------------------------------------------------------------
void create(int k) {
  Inst& I = S->inst[k];
  if (I.obj) return;
  switch (S->subject) {
    case S_ADDER: I.obj = new Adder(); break;
    case S_SUMMER: I.obj = new Summer(); break;
    case S_MAXER: I.obj = new Maxer(); break;
    case S_MINER: I.obj = new Miner(); break;
    case S_ETL: I.obj = new ETL(); break;
    case S_ETLL: I.obj = new ETLL(); break;
    default: I.obj = new CETL(); break;
  }
  I.epoch++; I.adds.clear(); I.local_addr.clear(); I.addr_owner.clear(); I.used.clear();
  expect_exact(k, "fresh");  // a new counter reads zero although it may recycle storage
  if (S->subject == S_CETL) probe(((CETL*)I.obj)->_instance_id / CETL::NUM_PER_CACHELINE ? "cetl_second_cacheline" : "cetl_first_cacheline");
}
void destroy(int k) {
  Inst& I = S->inst[k];
  if (!I.obj) return;
  with(S->subject, I.obj, [](auto* o) { delete o; });
  I.obj = nullptr; I.epoch++; I.adds.clear(); I.local_addr.clear(); I.addr_owner.clear(); I.used.clear();
}
void move_inst(int from, int to) {
  if (from == to || !movable(S->subject)) return;
  Inst &A = S->inst[from], &Bv = S->inst[to];
  if (!A.obj) return;
  if (Bv.obj) {  // move-assign, then the source (which now carries the target's old identity) dies
    with(S->subject, A.obj, [&](auto* o) { if constexpr (!std::is_same_v<decltype(o), Summer*> && !std::is_same_v<decltype(o), Maxer*> && !std::is_same_v<decltype(o), Miner*>) *(decltype(o))Bv.obj = std::move(*o); });
    probe("move_assigned");
  } else {
    with(S->subject, A.obj, [&](auto* o) { if constexpr (!std::is_same_v<decltype(o), Summer*> && !std::is_same_v<decltype(o), Maxer*> && !std::is_same_v<decltype(o), Miner*>) Bv.obj = new std::remove_pointer_t<decltype(o)>(std::move(*o)); });
    probe("move_constructed");
  }
  Bv.adds = A.adds; Bv.local_addr = A.local_addr; Bv.addr_owner = A.addr_owner; Bv.used = A.used; Bv.epoch++;
  destroy(from);
  expect_exact(to, "after-move");
}
void reset(int k) {
  Inst& I = S->inst[k];
  if (!I.obj) return;
  if (S->subject == S_ADDER) ((Adder*)I.obj)->reset();
  else if (S->subject == S_MAXER) ((Maxer*)I.obj)->reset();
  else if (S->subject == S_MINER) ((Miner*)I.obj)->reset();
  else return;
  I.adds.clear(); I.epoch++;
  probe("reset");
  expect_exact(k, "after-reset");
}

// ---------------------------------------------------------------------------
// worker side
void note_local(int k, void* addr) {
  Inst& I = S->inst[k];
  int me = tid();
  auto it = I.local_addr.find(me);
  if (it != I.local_addr.end() && it->second != addr) fail("unstable-local", "local", "local() of instance #%d returned %p to T%d, earlier it returned %p", k, addr, me, it->second);
  auto ow = I.addr_owner.find(addr);
  if (ow != I.addr_owner.end() && ow->second != me) fail("shared-local", "local", "local() of instance #%d returned the same slot %p to live threads T%d and T%d", k, addr, ow->second, me);
  if (it == I.local_addr.end()) {
    if (I.used.count(addr)) probe("slot_of_dead_thread_reused");
    // another instance sharing the cache line must never get the same bytes
    for (int j = 0; j < NINST; j++)
      if (j != k && S->inst[j].obj && S->inst[j].used.count(addr)) fail("shared-local", "local", "instances #%d and #%d, both alive, handed out the same slot %p", j, k, addr);
  }
  I.local_addr[me] = addr; I.addr_owner[addr] = me; I.used.insert(addr);
  if (!S->preempt.count(addr)) { S->preempt.insert(addr); preempt_register(addr, slot_size(S->subject)); }
}

// the calling thread now owns a babylon thread id of the subject's tag type
void note_thread_id() {
  int me = tid();
  if ((is_etl(S->subject) || S->subject == S_CETL) && !S->live_tid16.count(me)) {
    int id = S->subject == S_ETL ? (int)babylon::ThreadId::current_thread_id<Cell>().value : S->subject == S_ETLL ? (int)babylon::LeakyThreadId::current_thread_id<Cell>().value : (int)babylon::ThreadId::current_thread_id<CETL::CacheLine>().value;
    for (auto& kv : S->live_tid16) if (kv.second == id) fail("shared-local", "thread-id", "live threads T%d and T%d have the same babylon thread id %d", kv.first, me, id);
    S->live_tid16[me] = id;
  }
}

void worker_count(int k, int64_t v) {
  Inst& I = S->inst[k];
  if (!I.obj) return;
  void* addr = with(S->subject, I.obj, [](auto* o) { return slot_of(o); });
  note_local(k, addr);
  int me = tid();
  note_thread_id();
  std::vector<Rec>& mine = I.adds[me];
  mine.emplace_back();
  size_t idx = mine.size() - 1;
  uint64_t ep = I.epoch;
  mine[idx].v = v; mine[idx].start = stamp();
  with(S->subject, I.obj, [v](auto* o) { do_count(o, v); });
  if (I.epoch != ep) fail("harness", "count", "instance changed during a count");
  Rec& r = I.adds[me][idx];
  r.end = stamp(); r.clk = my_clock(); r.done = true;
}

// A worker creates an instance nobody else knows, counts into it, reads it and
// destroys it, while other threads do the same or count elsewhere: instance
// ids, cache lines and slots are recycled between *concurrently* created and
// destroyed instances. Only this thread touches the instance, so its readings
// are exact.
template <typename C> void churn_one(int64_t v) {
  C* c = new C();
  Reading r0 = do_read((const C*)c);
  bool ext = is_ext(S->subject);
  if (ext ? r0.has : (r0.sum != 0 || r0.num != 0))
    fail("not-zero", "fresh-private", "an instance created on a worker thread (while other threads create and destroy instances of the same type) reports sum %lld count %llu before anything was added", (long long)r0.sum, (unsigned long long)r0.num);
  do_count(c, v);
  Reading r1 = do_read((const C*)c);
  if (ext ? (!r1.has || r1.sum != v) : (r1.sum != v || (has_num(S->subject) && r1.num != 1)))
    fail("lost", "private-instance", "a private instance received exactly one contribution %lld from its only user and reports %s sum %lld count %llu", (long long)v, ext && !r1.has ? "nothing," : "", (long long)r1.sum, (unsigned long long)r1.num);
  delete c;
  note_thread_id();
  probe("private_instance_churned");
}
void worker_churn(int64_t v) {
  if (v <= 0) v = 1;
  switch (S->subject) {
    case S_ADDER: churn_one<Adder>(v); break;
    case S_SUMMER: churn_one<Summer>(v); break;
    case S_MAXER: churn_one<Maxer>(v); break;
    case S_MINER: churn_one<Miner>(v); break;
    case S_ETL: churn_one<ETL>(v); break;
    case S_ETLL: churn_one<ETLL>(v); break;
    default: churn_one<CETL>(v); break;
  }
}

// a concurrent read must equal the aggregate of one prefix per writer thread,
// each prefix between "completed (happened-before) before the read began" and
// "started before the read ended"
void worker_value(int k) {
  Inst& I = S->inst[k];
  if (!I.obj) return;
  if (is_ext(S->subject) && !S->maxer_reader) return;
  bool strict = config().storebuf != 0;
  std::map<int, size_t> kmin;
  for (auto& kv : I.adds) {
    size_t n = 0;
    for (auto& a : kv.second) { if (a.done && (!strict || happened_before_me(kv.first, a.clk))) n++; else break; }
    kmin[kv.first] = n;
  }
  uint64_t ep = I.epoch;
  Reading r = with(S->subject, I.obj, [](auto* o) { return do_read((const std::remove_pointer_t<decltype(o)>*)o); });
  if (I.epoch != ep) return;
  uint64_t re = stamp();
  bool overlapped = false;
  if (is_ext(S->subject)) {
    bool max = S->subject == S_MAXER;
    bool any_lo = false, any_hi = false; int64_t lo = 0, hi = 0; bool member = false;
    for (auto& kv : I.adds) {
      size_t i = 0;
      for (auto& a : kv.second) {
        if (a.start >= re) break;
        if (i < kmin[kv.first]) { if (!any_lo || (max ? a.v > lo : a.v < lo)) lo = a.v; any_lo = true; } else overlapped = true;
        if (!any_hi || (max ? a.v > hi : a.v < hi)) hi = a.v;
        any_hi = true;
        if (r.has && a.v == r.sum) member = true;
        i++;
      }
    }
    if (overlapped) probe("read_overlapped_writer");
    if (!r.has && any_lo) fail("lost", "concurrent-read", "%s #%d reported no value although a value was recorded before the read began", max ? "maxer" : "miner", k);
    if (r.has && (!any_hi || !member || (max ? r.sum > hi : r.sum < hi) || (any_lo && (max ? r.sum < lo : r.sum > lo))))
      fail("stale", "extreme-concurrent-read", "%s #%d concurrently read %lld, which is not an extreme of any prefix of this period's values (completed before: %s%lld, started before the read ended: %s%lld)", max ? "maxer" : "miner", k, (long long)r.sum, any_lo ? "" : "none/", (long long)lo, any_hi ? "" : "none/", (long long)hi);
    return;
  }
  std::set<std::pair<int64_t, uint64_t>> reach{{0, 0}};
  for (auto& kv : I.adds) {
    size_t lo = kmin[kv.first], hi = 0;
    for (auto& a : kv.second) { if (a.start < re) hi++; else break; }
    if (hi < lo) hi = lo;
    if (hi > lo) overlapped = true;
    std::set<std::pair<int64_t, uint64_t>> next;
    int64_t ps = 0;
    for (size_t i = 0; i <= hi; i++) {
      if (i > 0) ps += kv.second[i - 1].v;
      if (i >= lo) for (auto& p : reach) next.insert({p.first + ps, p.second + i});
    }
    reach.swap(next);
    if (reach.size() > 20000) return;
  }
  if (overlapped) probe("read_overlapped_writer");
  bool ok = false;
  for (auto& p : reach) if (p.first == r.sum && (S->subject != S_SUMMER || p.second == r.num)) ok = true;  // CETL's v/w pair is written by the harness in two steps
  if (!ok) {
    int64_t lo = reach.begin()->first, hi = reach.rbegin()->first;
    fail("bounded-read", "concurrent-read", "counter #%d concurrently read sum=%lld num=%llu; no combination of per-thread prefixes (completed before the read began .. started before it ended) gives that, reachable sums span %lld..%lld (%zu combinations)", k, (long long)r.sum, (unsigned long long)r.num, (long long)lo, (long long)hi, reach.size());
  }
}

void worker_exit() {
  int me = tid();
  for (auto& I : S->inst)
    for (auto it = I.addr_owner.begin(); it != I.addr_owner.end();) if (it->second == me) it = I.addr_owner.erase(it); else ++it;
  S->live_tid16.erase(me);
}

int gen_of(const Op& op) { return (int)std::min<int64_t>(std::max<int64_t>(op.c, 0), 7); }
int inst_of(const Op& op) { return (int)(std::max<int64_t>(op.a, 0) % NINST); }

void run(const Plan& p) {
  S = new State();
  S->subject = (int)std::min<int64_t>(std::max<int64_t>(p.get("subject", 0), 0), 6);
  S->maxer_reader = p.get("maxer_reader", 0) != 0;
  S->empty_alive = p.get("empty_alive", 0) != 0;
  S->extreme = p.get("extreme", 0) != 0;
  int ngen = 0;
  for (auto& th : p.threads) for (auto& op : th) ngen = std::max(ngen, gen_of(op) + 1);
  std::vector<std::thread> lingering;
  int mop = 40000;
  for (int g = 0; g < ngen; g++) {
    // main's script for this generation, at quiescence
    if (!p.threads.empty())
      for (auto& op : p.threads[0]) {
        if (gen_of(op) != g) continue;
        OpScope sc(op.id);
        int k = inst_of(op);
        switch (op.kind) {
          case K_CREATE: create(k); break;
          case K_DESTROY: destroy(k); break;
          case K_MOVE: move_inst(k, (int)(std::max<int64_t>(op.b, 0) % NINST)); break;
          case K_RESET: reset(k); break;
          case K_READ: expect_exact(k, "read"); expect_enumeration(k, "read", false); break;
          case K_ALIVE: if (S->empty_alive) expect_enumeration(k, "for_each_alive-nonconst", true); break;
          default: break;
        }
      }
    std::vector<std::thread> now;
    for (size_t t = 1; t < p.threads.size(); t++) {
      bool any = false, linger = false;
      for (auto& op : p.threads[t]) if (gen_of(op) == g) { any = true; if (op.kind == K_LINGER) linger = true; }
      if (!any) continue;
      auto body = [&p, t, g] {
        for (auto& op : p.threads[t]) {
          if (gen_of(op) != g) continue;
          OpScope sc(op.id);
          int k = inst_of(op);
          switch (op.kind) {
            case K_COUNT: {
              int64_t v = op.b;
              if (S->extreme && (S->subject == S_MAXER || S->subject == S_MINER) && op.b % 7 == 0) v = S->subject == S_MAXER ? std::numeric_limits<ssize_t>::min() : std::numeric_limits<ssize_t>::max();
              worker_count(k, v);
              break;
            }
            case K_VALUE: worker_value(k); break;
            case K_CHURN: worker_churn(op.b); break;
            case K_LINGER: {
              std::unique_lock<std::mutex> l(S->m);
              S->cv.wait(l, [g] { return S->release_level >= g; });
              break;
            }
            default: break;
          }
        }
        worker_exit();
      };
      if (linger) lingering.emplace_back(body); else now.emplace_back(body);
    }
    // lingerers of this generation stay blocked; older ones are released now,
    // run their remaining ops concurrently with this generation and are joined
    size_t cnt = 0;
    for (size_t t = 1; t < p.threads.size(); t++) {
      bool linger = false;
      for (auto& op : p.threads[t]) if (gen_of(op) == g && op.kind == K_LINGER) linger = true;
      if (linger) cnt++;
    }
    cnt = std::min(cnt, lingering.size());
    { std::lock_guard<std::mutex> l(S->m); S->release_level = g - 1; }
    S->cv.notify_all();
    for (auto& t : now) t.join();
    if (lingering.size() > cnt) {
      std::vector<std::thread> keep;
      for (size_t i = 0; i + cnt < lingering.size(); i++) { lingering[i].join(); probe("lingering_thread_overlapped_generation"); }
      for (size_t i = lingering.size() - cnt; i < lingering.size(); i++) keep.push_back(std::move(lingering[i]));
      lingering.swap(keep);
    }
    // all runnable writers joined (lingerers are blocked and idle): exact
    wait_quiescent();
    for (int k = 0; k < NINST; k++) {
      OpScope sc(mop++);
      expect_exact(k, "generation-end");
      expect_enumeration(k, "generation-end", false);
    }
  }
  { std::lock_guard<std::mutex> l(S->m); S->release_level = 100; }
  S->cv.notify_all();
  for (auto& t : lingering) t.join();
  for (int k = 0; k < NINST; k++) {
    OpScope sc(mop++);
    expect_exact(k, "end");
    expect_enumeration(k, "end", false);
    destroy(k);
  }
  for (const void* a : S->preempt) preempt_unregister(a);
}

void gen(Rng& r, Plan& p, const GenParams& gp) {
  gen_common(r, p, SB_HALF, false, 1500);
  int subject = gp.mode >= 0 && gp.mode <= 6 ? gp.mode : (int)r.below(7);
  if (gp.mode == 7 || gp.mode == 9) subject = r.chance(1, 2) ? S_MAXER : S_MINER;
  if (gp.mode == 8) subject = r.chance(1, 3) ? S_ETL : r.chance(1, 2) ? S_ETLL : S_CETL;
  p.cfg["subject"] = subject;
  p.cfg["maxer_reader"] = gp.mode == 7;
  p.cfg["empty_alive"] = gp.mode == 8;
  p.cfg["extreme"] = gp.mode == 9;
  int opid = 0;
  auto add = [&](size_t t, int kind, int64_t a, int64_t b, int64_t c) {
    if (p.threads.size() <= t) p.threads.resize(t + 1);
    Op o; o.kind = kind; o.a = a; o.b = b; o.c = c; o.id = opid++;
    p.threads[t].push_back(o);
  };
  p.threads.resize(1);
  bool live[NINST] = {false};
  int ngen = (int)r.range(2, gp.thorough ? 5 : 4);
  int ninst = (int)r.range(2, NINST);
  auto pick_live = [&]() -> int { int c[NINST], n = 0; for (int i = 0; i < ninst; i++) if (live[i]) c[n++] = i; return n ? c[r.below((uint64_t)n)] : -1; };
  auto pick_dead = [&]() -> int { int c[NINST], n = 0; for (int i = 0; i < ninst; i++) if (!live[i]) c[n++] = i; return n ? c[r.below((uint64_t)n)] : -1; };
  size_t next_thread = 1;
  bool prev_linger = false;
  if (subject == S_CETL) {  // 4 instances share a cache line: often keep more than 4 alive
    ninst = NINST;
    if (r.chance(1, 2)) { int n = (int)r.range(4, NINST); for (int i = 0; i < n; i++) { add(0, K_CREATE, i, 0, 0); live[i] = true; } }
  }
  for (int g = 0; g < ngen; g++) {
    // main: churn instances
    int nmain = (int)r.range(g == 0 ? 1 : 0, 4);
    if (subject == S_CETL && r.chance(1, 3)) nmain += 3;  // fill the first cache line (4 per line)
    for (int i = 0; i < nmain; i++) {
      int x = (int)r.below(10);
      int lv = pick_live(), dd = pick_dead();
      if ((x < 4 || lv < 0) && dd >= 0) { add(0, K_CREATE, dd, 0, g); live[dd] = true; }
      else if (x < 6 && lv >= 0) { add(0, K_DESTROY, lv, 0, g); live[lv] = false; }
      else if (x < 8 && lv >= 0 && movable(subject)) { int to = (int)r.below((uint64_t)ninst); add(0, K_MOVE, lv, to, g); if (to != lv) { live[to] = true; live[lv] = false; } }
      else if (x < 9 && lv >= 0) add(0, K_RESET, lv, 0, g);
      else if (lv >= 0) add(0, K_READ, lv, 0, g);
    }
    if (pick_live() < 0) { int dd = pick_dead(); add(0, K_CREATE, dd, 0, g); live[dd] = true; }
    if (gp.mode == 8 && prev_linger) { int dd = pick_dead(); if (dd >= 0) { add(0, K_CREATE, dd, 0, g); live[dd] = true; add(0, K_ALIVE, dd, 0, g); } }
    // workers
    int nw = (int)r.range(1, 3);
    bool reader = r.chance(1, 2) || gp.mode == 7;
    bool any_linger = false;
    bool churn = gp.mode < 7 && r.chance(1, 3);  // workers also create/destroy private instances
    for (int w = 0; w < nw; w++) {
      size_t t = next_thread++;
      int n = (int)r.range(1, gp.thorough ? 8 : 5);
      bool linger = g + 1 < ngen && r.chance(1, 3);
      int linger_at = linger ? (int)r.range(1, n) : -1;
      for (int i = 0; i < n; i++) {
        int k = pick_live();
        int64_t v = is_ext(subject) ? (int64_t)r.range(-50, 50) : (r.chance(1, 4) ? -(int64_t)r.range(1, 9) : (int64_t)r.range(0, 20));
        if (churn && r.chance(1, 3)) add(t, K_CHURN, 0, (int64_t)r.range(1, 100), g);
        else add(t, K_COUNT, k, v, g);
        if (i + 1 == linger_at) { add(t, K_LINGER, 0, 0, g); any_linger = true; }
      }
    }
    if (reader) {
      size_t t = next_thread++;
      int n = (int)r.range(1, 3);
      for (int i = 0; i < n; i++) add(t, K_VALUE, pick_live(), 0, g);
    }
    prev_linger = any_linger;
  }
}

const char* const kShrink[] = {nullptr};

}  // namespace

const Harness sim::g_harness = {"counter", kNames, gen, run, kShrink, 0};
