// Harness "cvector": ConcurrentVector — C04.
// DESIGN.md §3 C04.
//
// One run = one ConcurrentVector<Elem, B> (B in {0 dynamic, 1, 2, 4}) used by
// 2..4 plan threads in 1..3 rounds. Inside a round the threads run their
// operations concurrently and virtual time only creeps (50 ns per step);
// between rounds all workers are joined and the main thread jumps the clock
// by 0..200 s. The initial clock sits near a 64 s unit boundary or near the
// 16-bit wrap of the retire timestamp. At the end the vector is destroyed.
//
// Two more modes, NOT part of the default mix (whether what they show is a
// violation of C04 is decided from concrete replays, DESIGN.md §3 C04 note):
// mode 2 ("stalled retirer"): one thread jumps the clock by more than a unit
//   exactly while another thread is between its successful table CAS and the
//   publication of its retire node, and while nobody else is inside a vector
//   operation; a third thread grows and calls gc() afterwards.
// mode 3 ("stalled anywhere"): clock jumps are ordinary operations of the
//   worker threads, so any thread can be stalled anywhere inside any operation
//   (includes readers that sit on a table pointer for longer than 64 s).
#include <babylon/concurrent/vector.h>

#include <stdlib.h>

#include <algorithm>
#include <atomic>
#include <condition_variable>
#include <mutex>
#include <string>
#include <unordered_map>
#include <vector>

#include "common.h"

using namespace sim;

namespace {

// harness bookkeeping must not live on the simulated heap (clause 4 counts
// live blocks of that heap)
template <typename T>
struct Mal {
  typedef T value_type;
  Mal() {}
  template <typename U> Mal(const Mal<U>&) {}
  T* allocate(size_t n) { return (T*)::malloc(n * sizeof(T)); }
  void deallocate(T* p, size_t) { ::free(p); }
  template <typename U> bool operator==(const Mal<U>&) const { return true; }
  template <typename U> bool operator!=(const Mal<U>&) const { return false; }
};
template <typename T> using MVec = std::vector<T, Mal<T>>;
template <typename K, typename V> using MMap = std::unordered_map<K, V, std::hash<K>, std::equal_to<K>, Mal<std::pair<const K, V>>>;

constexpr int64_t SEC = 1000000000LL;
constexpr int64_t COOL = 64 * SEC;
constexpr int64_t MARGIN = 1000000;  // a kept snapshot is only used if at least 1 ms of its guarantee is left
int64_t g_margin = MARGIN;            // 10 s in plans with small clock jumps inside operations (each <= 3 s)
constexpr size_t MAXI = 512;
constexpr uint64_t MAGIC = 0xE1E2E3E4C0FFEE00ULL, DEAD = 0xDEADDEADDEADDEADULL, VALUE_OBJ = 0x7A1E0B1EC7000000ULL;
inline uint64_t magic_of(const void* p) { return MAGIC ^ ((uint64_t)(uintptr_t)p * 0x9E3779B97F4A7C15ULL); }

struct ValueTag {};
struct Elem {
  uint64_t magic;
  std::atomic<uint64_t> val;
  Elem();
  ~Elem();
  Elem(ValueTag, uint64_t v) : magic(VALUE_OBJ), val(v) {}  // harness-side value object (fill_n argument), not an element
  Elem(const Elem&) = delete;
  Elem& operator=(const Elem& o);
  Elem& operator=(uint64_t v);
};

enum Kind { K_ENSURE, K_RESERVE, K_INDEX, K_SNAPSHOT, K_RSNAPSHOT, K_SNAP_USE, K_FILL_N, K_COPY_N, K_FOR_EACH, K_CFOR_EACH, K_GC, K_SIZE, K_RECHECK, K_JUMP, K_WAIT_JUMP };
const char* const kNames[] = {"ensure", "reserve", "index", "snapshot", "reserved_snapshot", "snapshot_use", "fill_n", "copy_n", "for_each", "const_for_each", "gc", "size", "recheck", "clock_jump", "wait_jump", nullptr};

struct ElemInfo { uint8_t state = 0; long index = -1; uint32_t observed = 0; int ctor_tid = -1; };
struct TabInfo { int64_t published = -1, superseded = -1, freed = -1; };
struct Range { uintptr_t lo, hi; };
struct KeptPtr { size_t idx; Elem* p; };

struct PerThread {
  size_t known_size = 0;
  MVec<KeptPtr> ptrs;
};

struct State {
  size_t bs = 1;
  bool destroying = false;
  MMap<uintptr_t, ElemInfo> ledger;
  MMap<uintptr_t, TabInfo> tables;
  MVec<Range> ranges;  // element storage handed to the HB detector
  Elem* addr_of[MAXI];
  size_t max_size = 0, max_size_at_round_start = 0;
  uint64_t ctor_count = 0, dtor_count = 0;
  PerThread pt[8];
  uint64_t seq = 0;
  MVec<Elem*>* touch[64];  // per simulated thread: operator= recorder armed
  // mode 2 choreography
  int window_tid = -1;       // simulated thread that won the table CAS and has not yet published its retire node
  bool jumped = false;
  bool in_vec_op[8];         // plan thread is inside a vector operation
  int tid_of_pt[8];          // simulated thread id of a plan thread
};
State* S;

Elem::Elem() : val(0) {
  State& s = *S;
  uintptr_t a = (uintptr_t)this;
  ElemInfo& info = s.ledger[a];
  if (info.state == 1) fail("double-construct", "element-ctor", "element at %#lx constructed twice (second time by T%d)", (unsigned long)a, sim::tid());
  if (info.state == 2) fail("double-construct", "element-ctor", "element at %#lx constructed again after it was destroyed", (unsigned long)a);
  // storage of a new block: hand it to the happens-before detector (a thread
  // constructs the elements of one block in address order)
  bool covered = false;
  for (auto& r : s.ranges) if (a >= r.lo && a < r.hi) { covered = true; break; }
  if (!covered) {
    s.ranges.push_back(Range{a, a + s.bs * sizeof(Elem)});
    hb_register(this, s.bs * sizeof(Elem), "cvector-element");
  }
  info.state = 1; info.ctor_tid = sim::tid();
  s.ctor_count++;
  magic = magic_of(this);
}

Elem::~Elem() {
  if (magic == VALUE_OBJ) return;
  State& s = *S;
  uintptr_t a = (uintptr_t)this;
  auto it = s.ledger.find(a);
  if (it == s.ledger.end() || it->second.state == 0) fail("destroy-unconstructed", "element-dtor", "destructor run on %#lx which was never constructed", (unsigned long)a);
  if (it->second.state == 2) fail("double-destroy", "element-dtor", "element at %#lx (index %ld) destroyed twice", (unsigned long)a, it->second.index);
  if (!s.destroying) {
    if (it->second.observed) fail("destroyed-live", "element-dtor", "element at %#lx (index %ld) destroyed by T%d while the vector is alive and threads hold references to it", (unsigned long)a, it->second.index, sim::tid());
    if (it->second.ctor_tid != sim::tid()) fail("destroyed-live", "element-dtor", "speculative element at %#lx built by T%d destroyed by T%d", (unsigned long)a, it->second.ctor_tid, sim::tid());
    probe("speculative_element_discarded");
  }
  if (magic != magic_of(this)) fail("corrupt", "element-dtor", "element at %#lx has a damaged header at destruction", (unsigned long)a);
  it->second.state = 2;
  s.dtor_count++;
  magic = DEAD;
  for (size_t i = 0; i < s.ranges.size(); i++)
    if (a + sizeof(Elem) == s.ranges[i].hi) { hb_unregister((void*)s.ranges[i].lo); s.ranges.erase(s.ranges.begin() + (long)i); break; }
}

Elem& Elem::operator=(const Elem& o) {
  val.store(o.val.load(std::memory_order_relaxed), std::memory_order_relaxed);
  if (auto* t = S->touch[sim::tid() & 63]) t->push_back(this);
  return *this;
}
Elem& Elem::operator=(uint64_t v) {
  val.store(v, std::memory_order_relaxed);
  if (auto* t = S->touch[sim::tid() & 63]) t->push_back(this);
  return *this;
}

// ---- oracle clause 1 + 2: every address a thread obtains from the API ------
void note_obtained(int pt, size_t idx, Elem* p, const char* api) {
  State& s = *S;
  if (idx >= MAXI) skip("index-beyond-harness-bound");
  if (!heap_is_live(p)) fail("dangling", api, "%s handed out %p for index %zu, which is %s", api, (void*)p, idx, heap_is_freed(p) ? "freed memory" : "not inside any live heap block");
  auto it = s.ledger.find((uintptr_t)p);
  if (it == s.ledger.end() || it->second.state == 0) fail("unconstructed", api, "%s handed out %p for index %zu before the element was constructed", api, (void*)p, idx);
  if (it->second.state == 2) fail("destroyed", api, "%s handed out %p for index %zu, an element that was already destroyed", api, (void*)p, idx);
  if (s.addr_of[idx] && s.addr_of[idx] != p) fail("moved", api, "index %zu designated %p before, %s now says %p", idx, (void*)s.addr_of[idx], api, (void*)p);
  if (it->second.index >= 0 && (size_t)it->second.index != idx) fail("alias", api, "address %p designates index %ld and index %zu", (void*)p, it->second.index, idx);
  s.addr_of[idx] = p;
  it->second.index = (long)idx;
  it->second.observed |= 1u << (pt & 31);
  // plain read by the obtaining thread: use-after-free and publication (HB) checks happen here
  if (p->magic != magic_of(p)) fail("unconstructed", api, "element %p (index %zu) obtained through %s has no valid header (%#llx)", (void*)p, idx, api, (unsigned long long)p->magic);
  PerThread& me = s.pt[pt & 7];
  if (me.ptrs.size() < 24) {
    bool have = false;
    for (auto& k : me.ptrs) if (k.idx == idx) { have = true; break; }
    if (!have) me.ptrs.push_back(KeptPtr{idx, p});
  }
}

// ---- oracle clause 3: cooling period ---------------------------------------
void on_table_change(void*, const void*, uint64_t oldv, uint64_t newv) {
  State& s = *S;
  int64_t now = now_ns();
  if (heap_owns((void*)newv)) s.tables[(uintptr_t)newv].published = now;
  if (heap_owns((void*)oldv)) {
    TabInfo& o = s.tables[(uintptr_t)oldv];
    if (o.superseded >= 0) fail("api", "block-table", "block table %#llx superseded twice", (unsigned long long)oldv);
    o.superseded = now;
  }
  s.window_tid = sim::tid();
  tracef("block table %#llx superseded by %#llx (%zu blocks)", (unsigned long long)oldv, (unsigned long long)newv, *(size_t*)newv);
  probe("table_superseded");
}
void on_head_change(void*, const void*, uint64_t oldv, uint64_t newv) {
  tracef("retire list head %#llx -> %#llx", (unsigned long long)oldv, (unsigned long long)newv);
  if (S->window_tid == sim::tid()) S->window_tid = -1;
}
void on_free(void*, void* p, size_t) {
  State& s = *S;
  auto it = s.tables.find((uintptr_t)p);
  if (it == s.tables.end()) return;
  TabInfo& t = it->second;
  int64_t now = now_ns();
  t.freed = now;
  tracef("block table %p freed, superseded %lld ns ago", p, (long long)(t.superseded < 0 ? -1 : now - t.superseded));
  if (s.destroying) return;
  if (t.superseded < 0) fail("early-reclaim", "current-table", "the current block table %p was freed by T%d while the vector is alive", p, sim::tid());
  int64_t d = now - t.superseded;
  if (d < COOL) fail("early-reclaim", "cooling", "block table %p freed by T%d %lld.%09lld s after the growth that superseded it (cooling period is 64 s)", p, sim::tid(), (long long)(d / SEC), (long long)(d % SEC));
  probe("table_freed_after_cooling");
}
// may a kept snapshot of this table still be used?
bool guaranteed(const void* table) {
  if (!heap_owns(table)) return true;  // static empty table
  auto it = S->tables.find((uintptr_t)table);
  if (it == S->tables.end()) return true;
  if (it->second.superseded < 0) return true;
  return now_ns() + g_margin < it->second.superseded + COOL;
}
bool superseded(const void* table) {
  auto it = S->tables.find((uintptr_t)table);
  return it != S->tables.end() && it->second.superseded >= 0;
}

template <size_t B>
struct Runner {
  typedef babylon::ConcurrentVector<Elem, B> Vec;
  typedef typename Vec::Snapshot Snap;
  struct Kept { Snap snap; const void* table; size_t size; };
  Vec* v = nullptr;
  MVec<Kept> kept[8];

  size_t bs() const { return S->bs; }

  void saw_size(int pt, size_t n) {
    PerThread& me = S->pt[pt & 7];
    if (n % bs() != 0) fail("api", "size", "accessible size %zu is not a multiple of the block size %zu", n, bs());
    if (n > me.known_size) me.known_size = n;
    if (n > S->max_size) S->max_size = n;
  }
  void keep(int pt, const Snap& s, const char* api) {
    size_t n = s.size();
    saw_size(pt, n);
    if (kept[pt & 7].size() < 8) kept[pt & 7].push_back(Kept{s, (const void*)s._block_table, n});
    (void)api;
  }

  void op(int pt, const Op& o) {
    if (o.kind == K_JUMP || o.kind == K_WAIT_JUMP) { op2(pt, o); return; }
    S->in_vec_op[pt & 7] = true;
    op2(pt, o);
    S->in_vec_op[pt & 7] = false;
  }
  void op2(int pt, const Op& o) {
    Vec& vec = *v;
    const Vec& cvec = *v;
    PerThread& me = S->pt[pt & 7];
    size_t a = (size_t)std::max<int64_t>(0, std::min<int64_t>(o.a, 200));
    size_t b = (size_t)std::max<int64_t>(0, std::min<int64_t>(o.b, 200));
    switch (o.kind) {
      case K_ENSURE: {
        Elem& e = vec.ensure(a);
        note_obtained(pt, a, &e, "ensure");
        saw_size(pt, (a / bs() + 1) * bs());
        break;
      }
      case K_RESERVE: {
        vec.reserve(a);
        saw_size(pt, (a + bs() - 1) / bs() * bs());
        if (a > 0) {
          size_t s = vec.size();
          if (s < a) fail("api", "reserve", "size() is %zu right after reserve(%zu) returned in the same thread", s, a);
          saw_size(pt, s);
        }
        break;
      }
      case K_INDEX: {
        if (me.known_size == 0) break;
        size_t i = a % me.known_size;
        Elem* p = (o.b & 1) ? const_cast<Elem*>(&cvec[i]) : &vec[i];
        note_obtained(pt, i, p, "operator[]");
        break;
      }
      case K_SNAPSHOT: {
        Snap s = vec.snapshot();
        size_t n = s.size();
        if (n < me.known_size) fail("api", "snapshot", "snapshot() covers %zu elements although this thread already had %zu accessible", n, me.known_size);
        keep(pt, s, "snapshot");
        if (n > 0) { size_t i = a % n; note_obtained(pt, i, &s[i], "snapshot[]"); }
        break;
      }
      case K_RSNAPSHOT: {
        Snap s = vec.reserved_snapshot(a);
        size_t n = s.size();
        if (n < a) fail("api", "reserved_snapshot", "reserved_snapshot(%zu) covers only %zu elements", a, n);
        keep(pt, s, "reserved_snapshot");
        if (a > 0) note_obtained(pt, a - 1, &s[a - 1], "reserved_snapshot[]");
        break;
      }
      case K_SNAP_USE: {
        auto& ks = kept[pt & 7];
        if (ks.empty()) break;
        Kept& k = ks[a % ks.size()];
        if (!guaranteed(k.table)) { probe("kept_snapshot_guarantee_expired_not_used"); break; }
        if (superseded(k.table)) probe("kept_snapshot_used_after_supersession");
        size_t n = k.snap.size();  // reads the (possibly retired) table
        if (n != k.size) fail("snapshot-changed", "snapshot_use", "kept snapshot covered %zu elements when taken, now %zu", k.size, n);
        if (n == 0) break;
        size_t i = b % n;
        if ((o.a + o.b) % 3 == 0) {
          size_t e = std::min(n, i + 3), idx = i;
          k.snap.for_each(i, e, [&](Elem* sb, Elem* se) { for (; sb != se; ++sb) note_obtained(pt, idx++, sb, "kept-snapshot.for_each"); });
          if (idx != e) fail("api", "snapshot.for_each", "for_each(%zu,%zu) on a snapshot visited %zu elements", i, e, idx - i);
        } else {
          note_obtained(pt, i, &k.snap[i], "kept-snapshot[]");
        }
        break;
      }
      case K_FILL_N:
      case K_COPY_N: {
        size_t n = std::min<size_t>(b, 8);
        MVec<Elem*> touched;
        uint64_t val = ((uint64_t)(pt + 1) << 32) | ++S->seq;
        S->touch[sim::tid() & 63] = &touched;
        if (o.kind == K_FILL_N) {
          Elem value(ValueTag{}, val);
          vec.fill_n(a, n, value);
        } else {
          uint64_t src[8];
          for (size_t i = 0; i < 8; i++) src[i] = val + (i << 48);
          vec.copy_n((const uint64_t*)src, n, a);
        }
        S->touch[sim::tid() & 63] = nullptr;
        const char* api = o.kind == K_FILL_N ? "fill_n" : "copy_n";
        if (touched.size() != n) fail("api", api, "%s(offset %zu, %zu) assigned %zu elements", api, a, n, touched.size());
        for (size_t i = 0; i < n; i++) note_obtained(pt, a + i, touched[i], api);
        saw_size(pt, (a + n + bs() - 1) / bs() * bs());
        break;
      }
      case K_FOR_EACH: {
        size_t n = std::min<size_t>(b, 8), e = a + n, idx = a;
        vec.for_each(a, e, [&](Elem* sb, Elem* se) {
          if (!(sb < se)) fail("api", "for_each", "for_each callback invoked with an empty or reversed segment");
          if (idx % bs() + (size_t)(se - sb) > bs()) fail("api", "for_each", "for_each segment of %zu elements starting at index %zu crosses a block boundary", (size_t)(se - sb), idx);
          for (; sb != se; ++sb) note_obtained(pt, idx++, sb, "for_each");
        });
        if (idx != e) fail("api", "for_each", "for_each(%zu,%zu) visited %zu elements", a, e, idx - a);
        saw_size(pt, (e + bs() - 1) / bs() * bs());
        break;
      }
      case K_CFOR_EACH: {
        if (me.known_size == 0) break;
        size_t bgn = a % me.known_size, e = std::min(me.known_size, bgn + std::min<size_t>(b, 8)), idx = bgn;
        cvec.for_each(bgn, e, [&](const Elem* sb, const Elem* se) {
          for (; sb != se; ++sb) note_obtained(pt, idx++, const_cast<Elem*>(sb), "for_each const");
        });
        if (idx != e) fail("api", "for_each const", "for_each(%zu,%zu) const visited %zu elements", bgn, e, idx - bgn);
        break;
      }
      case K_GC:
        vec.gc();
        break;
      case K_SIZE: {
        size_t s = vec.size();
        if (s < me.known_size) fail("api", "size", "size() returned %zu although this thread already had %zu elements accessible", s, me.known_size);
        saw_size(pt, s);
        break;
      }
      case K_RECHECK: {
        for (auto& k : me.ptrs) {
          if (!heap_is_live(k.p)) fail("dangling", "kept-reference", "reference to index %zu (%p) obtained earlier by this thread now points into %s", k.idx, (void*)k.p, heap_is_freed(k.p) ? "freed memory" : "no live block");
          if (k.p->magic != magic_of(k.p)) fail("destroyed", "kept-reference", "element %p (index %zu) referenced by this thread lost its header (%#llx)", (void*)k.p, k.idx, (unsigned long long)k.p->magic);
          if (S->addr_of[k.idx] != k.p) fail("moved", "kept-reference", "index %zu moved from %p to %p", k.idx, (void*)k.p, (void*)S->addr_of[k.idx]);
        }
        probe("kept_references_rechecked", me.ptrs.size() ? 1 : 0);
        break;
      }
      case K_JUMP: {
        // only generated in modes 2 and 3
        int64_t ns = (int64_t)std::max<int64_t>(0, std::min<int64_t>(o.a, 400)) * SEC;
        if (o.b == 2) {
          // default mix: a short preemption of everybody (0.1 - 3 s) wherever the
          // threads happen to be; far below the cooling period, so every
          // guarantee still applies, but unit boundaries are crossed mid-operation
          sim::clock_jump((int64_t)std::max<int64_t>(1, std::min<int64_t>(o.a, 3000)) * 1000000);
          probe("small_clock_jump_inside_operation");
          break;
        }
        if (o.b == 0) {  // mode 3: wherever the other threads happen to be
          sim::clock_jump(ns);
          probe("clock_jump_inside_round");
          break;
        }
        // mode 2: only while another thread is between its table CAS and the
        // publication of its retire node and nobody else is inside an operation
        for (int i = 0; i < 600; i++) {
          if (S->window_tid >= 0) {
            bool others_out = true;
            for (int q = 1; q < 8; q++)
              if (q != (pt & 7) && S->in_vec_op[q] && S->tid_of_pt[q] != S->window_tid) others_out = false;
            if (others_out) { sim::clock_jump(ns); probe("clock_jump_inside_retire_window"); break; }
          }
          sched_yield();
        }
        S->jumped = true;
        break;
      }
      case K_WAIT_JUMP:
        while (!S->jumped) sim::sleep_ns(1000);
        break;
    }
  }

  void run(const Plan& p) {
    State& s = *S;
    int rounds = (int)std::max<int64_t>(1, std::min<int64_t>(p.get("rounds", 1), 3));
    size_t hint = (size_t)std::max<int64_t>(1, std::min<int64_t>(p.get("hint", 1), 8));
    s.bs = B;
    if (B == 0) { s.bs = 1; while (s.bs < hint) s.bs <<= 1; }
    // Absolute clock position. With one run per process (Harness.chunk = 1) the
    // simulator starts the run exactly at cfg t0. If runs share a process
    // (--chunk N) the clock cannot go back; everything the vector can observe
    // (deltas, position inside the 64 s unit, the 16-bit timestamp) is
    // periodic in 65536 units, so move forward to t0 plus whole periods.
    {
      const int64_t WRAP = 65536 * COOL;
      int64_t now = now_ns(), target = p.get("t0", now);
      while (target < now) target += WRAP;
      if (target != now) sim::clock_jump(target - now);
    }
    const int64_t start_ns = now_ns();
    uint64_t base_blocks = heap_live_blocks(), base_bytes = heap_live_bytes();
    heap_on_free(on_free, nullptr);
    bool ctor_cb = p.get("ctor_cb", 0) != 0;
    auto cb = [](Elem* e) { new (e) Elem(); };
    if (B == 0) v = ctor_cb ? new Vec(hint, cb) : new Vec(hint);
    else v = ctor_cb ? new Vec(cb) : new Vec();
    if (v->block_size() != s.bs) fail("api", "block_size", "block_size() is %zu, expected %zu", v->block_size(), s.bs);
    sim::drain();
    sim::watch(&v->_block_table, sizeof(void*), on_table_change, nullptr);
    sim::watch(&v->_retire_list._head, sizeof(uint64_t), on_head_change, nullptr);
    // The plan threads live for the whole run; rounds are separated by a
    // mutex/condvar barrier (a real synchronisation, as a client would use).
    // Between rounds nobody is inside an operation and main jumps the clock.
    std::mutex mu;
    std::condition_variable cv;
    int open_round = 0, arrived = 0, nworkers = 0;
    std::vector<std::thread> th;
    const Plan* pp = &p;
    for (size_t t = 1; t < p.threads.size() && t < 8; t++) {
      if (p.threads[t].empty()) continue;
      nworkers++;
      th.emplace_back([this, pp, t, rounds, &mu, &cv, &open_round, &arrived]() {
        S->tid_of_pt[t & 7] = sim::tid();
        for (int r = 0; r < rounds; r++) {
          { std::unique_lock<std::mutex> l(mu); cv.wait(l, [&] { return open_round > r; }); }
          S->pt[t & 7].known_size = std::max(S->pt[t & 7].known_size, S->max_size_at_round_start);
          for (auto& o : pp->threads[t]) {
            if ((int)o.c != r) continue;
            OpScope scope(o.id);
            op((int)t, o);
          }
          { std::lock_guard<std::mutex> l(mu); arrived++; }
          cv.notify_all();
        }
      });
    }
    for (int r = 0; r < rounds; r++) {
      if (r > 0) {
        char key[16]; snprintf(key, sizeof key, "jump%d", r);
        int64_t j = std::max<int64_t>(0, std::min<int64_t>(p.get(key, 0), 400));
        // every worker waits at the barrier: nobody is inside an operation
        sim::clock_jump(j * SEC);
        if (j >= 64) probe("jump_ge_one_unit_between_rounds");
      }
      s.max_size_at_round_start = s.max_size;  // the barrier orders everything of earlier rounds before
      { std::lock_guard<std::mutex> l(mu); open_round = r + 1; }
      cv.notify_all();
      { std::unique_lock<std::mutex> l(mu); cv.wait(l, [&] { return arrived >= nworkers * (r + 1); }); }
      if (r > 0) probe("round_after_jump_completed");
    }
    for (auto& t : th) t.join();
    th.clear(); th.shrink_to_fit();
    int64_t unit0 = start_ns / COOL, unit1 = now_ns() / COOL;
    if (unit1 != unit0) probe("unit_boundary_crossed_during_run");
    if ((unit0 & 0xffff) > (unit1 & 0xffff)) probe("timestamp_wrapped_during_run");
    // sequential epilogue by the main thread
    int mop = 100000;
    {
      OpScope sc(mop++);
      size_t n = v->size();
      if (n < s.max_size) fail("api", "size", "size() is %zu after the workers made %zu elements accessible", n, s.max_size);
      if (n > MAXI) skip("index-beyond-harness-bound");
      for (size_t i = 0; i < n; i++) note_obtained(0, i, &(*v)[i], "operator[]");
      for (size_t i = 0; i < MAXI; i++)
        if (s.addr_of[i] && i >= n) fail("api", "size", "index %zu was handed out but size() is %zu", i, n);
      // values: plain sequential semantics of fill_n / copy_n
      if (n > 0) {
        Elem value(ValueTag{}, 0xABCD0001);
        v->fill_n(0, n, value);
        for (size_t i = 0; i < n; i++)
          if ((*v)[i].val.load(std::memory_order_relaxed) != 0xABCD0001) fail("value", "fill_n", "element %zu does not hold the value written by fill_n(0,%zu)", i, n);
        std::vector<uint64_t> src(n);
        for (size_t i = 0; i < n; i++) src[i] = 0x5000 + i;
        v->copy_n(src.begin(), n, 0);
        for (size_t i = 0; i < n; i++)
          if (s.addr_of[i]->val.load(std::memory_order_relaxed) != 0x5000 + i) fail("value", "copy_n", "element %zu does not hold the value written by copy_n", i);
      }
      // every reference any thread ever obtained is still good
      for (auto& t : s.pt)
        for (auto& k : t.ptrs) {
          if (!heap_is_live(k.p)) fail("dangling", "kept-reference", "reference to index %zu (%p) is dead before the vector is destroyed", k.idx, (void*)k.p);
          if (k.p->magic != magic_of(k.p)) fail("destroyed", "kept-reference", "element %p (index %zu) lost its header before the vector is destroyed", (void*)k.p, k.idx);
        }
    }
    // destruction
    uint64_t live_elems = s.ctor_count - s.dtor_count;
    size_t n_final = v->size();
    if (live_elems != n_final) fail("leak", "element-ledger", "%llu elements are constructed and not destroyed, the vector holds %zu", (unsigned long long)live_elems, n_final);
    for (auto& k : kept) k.clear();
    s.destroying = true;
    delete v;
    v = nullptr;
    for (auto& kv : s.ledger)
      if (kv.second.state == 1) fail("leak", "element-ledger", "element at %#lx (index %ld) was never destroyed", (unsigned long)kv.first, kv.second.index);
    if (s.ctor_count != s.dtor_count) fail("leak", "element-ledger", "%llu constructions, %llu destructions", (unsigned long long)s.ctor_count, (unsigned long long)s.dtor_count);
    for (size_t i = 0; i < MAXI; i++)
      if (s.addr_of[i] && !heap_is_freed(s.addr_of[i])) fail("leak", "block", "storage of index %zu still allocated after the vector was destroyed", i);
    for (auto& kv : s.tables)
      if (kv.second.freed < 0) fail("leak", "block-table", "block table %#lx (superseded at %lld) still allocated after the vector was destroyed", (unsigned long)kv.first, (long long)kv.second.superseded);
    if (heap_live_blocks() != base_blocks)
      fail("leak", "heap-balance", "%lld heap blocks (%lld bytes) more are live after destruction than before construction", (long long)(heap_live_blocks() - base_blocks), (long long)(heap_live_bytes() - base_bytes));
    heap_on_free(nullptr, nullptr);
  }
};

void gen(Rng& r, Plan& p, const GenParams& gp) {
  bool stalled = gp.mode == 3, directed = gp.mode == 2;
  gen_common(r, p, SB_HALF, false, 800);
  if (directed) p.cfg["policy"] = r.chance(2, 3) ? 0 : 1;  // the jumper polls with sched_yield: no PCT/starve
  static const int64_t bss[] = {0, 0, 1, 2, 4};
  int64_t B = bss[r.below(5)];
  static const int64_t hints[] = {1, 2, 4, 7};
  int64_t hint = hints[r.below(4)];
  p.cfg["bs_static"] = B;
  p.cfg["hint"] = hint;
  p.cfg["ctor_cb"] = r.chance(1, 4);
  size_t bs = (size_t)B;
  if (B == 0) { bs = 1; while (bs < (size_t)hint) bs <<= 1; }
  int rounds = (stalled || directed) ? 1 : (int)r.range(1, 3);
  if (!stalled && !directed && r.chance(1, 2)) rounds = 3;
  p.cfg["rounds"] = rounds;
  static const int64_t js[] = {0, 1, 30, 63, 64, 65, 100, 127, 128, 129, 130, 200};
  for (int i = 1; i < 3; i++) {
    char key[16]; snprintf(key, sizeof key, "jump%d", i);
    p.cfg[key] = r.chance(1, 3) ? (int64_t)r.range(0, 200) : js[r.below(12)];
  }
  // initial clock
  int64_t t0;
  const int64_t WRAP = 65536 * COOL;
  switch (r.below(5)) {
    case 0: {  // just below a unit boundary
      static const int64_t d[] = {20000, 1000000, SEC, 5 * SEC, 40 * SEC};
      t0 = (int64_t)r.range(3, 5000) * COOL - d[r.below(5)];
      break;
    }
    case 1: {  // below the 16-bit wrap of the timestamp
      static const int64_t d[] = {10000, SEC, 30 * SEC, 65 * SEC, 100 * SEC, 133 * SEC, 190 * SEC};
      t0 = WRAP * (int64_t)r.range(1, 2) - d[r.below(7)];
      break;
    }
    case 2:  // just after a unit boundary
      t0 = (int64_t)r.range(3, 5000) * COOL + (int64_t)r.range(0, 2 * SEC);
      break;
    case 3: {  // shortly after boot: timestamps 0, 1, 2
      static const int64_t d[] = {SEC, 63 * SEC, 70 * SEC, 127 * SEC, 130 * SEC};
      t0 = d[r.below(5)];
      break;
    }
    default:
      t0 = (int64_t)r.range(SEC, 10000 * SEC);
  }
  p.cfg["t0"] = t0;
  int nthreads = (int)r.range(2, 4);
  int opid = 0;
  if (directed) {
    // thread 1 (and 4): growers that may be caught in their retire window;
    // thread 2: the jumper; thread 3: waits for the jump, then grows and collects
    nthreads = (int)r.range(3, 4);
    p.threads.resize((size_t)nthreads + 1);
    auto add = [&](int t, int kind, int64_t a, int64_t b) { Op o; o.kind = kind; o.a = a; o.b = b; o.c = 0; o.id = opid++; p.threads[(size_t)t].push_back(o); };
    for (int t = 1; t <= nthreads; t++) {
      if (t == 2) { add(t, K_JUMP, (int64_t)r.range(65, 200), 1); continue; }
      if (t == 3) add(t, K_WAIT_JUMP, 0, 0);
      int nops = (int)r.range(3, 6);
      size_t top = (t == 3 ? 8 : 0) * bs;
      for (int i = 0; i < nops; i++) {
        int k = (int)r.below(10);
        if (k < 5 || i == 0) { top += bs * (size_t)r.range(1, 2); static const int gk[] = {K_ENSURE, K_ENSURE, K_RESERVE, K_RSNAPSHOT, K_FILL_N, K_FOR_EACH}; int kind = gk[r.below(6)]; add(t, kind, (int64_t)top - (kind == K_FILL_N || kind == K_FOR_EACH ? 2 : 0) - (kind == K_ENSURE ? 1 : 0), 2); }
        else if (k < 7) add(t, K_GC, 0, 0);
        else if (k < 8) add(t, K_SNAPSHOT, (int64_t)r.below(top + 1), 0);
        else if (k < 9) add(t, K_SNAP_USE, (int64_t)r.below(8), (int64_t)r.below(top + 1));
        else add(t, K_INDEX, (int64_t)r.below(top + 1), (int64_t)r.below(2));
      }
      if (t == 3) add(t, K_GC, 0, 0);
    }
    return;
  }
  bool small_jumps = !stalled && r.chance(1, 3);
  p.cfg["small_jumps"] = small_jumps;
  if (!stalled && r.chance(1, 8)) {
    // targeted shape: gc() calls of one thread race with a short clock jump that
    // crosses a 64 s unit boundary and with a growth (retirement) by another thread
    p.cfg["small_jumps"] = 1;
    p.cfg["rounds"] = 1;
    p.cfg["t0"] = (int64_t)r.range(3, 5000) * COOL - (int64_t)r.range(200, 1500) * 1000000;
    p.cfg["policy"] = r.chance(1, 2) ? 2 : (r.chance(1, 2) ? 3 : 1);
    p.threads.resize(4);
    auto add = [&](int t, int kind, int64_t a, int64_t b) { Op o; o.kind = kind; o.a = a; o.b = b; o.c = 0; o.id = opid++; p.threads[(size_t)t].push_back(o); };
    add(1, K_ENSURE, (int64_t)bs, 2);
    add(1, K_SNAPSHOT, (int64_t)bs, 0);
    for (int i = 0; i < 4; i++) add(1, K_GC, 0, 0);
    add(1, K_SNAP_USE, 0, 0);
    add(2, K_JUMP, (int64_t)r.range(1600, 3000), 2);
    add(2, K_ENSURE, (int64_t)bs * 3, 2);
    add(2, K_ENSURE, (int64_t)bs * 6, 2);
    add(3, K_SNAPSHOT, (int64_t)bs, 0);
    add(3, K_ENSURE, (int64_t)bs * 2, 2);
    add(3, K_SNAP_USE, 0, 0);
    add(3, K_GC, 0, 0);
    return;
  }
  p.threads.resize((size_t)nthreads + 1);
  for (int t = 1; t <= nthreads; t++) {
    int nops = (int)r.range(3, gp.thorough ? 10 : 8);
    MVec<int> rs;
    for (int i = 0; i < nops; i++) rs.push_back((int)r.below((uint64_t)rounds));
    std::sort(rs.begin(), rs.end());
    for (int i = 0; i < nops; i++) {
      int rd = rs[(size_t)i];
      size_t hi = bs * (size_t)(2 + 2 * rd) + 2;  // indices grow from round to round; several threads need the same new block
      Op o; o.id = opid++; o.c = rd;
      int k = (int)r.below(100);
      if (k < 24) { o.kind = K_ENSURE; o.a = (int64_t)r.below(hi); if (r.chance(1, 3)) o.a = (int64_t)(hi - 1 - r.below(bs)); }
      else if (k < 32) { o.kind = K_RESERVE; o.a = (int64_t)r.range(0, (int64_t)hi); }
      else if (k < 40) { o.kind = K_INDEX; o.a = (int64_t)r.below(hi); o.b = (int64_t)r.below(2); }
      else if (k < 50) { o.kind = K_SNAPSHOT; o.a = (int64_t)r.below(hi); }
      else if (k < 56) { o.kind = K_RSNAPSHOT; o.a = (int64_t)r.range(0, (int64_t)hi); }
      else if (k < 68) { o.kind = K_SNAP_USE; o.a = (int64_t)r.below(8); o.b = (int64_t)r.below(hi); }
      else if (k < 73) { o.kind = K_FILL_N; o.a = (int64_t)r.below(hi); o.b = (int64_t)r.range(0, 6); }
      else if (k < 78) { o.kind = K_COPY_N; o.a = (int64_t)r.below(hi); o.b = (int64_t)r.range(0, 6); }
      else if (k < 83) { o.kind = K_FOR_EACH; o.a = (int64_t)r.below(hi); o.b = (int64_t)r.range(0, 6); }
      else if (k < 86) { o.kind = K_CFOR_EACH; o.a = (int64_t)r.below(hi); o.b = (int64_t)r.range(1, 6); }
      else if (k < 94) { o.kind = K_GC; }
      else if (k < 97) { o.kind = K_SIZE; }
      else { o.kind = K_RECHECK; }
      if (stalled && r.chance(1, 6)) { o.kind = K_JUMP; o.a = (int64_t)r.range(65, 200); o.b = 0; }
      if (small_jumps && r.chance(1, 5)) { o.kind = K_JUMP; o.a = (int64_t)r.range(100, 3000); o.b = 2; }
      p.threads[(size_t)t].push_back(o);
    }
  }
}

void run(const Plan& p) {
  g_margin = p.get("small_jumps", 0) ? 10 * SEC : MARGIN;
  S = new (malloc(sizeof(State))) State();
  for (auto& a : S->addr_of) a = nullptr;
  for (auto& t : S->touch) t = nullptr;
  for (auto& x : S->in_vec_op) x = false;
  for (auto& x : S->tid_of_pt) x = -1;
  switch (p.get("bs_static", 0)) {
    case 1: { Runner<1> r; r.run(p); break; }
    case 2: { Runner<2> r; r.run(p); break; }
    case 4: { Runner<4> r; r.run(p); break; }
    default: { Runner<0> r; r.run(p); break; }
  }
}

const char* const kShrink[] = {"rounds", "jump1", "jump2", nullptr};

}  // namespace

const Harness sim::g_harness = {"cvector", kNames, gen, run, kShrink, 20};
