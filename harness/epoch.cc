// Harness "epoch": babylon::Epoch — C09 (nothing becomes reclaimable while a
// reader that may see it is inside a region). DESIGN.md §3 C09.
//
// Client protocol with the real Epoch: a shared cell atomic<Obj*>; readers open
// a region (thread-local lock()/unlock() or an Accessor — one style per run),
// load the cell and read the object several times; writers unlink the object
// (replace the cell), take tick(), poll low_water_mark() and reclaim (mark +
// delete) the old object once the mark reached the tick.
//
// --mode 0 / 1: thread-local style only / Accessor style only (default mixed).
// --mode 2 / 3 (diagnostic, not part of the default mix): additionally register
//   the objects with the happens-before detector; mode 3 with the C++20
//   release-sequence rule, mode 2 with the C++11-17 rule (sim cfg relseq17: a
//   later store of the thread that did the release store continues the
//   sequence). On the unmodified tree mode 3 reports class `race` within a few
//   runs: a reader that leaves a region and re-enters publishes its new version
//   with a *relaxed* store to the slot the earlier unlock() release-stored to; a
//   writer that reads the relaxed value does not synchronise with the earlier
//   unlock under C++20, so the reclaimer's writes are formally unordered with
//   the old region's reads. Benign on real hardware; outside the statement of
//   C09. Mode 2 removes that report but still meets a rarer formal race (about
//   one run in a hundred, not analysed to the end), so neither mode is claimed.
//
// Side channels (guide rule 11): objects travel through the atomic cell,
// accessors through a mutex-protected mailbox; the plain `holds`/`unlinked`
// tables are read by the oracle only, nobody acts on them. No drain() is placed
// between Epoch::lock's slot store and the reader's loads — that window is the
// subject of the check.
#include <babylon/concurrent/epoch.h>
#include <sched.h>
#include <unistd.h>

#include <atomic>
#include <mutex>
#include <thread>
#include <vector>

#include "common.h"

using namespace sim;

namespace {

enum Kind { K_REGION, K_HANDOFF, K_ADOPT, K_ACC_CREATE, K_ACC_RELEASE, K_REPLACE, K_PAUSE };
const char* const kNames[] = {"region", "handoff", "adopt", "acc_create", "acc_release", "replace", "pause", nullptr};

typedef babylon::Epoch::Accessor Accessor;

struct Obj {
  uint64_t id = 0;
  uint64_t f[3] = {0, 0, 0};
  uint64_t reclaimed = 0;
  uint64_t unlinked = 0;  // harness bookkeeping (set by the writer right after the unlink)
};

struct Hold { Obj* p = nullptr; bool active = false; int t = 0; };
struct Parcel { Accessor acc; Obj* p = nullptr; int depth = 1; int hold = -1; };

constexpr int MAXTH = 16, NSLOT = 3, MAXHOLD = 512;

struct State {
  babylon::Epoch epoch;
  std::atomic<Obj*> cell{nullptr};
  std::atomic<int> readers_done{0};
  int style = 0;     // 0 thread-local lock()/unlock(), 1 Accessor
  int wstore = 0;    // 1: single writer unlinks with load + release store instead of exchange
  bool hb = false;   // register objects with the happens-before detector (mode 2)
  std::mutex mbox_mu;
  std::vector<Parcel> mbox;
  Hold holds[MAXHOLD];
  int nholds = 0;
  Accessor pool[MAXTH][NSLOT];
  bool index_live[4096] = {false};
  bool index_seen[4096] = {false};
  uint64_t seq = 0;
  uint64_t nunlinked = 0, nreclaimed = 0, nreads = 0;
};
State* S;

Obj* make_obj() {
  Obj* o = new Obj();
  o->id = ++S->seq;
  for (int i = 0; i < 3; i++) o->f[i] = hx::mixv(o->id, (uint64_t)i);
  if (S->hb) hb_register(o, offsetof(Obj, unlinked), "epoch-object");
  return o;
}

int hold(Obj* p, int t) {
  if (S->nholds >= MAXHOLD) skip("too-many-regions");
  int h = S->nholds++;
  S->holds[h].p = p; S->holds[h].active = true; S->holds[h].t = t;
  return h;
}
void unhold(int h) { if (h >= 0) S->holds[h].active = false; }

// One look at the object from inside a region: must be alive, unreclaimed and consistent.
void read_obj(Obj* p) {
  yield_point();
  if (heap_is_freed(p)) fail("early-reclaim", "reader-deref", "reader T%d inside a region holds object %p that the writer already freed", tid(), (void*)p);
  uint64_t id = p->id;
  if (p->reclaimed) fail("early-reclaim", "reader-deref", "reader T%d inside a region reads object #%llu that the writer already marked reclaimed", tid(), (unsigned long long)id);
  if (p->unlinked) probe("reader_reads_unlinked_object");
  yield_point();
  if (heap_is_freed(p)) fail("early-reclaim", "reader-deref", "reader T%d inside a region holds object %p that the writer freed between two field reads", tid(), (void*)p);
  for (int i = 0; i < 3; i++)
    if (p->f[i] != hx::mixv(id, (uint64_t)i)) fail("early-reclaim", "reader-fields", "reader T%d inside a region saw object #%llu with field %d overwritten by the reclaimer", tid(), (unsigned long long)id, i);
  S->nreads++;
}

// Black-box self check from inside an open region: a tick taken now is later
// than the region's start, so the mark must stay below it until the region is
// closed (same thread: no visibility question).
void self_check(const char* where) {
  uint64_t t = S->epoch.tick();
  yield_point();
  uint64_t m = S->epoch.low_water_mark();
  probe("reader_self_check");
  if (m >= t) fail("early-reclaim", "reader-self-check", "reader T%d is inside a region (%s) that began before tick %llu, yet low_water_mark() = %llu: the region does not hold the mark back", tid(), where, (unsigned long long)t, (unsigned long long)m);
}

struct Lk {
  Accessor* acc;
  void lock() { if (acc) acc->lock(); else S->epoch.lock(); }
  void unlock() { if (acc) acc->unlock(); else S->epoch.unlock(); }
};

void note_index(Accessor& a, bool created) {
  size_t idx = a._index;
  if (idx >= 4096) return;
  if (created) {
    if (S->index_live[idx]) fail("api", "create_accessor", "create_accessor handed out slot %zu which another live accessor still owns", idx);
    if (S->index_seen[idx]) probe("accessor_slot_reused");
    S->index_live[idx] = true; S->index_seen[idx] = true;
  } else {
    S->index_live[idx] = false;
  }
}
void release_acc(Accessor& a) {
  if (!a) return;
  note_index(a, false);
  a.release();
}

// Leave a region that is `depth` deep; inner unlocks must not end the protection.
void leave(Lk lk, Obj* p, int depth, int h, bool check = false) {
  for (int d = depth; d > 1; d--) { lk.unlock(); read_obj(p); if (check) self_check("after an inner unlock"); }
  unhold(h);
  lk.unlock();
}

// returns false if the region was handed off (still open, accessor moved away)
void region(int t, Accessor* acc, int depth, int reads, bool handoff, bool check = false) {
  depth = depth < 1 ? 1 : depth > 3 ? 3 : depth;
  reads = reads < 1 ? 1 : reads > 4 ? 4 : reads;
  Lk lk{acc};
  lk.lock();
  Obj* p = S->cell.load(std::memory_order_acquire);
  int h = hold(p, t);
  read_obj(p);
  if (check) self_check("after lock");
  for (int d = 1; d < depth; d++) { lk.lock(); probe("nested_lock"); read_obj(p); if (check) self_check("after a nested lock"); }
  for (int i = 1; i < reads; i++) read_obj(p);
  if (check && reads > 1) self_check("after reading");
  if (handoff && acc) {
    Parcel pc;
    pc.acc = std::move(*acc);
    pc.p = p; pc.depth = depth; pc.hold = h;
    std::lock_guard<std::mutex> g(S->mbox_mu);
    S->mbox.push_back(std::move(pc));
    probe("region_handed_off");
    return;
  }
  leave(lk, p, depth, h, check);
}

bool take_parcel(Parcel& out) {
  std::lock_guard<std::mutex> g(S->mbox_mu);
  if (S->mbox.empty()) return false;
  out = std::move(S->mbox.front());
  S->mbox.erase(S->mbox.begin());
  return true;
}

void adopt(int t, int slot, int reads, bool by_main) {
  Parcel pc;
  if (!take_parcel(pc)) return;
  probe(by_main ? "region_closed_by_main" : "region_adopted_by_other_thread");
  reads = reads < 0 ? 0 : reads > 3 ? 3 : reads;
  for (int i = 0; i < reads; i++) read_obj(pc.p);
  leave(Lk{&pc.acc}, pc.p, pc.depth, pc.hold);
  if (!by_main && t < MAXTH && !S->pool[t][slot]) S->pool[t][slot] = std::move(pc.acc);  // stays idle (unlocked)
  else release_acc(pc.acc);
}

void replace(int nunlink, int64_t poll_us) {
  nunlink = nunlink < 1 ? 1 : nunlink > 2 ? 2 : nunlink;
  Obj* olds[2] = {nullptr, nullptr};
  for (int i = 0; i < nunlink; i++) {
    Obj* nw = make_obj();
    Obj* old;
    if (S->wstore) { old = S->cell.load(std::memory_order_acquire); S->cell.store(nw, std::memory_order_release); }
    else old = S->cell.exchange(nw, std::memory_order_acq_rel);
    old->unlinked = 1;
    S->nunlinked++;
    olds[i] = old;
  }
  uint64_t t = S->epoch.tick();
  bool waited = false;
  for (;;) {
    // all regions closed, and the closing happens-before this scan?
    bool quiet = S->readers_done.load(std::memory_order_acquire) != 0;
    uint64_t lwm = S->epoch.low_water_mark();
    if (lwm >= t) break;
    if (quiet) fail("mark-held-back", "writer-poll", "every region has been closed (happens-before this scan) but low_water_mark() = %llu stays below tick %llu", (unsigned long long)lwm, (unsigned long long)t);
    if (!waited) { probe("writer_waited_for_mark"); waited = true; }
    for (int i = 0; i < S->nholds; i++)
      if (S->holds[i].active && (S->holds[i].p == olds[0] || S->holds[i].p == olds[1])) { probe("mark_held_by_reader_of_unlinked_object"); break; }
    if (poll_us <= 0) ::sched_yield(); else ::usleep((useconds_t)poll_us);
  }
  // reclaim decision: nobody inside a region may still hold what we are about to free
  for (int i = 0; i < S->nholds; i++)
    if (S->holds[i].active && (S->holds[i].p == olds[0] || S->holds[i].p == olds[1]))
      fail("early-reclaim", "writer-decision", "low_water_mark() reached tick %llu although reader (plan thread %d) is still inside the region in which it obtained the unlinked object #%llu", (unsigned long long)t, S->holds[i].t, (unsigned long long)S->holds[i].p->id);
  for (int i = 0; i < nunlink; i++) {
    Obj* o = olds[i];
    o->reclaimed = 1;
    for (int k = 0; k < 3; k++) o->f[k] = 0xdeaddeaddeaddeadULL;
    yield_point();
    if (S->hb) hb_unregister(o);
    delete o;
    S->nreclaimed++;
  }
}

// Thread-local style indexes the Epoch's slots by babylon::ThreadId (tag Epoch):
// a process-wide id allocator whose free list survives from run to run inside
// one worker process, so which reader gets which slot would depend on the runs
// before (a violation could then not be reproduced in a fresh process). Bring
// the allocator into one canonical state through the public API only: K
// threads each obtain an id (all K ids in use), then exit in descending id
// order, which leaves the LIFO free list as 0,1,...,K-1 whatever came before.
void normalise_thread_ids() {
  constexpr int K = 4;  // >= number of threads of one run that ever use the thread-local style
  struct Ctl { babylon::Epoch scratch; std::mutex gate[K]; int id_of[K]; };
  Ctl* c = new Ctl();
  std::thread th[K];
  for (int i = 0; i < K; i++) { c->id_of[i] = -1; c->gate[i].lock(); }
  for (int i = 0; i < K; i++)
    th[i] = std::thread([c, i] {
      c->scratch.lock();
      c->scratch.unlock();
      c->id_of[i] = (int)babylon::ThreadId::current_thread_id<babylon::Epoch>().value;
      c->gate[i].lock();  // wait for permission to exit
      c->gate[i].unlock();
    });
  wait_quiescent();  // everybody holds an id and is parked at its gate
  for (int id = 4 * K; id >= 0; id--)
    for (int i = 0; i < K; i++)
      if (c->id_of[i] == id) { c->gate[i].unlock(); th[i].join(); }
  for (int i = 0; i < K; i++) if (th[i].joinable()) skip("thread-id-space-larger-than-expected");
  delete c;
}

bool is_writer_thread(const std::vector<Op>& ops) {
  for (auto& o : ops) if (o.kind == K_REPLACE) return true;
  return false;
}

void do_op(int t, const Op& op, bool writer) {
  int slot = (int)(op.c < 0 ? 0 : op.c % NSLOT);
  bool check = op.c >= 0 && ((op.c / NSLOT) & 1);  // reader self check inside the region
  bool have_pool = t < MAXTH;
  switch (op.kind) {
    case K_REGION:
    case K_HANDOFF: {
      if (writer) break;  // a writer that waits for its own region would be client misuse
      if (S->style == 0 || !have_pool) { if (S->style == 0) region(t, nullptr, (int)op.a, (int)op.b, false, check); break; }
      Accessor& a = S->pool[t][slot];
      if (!a) { a = S->epoch.create_accessor(); note_index(a, true); }
      region(t, &a, (int)op.a, (int)op.b, op.kind == K_HANDOFF, check);
      break;
    }
    case K_ADOPT:
      if (writer || S->style == 0) break;
      adopt(t, slot, (int)op.b, false);
      break;
    case K_ACC_CREATE: {
      if (S->style == 0 || !have_pool) break;
      Accessor& a = S->pool[t][slot];
      if (!a) { a = S->epoch.create_accessor(); note_index(a, true); probe("idle_accessor_created"); }
      break;
    }
    case K_ACC_RELEASE:
      if (S->style == 0 || !have_pool) break;
      if (S->pool[t][slot]) { release_acc(S->pool[t][slot]); probe("accessor_released"); }
      break;
    case K_REPLACE:
      replace((int)op.a, op.b);
      break;
    case K_PAUSE: {
      int n = (int)(op.a < 0 ? 0 : op.a > 40 ? 40 : op.a);
      for (int i = 0; i < n; i++) yield_point();
      if (op.b > 0) ::usleep((useconds_t)(op.b > 200 ? 200 : op.b));  // short: writers poll every 1us and the stall verdict counts idle clock jumps
      break;
    }
  }
}

void gen(Rng& r, Plan& p, const GenParams& gp) {
  gen_common(r, p, SB_ALWAYS, false, 900);
  int style = gp.mode == 0 ? 0 : gp.mode == 1 ? 1 : (int)r.below(2);
  p.cfg["style"] = style;
  p.cfg["hb"] = (gp.mode == 2 || gp.mode == 3) ? 1 : 0;
  p.cfg["relseq17"] = gp.mode == 3 ? 0 : 1;
  p.cfg["max_idle_jumps"] = 1500;
  int nreaders = (int)r.range(1, gp.thorough ? 4 : 3);
  int nwriters = r.chance(1, 3) ? 2 : 1;
  p.cfg["wstore"] = (nwriters == 1 && r.chance(1, 3)) ? 1 : 0;
  p.threads.resize((size_t)(1 + nreaders + nwriters));
  int opid = 0;
  auto add = [&](int t, int kind, int64_t a, int64_t b, int64_t c) { Op o; o.kind = kind; o.a = a; o.b = b; o.c = c; o.id = opid++; p.threads[(size_t)t].push_back(o); };
  static const int depths[] = {1, 1, 1, 2, 2, 3};
  // accessor-churn shape (style 1, a quarter of the runs): every reader keeps
  // creating an accessor, using it for one region and releasing it again, so
  // that a release of slot index X by one thread overlaps create_accessor() ->
  // lock() on the recycled index X by another (seeded change C09-9: release()
  // touched the slot after handing its index back)
  bool churn = style == 1 && r.chance(1, 4);
  p.cfg["churn"] = churn ? 1 : 0;
  for (int t = 1; t <= nreaders; t++) {
    int nops = (int)r.range(1, gp.thorough ? 6 : 4);
    if (churn) {
      if (nreaders < 2 && t == 1) { /* one reader cannot overlap with itself: still useful against the writer */ }
      int npairs = (int)r.range(1, 3);
      for (int i = 0; i < npairs; i++) {
        int64_t slot = (int64_t)r.below(2);
        if (r.chance(1, 4)) add(t, K_PAUSE, r.range(0, 12), 0, 0);
        add(t, K_REGION, depths[r.below(6)], r.range(1, 3), slot + (r.chance(1, 2) ? NSLOT : 0));
        add(t, K_ACC_RELEASE, 0, 0, slot);
      }
      continue;
    }
    for (int i = 0; i < nops; i++) {
      int64_t depth = depths[r.below(6)], reads = r.range(1, 3), slot = (int64_t)r.below(NSLOT);
      if (r.chance(1, 6)) { add(t, K_PAUSE, r.range(0, 30), r.chance(1, 3) ? r.range(1, 200) : 0, 0); continue; }
      if (r.chance(1, 3)) slot += NSLOT;  // self check
      if (style == 0) { add(t, K_REGION, depth, reads, slot >= NSLOT ? NSLOT : 0); continue; }
      uint64_t x = r.below(20);
      if (x < 10) add(t, K_REGION, depth, reads, slot);
      else if (x < 13) add(t, K_HANDOFF, depth, reads, slot);
      else if (x < 16) add(t, K_ADOPT, 0, r.range(0, 2), slot);
      else if (x < 18) add(t, K_ACC_CREATE, 0, 0, slot);
      else add(t, K_ACC_RELEASE, 0, 0, slot);
    }
  }
  static const int64_t polls[] = {0, 0, 1, 50, 1000};
  for (int t = nreaders + 1; t <= nreaders + nwriters; t++) {
    int nops = (int)r.range(1, 3);
    for (int i = 0; i < nops; i++) {
      if (r.chance(1, 2)) add(t, K_PAUSE, r.range(0, 30), r.chance(1, 4) ? r.range(1, 200) : 0, 0);
      add(t, K_REPLACE, r.chance(1, 4) ? 2 : 1, polls[r.below(5)], 0);
    }
  }
}

void run(const Plan& p) {
  S = new State();
  State& s = *S;
  s.style = p.get("style", 0) ? 1 : 0;
  s.hb = p.get("hb", 0) != 0;
  if (p.get("churn", 0)) probe("accessor_churn_shape");
  int nw = 0;
  for (size_t t = 1; t < p.threads.size(); t++) if (is_writer_thread(p.threads[t])) nw++;
  s.wstore = (p.get("wstore", 0) && nw == 1) ? 1 : 0;
  if (s.style == 0) normalise_thread_ids();
  s.cell.store(make_obj(), std::memory_order_seq_cst);
  sim::drain();
  std::vector<std::thread> readers, writers;
  const Plan* pp = &p;
  for (size_t t = 1; t < p.threads.size(); t++) {
    if (p.threads[t].empty()) continue;
    bool w = is_writer_thread(p.threads[t]);
    (w ? writers : readers).emplace_back([pp, t, w]() {
      for (auto& op : pp->threads[t]) { OpScope scope(op.id); do_op((int)t, op, w); }
    });
  }
  for (auto& th : readers) th.join();
  // regions still travelling in the mailbox are closed by main
  int mop = 100000;
  for (;;) {
    { std::lock_guard<std::mutex> g(s.mbox_mu); if (s.mbox.empty()) break; }
    OpScope scope(mop++);
    adopt(0, 0, 1, true);
  }
  for (int i = 0; i < s.nholds; i++) if (s.holds[i].active) fail("harness", "bookkeeping", "region %d still marked open after all readers finished", i);
  {
    int idle = 0;
    for (int t = 0; t < MAXTH; t++) for (int k = 0; k < NSLOT; k++) if (s.pool[t][k]) idle++;
    if (idle) probe("idle_accessors_while_writers_scan", (uint64_t)idle);
  }
  s.readers_done.store(1, std::memory_order_seq_cst);
  for (auto& th : writers) th.join();
  // everything is closed: the mark must not be held back by idle / released accessors or finished threads
  uint64_t t = s.epoch.tick();
  uint64_t lwm = s.epoch.low_water_mark();
  if (lwm < t) fail("mark-held-back", "final", "no region is open but low_water_mark() = %llu is below a fresh tick %llu", (unsigned long long)lwm, (unsigned long long)t);
  if (s.nunlinked != s.nreclaimed) fail("harness", "bookkeeping", "%llu objects unlinked but %llu reclaimed", (unsigned long long)s.nunlinked, (unsigned long long)s.nreclaimed);
  for (int tt = 0; tt < MAXTH; tt++) for (int k = 0; k < NSLOT; k++) release_acc(s.pool[tt][k]);
  Obj* last = s.cell.load(std::memory_order_acquire);
  if (s.hb) hb_unregister(last);
  delete last;
  if (s.nreads >= 4) probe("runs_with_reads");
  delete S;
  S = nullptr;
}

const char* const kShrink[] = {nullptr};

}  // namespace

const Harness sim::g_harness = {"epoch", kNames, gen, run, kShrink, 0};
