// Harness "execq": ConcurrentExecutionQueue — C16.
// DESIGN.md §3 C16.
//
// 1-3 producer threads call execute(item) on a queue of capacity 1-4 whose
// consumer is launched through an Executor: InplaceExecutor, a real
// ThreadPoolExecutor, AlwaysUseNewThreadExecutor, or a harness executor whose
// invoke() refuses a drawn set of attempts and recovers afterwards. The main
// thread calls join() while producers are running, acts as balancer (signals
// once more after refusals, as the header documents) and does the final
// signal_push_event() + join().
//
// Known finding on the unmodified tree (class lost, site join-head-of-line):
// join() can return while items whose execute() already returned are still
// unconsumed. A producer P1 that found the queue full holds ticket k and sleeps
// in its 1 ms slot poll; the consumer drains and exits; P2 publishes tickets
// k+1.. and launches a consumer, whose empty poll only looks at slot k
// (unpublished) and exits with the event counter reset to 0; join() sees 0.
// The items are consumed later, when P1 publishes and relaunches.
#include <babylon/concurrent/execution_queue.h>
#include <babylon/executor.h>

#include <algorithm>
#include <thread>
#include <vector>

#include "common.h"

using namespace sim;

namespace {

enum Kind { K_EXEC, K_SLEEP, K_JOIN, K_SIGNAL };
const char* const kNames[] = {"execute", "sleep", "join", "signal_push_event", nullptr};
enum ExecKind { E_INPLACE, E_POOL, E_NEWTHREAD, E_FAULTY, E_COUNT };

struct Item {
  uint64_t v = 0;
  uint64_t chk = 0;
};
typedef babylon::ConcurrentExecutionQueue<Item> Q;

struct Attempt { uint64_t stamp; int tid; bool refused; };
struct Sub {            // one execute() call
  uint64_t v = 0;
  int producer = 0;
  bool done = false;    // execute returned
  int ret_tid = -1; uint32_t ret_clock = 0;
  int rc = 0;
  int consumed = 0;
  uint64_t epoch_at_signal = 0; bool window = false;
  uint64_t ticket = ~0ULL;  // queue index taken by the push (from a watch on _next_push_index)
};

struct State {
  Q q;
  size_t cap = 1;
  int exec = 0;
  bool in_consume = false; int consumer_tid = -1;
  int cyield = 0; int64_t csleep = 0;
  std::vector<Sub*> subs;
  uint64_t seq[8] = {0};        // per producer: last submitted
  uint64_t next[8] = {0};       // per producer: last consumed
  uint64_t nsub = 0, ncons = 0;
  uint64_t nonzero_rc = 0;
  std::vector<Attempt> attempts;
  int att_in_call[64] = {0}; bool last_refused[64] = {false};
  int in_closure[64] = {0};
  uint64_t epoch = 0;           // number of 0 -> 1 transitions of _events
  int producers_alive = 0;
};
State* S;

bool returned_before_me(const Sub* s) {
  if (!s->done) return false;
  if (sim::config().storebuf == 0) return true;
  return sim::happened_before_me(s->ret_tid, s->ret_clock);
}

// raw (non-scheduling) reads of the queue indexes for probes / watch callbacks
size_t raw_tickets() {
  size_t push = *(volatile size_t*)&S->q._queue._next_push_index;
  size_t pop = *(volatile size_t*)&S->q._queue._next_pop_index;
  return push - pop;
}
size_t raw_events() { return *(volatile size_t*)&S->q._events; }

void consume(Q::Iterator b, Q::Iterator e) {
  int me = tid();
  if (S->in_consume) fail("overlap", "consume", "consume function entered on T%d while it is still active on T%d", me, S->consumer_tid);
  S->in_consume = true; S->consumer_tid = me;
  size_t n = (size_t)(e - b);
  if (n == 0 || n > S->cap) fail("api", "consume-batch", "consume function called with a batch of %zu (capacity %zu)", n, S->cap);
  probe(n > 1 ? "batch_gt1" : "batch_1");
  for (; b != e; ++b) {
    Item& it = *b;
    uint64_t v = it.v;
    for (int i = 0; i < S->cyield; i++) sim::yield_point();
    if (it.chk != hx::mixv(v, 7)) fail("torn", "consume", "consumer saw item %#llx with a stale/partial companion field", (unsigned long long)v);
    uint64_t p = (v >> 32) - 1, sq = v & 0xffffffffULL;
    if (p >= 8 || sq == 0 || sq > S->seq[p]) fail("invented", "consume", "consumer received item %#llx that no producer submitted", (unsigned long long)v);
    if (sq <= S->next[p]) fail("duplicate", "consume", "item %llu of producer %llu delivered again (already delivered up to %llu)", (unsigned long long)sq, (unsigned long long)p, (unsigned long long)S->next[p]);
    if (sq != S->next[p] + 1) fail("order", "consume", "producer %llu: item %llu delivered while item %llu was not yet delivered", (unsigned long long)p, (unsigned long long)sq, (unsigned long long)(S->next[p] + 1));
    S->next[p] = sq;
    S->ncons++;
    for (Sub* s : S->subs) if (s->v == v) {
      s->consumed++;
      if (s->window) probe(s->epoch_at_signal == S->epoch ? "window_item_taken_by_same_consumer" : "window_item_taken_after_relaunch");
    }
  }
  if (S->csleep > 0) ::usleep((useconds_t)(S->csleep / 1000));
  if (!S->in_consume || S->consumer_tid != me) fail("overlap", "consume", "another consume call ran while T%d was inside the consume function", me);
  S->in_consume = false;
}

// Executor whose invoke() refuses the attempts named by the plan's mask and is
// healthy afterwards. Accepted closures run inline or on a fresh thread.
struct FaultyExecutor : public babylon::Executor {
  uint64_t mask = 0;
  bool run_inline = false;
  bool healthy = false;
  int nattempts = 0;
  int running = 0;
  int invoke(babylon::MoveOnlyFunction<void(void)>&& f) noexcept override {
    int me = tid();
    sim::yield_point();
    int idx = nattempts++;
    bool refuse = !healthy && idx < 62 && ((mask >> idx) & 1);
    S->attempts.push_back(Attempt{sim::stamp(), me, refuse});
    if (me >= 0 && me < 64) { S->att_in_call[me]++; S->last_refused[me] = refuse; }
    if (refuse) { sim::fault_fired("executor_refused"); return -1; }
    probe("launch_accepted");
    if (run_inline) {
      S->in_closure[me]++;
      f();
      S->in_closure[me]--;
    } else {
      running++;
      std::thread([this, fn = std::move(f)]() mutable {
        int t = tid();
        S->in_closure[t]++;
        fn();
        S->in_closure[t]--;
        running--;
      }).detach();
    }
    return 0;
  }
};

// watch on _events: classify every committed modification
void on_events(void*, const void*, uint64_t oldv, uint64_t newv) {
  int me = tid();
  if (oldv == 0 && newv == 1) { S->epoch++; return; }
  if (newv == oldv + 1) {
    // signal absorbed by a live consumer / launcher. Was the consumer already done
    // with everything else (i.e. between its last consume and its exit decision)?
    if (!S->in_consume && raw_tickets() == 1) {
      probe("publish_while_consumer_in_exit_path");
      for (Sub* s : S->subs) if (!s->done && s->producer >= 0 && !s->consumed && s->ret_tid == -2 - me) { s->window = true; s->epoch_at_signal = S->epoch; }
    }
    return;
  }
  if (newv == 0 && oldv > 0) {
    bool consumer_exit = S->exec != E_FAULTY || (me >= 0 && me < 64 && S->in_closure[me] > 0);
    if (consumer_exit) {
      probe("consumer_exit");
      if (raw_tickets() > 0) probe("exit_cas_with_push_in_flight");
      if (oldv > 1) probe("exit_cas_after_several_events");
    } else {
      probe("launch_rollback");
      if (oldv > 1) probe("rollback_after_cas_retry");
    }
  }
}

// watch on the queue's push index: remember which ticket each execute() took
void on_ticket(void*, const void*, uint64_t oldv, uint64_t newv) {
  int me = tid();
  if (newv != oldv + 1) return;
  for (Sub* s : S->subs) if (!s->done && s->ret_tid == -2 - me && s->ticket == ~0ULL) s->ticket = oldv;
}

void note_rc(int rc, const char* what) {
  int me = tid();
  bool attempted = me >= 0 && me < 64 && S->att_in_call[me] > 0;
  bool last_refused = attempted && S->last_refused[me];
  if (S->exec != E_FAULTY) {
    if (rc != 0) fail("api", what, "%s returned %d with an executor that never refuses", what, rc);
    return;
  }
  if (rc != 0 && !last_refused) fail("api", what, "%s returned %d although no launch attempt of this call was refused last (attempts in call: %d)", what, rc, attempted ? S->att_in_call[me] : 0);
  if (rc == 0 && last_refused) fail("api", what, "%s returned 0 although its last launch attempt was refused: the caller cannot know the items are stranded", what);
  if (rc != 0) { S->nonzero_rc++; probe("nonzero_return"); }
}
void begin_call() {
  int me = tid();
  if (me >= 0 && me < 64) { S->att_in_call[me] = 0; S->last_refused[me] = false; }
}

void do_execute(int producer, bool by_copy) {
  if (producer < 0 || producer >= 8) return;
  Sub* s = new Sub();
  s->producer = producer;
  s->v = ((uint64_t)(producer + 1) << 32) | ++S->seq[producer];
  s->ret_tid = -2 - tid();  // marks "in flight on this thread" for the watch callback
  S->subs.push_back(s);
  S->nsub++;
  Item it; it.v = s->v; it.chk = hx::mixv(s->v, 7);
  begin_call();
  int rc = by_copy ? S->q.execute(static_cast<const Item&>(it)) : S->q.execute(std::move(it));
  s->rc = rc;
  note_rc(rc, "execute");
  s->ret_tid = tid(); s->ret_clock = sim::my_clock(); s->done = true;
}

void do_signal() {
  begin_call();
  int rc = S->q.signal_push_event();
  note_rc(rc, "signal_push_event");
}

// true if a refusal is outstanding: the most recent launch attempt was refused
bool refusal_outstanding() { return !S->attempts.empty() && S->attempts.back().refused; }

void do_join() {
  // which submissions are covered by this join? (see rule 2)
  std::vector<Sub*> covered;
  for (Sub* s : S->subs) if (returned_before_me(s)) covered.push_back(s);
  uint64_t J = sim::stamp();
  S->q.join();
  // clause applies unless a refusal stranded items: last refusal (if any) must
  // be followed by an accepted launch that precedes the join's invocation
  bool applies = true;
  uint64_t last_ref = 0; bool any_ref = false;
  for (auto& a : S->attempts) if (a.refused) { any_ref = true; last_ref = a.stamp; }
  if (any_ref) {
    applies = false;
    for (auto& a : S->attempts) if (!a.refused && a.stamp > last_ref && a.stamp < J) applies = true;
  }
  if (!applies) { probe("join_clause_not_applicable"); return; }
  for (Sub* s : covered)
    if (s->consumed != 1) {
      // Classify: is the unconsumed item queued behind the ticket of an execute()
      // that is still in flight (head-of-line: the consumer's empty poll only
      // looks at the head slot, so it exits although later slots are published)?
      // That case gets its own site. No scheduling point may separate join()'s
      // last look at the event counter from this classification: plain reads only.
      for (Sub* o : S->subs)
        if (!o->done && o->ticket < s->ticket)
          fail("lost", "join-head-of-line", "join() returned (event counter 0) but item %llu of producer %d (ticket %llu), whose execute() had returned before join() was called, was not consumed: it is queued behind ticket %llu of producer %d whose execute() is still in flight, so the consumer's empty poll of the head slot let it exit",
               (unsigned long long)(s->v & 0xffffffffULL), s->producer, (unsigned long long)s->ticket, (unsigned long long)o->ticket, o->producer);
      fail("lost", "join", "join() returned but item %llu of producer %d, whose execute() had returned before join() was called, was not consumed", (unsigned long long)(s->v & 0xffffffffULL), s->producer);
    }
  probe(covered.empty() ? "join_nothing_covered" : "join_covered_items");
}

void do_op(int t, const Op& op) {
  switch (op.kind) {
    case K_EXEC: do_execute(t, op.a & 1); break;
    case K_SLEEP: sim::sleep_ns(std::max<int64_t>(0, std::min<int64_t>(op.a, 100000000))); break;
    case K_JOIN: do_join(); break;
    case K_SIGNAL: do_signal(); break;
    default: break;
  }
}

void run(const Plan& p) {
  S = new State();
  State& s = *S;
  s.exec = (int)std::max<int64_t>(0, std::min<int64_t>(p.get("exec", 0), E_COUNT - 1));
  s.cyield = (int)std::max<int64_t>(0, std::min<int64_t>(p.get("cyield", 1), 3));
  s.csleep = std::max<int64_t>(0, std::min<int64_t>(p.get("csleep", 0), 5000000));
  size_t nexec = 0;
  for (size_t t = 1; t < p.threads.size(); t++) for (auto& op : p.threads[t]) if (op.kind == K_EXEC || op.kind == K_SIGNAL) nexec++;
  if (p.threads.size() > 8 || nexec > 26) sim::skip("plan-too-large");

  babylon::ThreadPoolExecutor* pool = nullptr;
  FaultyExecutor* faulty = nullptr;
  babylon::Executor* ex = nullptr;
  switch (s.exec) {
    case E_INPLACE: ex = &babylon::InplaceExecutor::instance(); break;
    case E_POOL:
      pool = new babylon::ThreadPoolExecutor();
      pool->set_worker_number((size_t)std::max<int64_t>(1, std::min<int64_t>(p.get("workers", 1), 2)));
      pool->set_global_capacity((size_t)std::max<int64_t>(1, std::min<int64_t>(p.get("gcap", 1), 4)));
      if (pool->start() != 0) fail("harness", "pool-start", "ThreadPoolExecutor::start failed");
      ex = pool;
      break;
    case E_NEWTHREAD: ex = &babylon::AlwaysUseNewThreadExecutor::instance(); break;
    default:
      faulty = new FaultyExecutor();
      faulty->mask = (uint64_t)p.get("mask", 0);
      faulty->run_inline = p.get("finline", 0) != 0;
      ex = faulty;
      break;
  }
  s.q.initialize((size_t)std::max<int64_t>(1, std::min<int64_t>(p.get("cap", 1), 4)), *ex, consume);
  s.cap = s.q.capacity();
  // history prefix: pretend the ring has already been cycled epoch0 times (slot
  // versions near the 16-bit wrap); set-up only, before any use
  uint64_t e0 = (uint64_t)std::max<int64_t>(0, p.get("epoch0", 0));
  if (e0) {
    s.q._queue._next_push_index.store(e0 * s.cap, std::memory_order_relaxed);
    s.q._queue._next_pop_index.store(e0 * s.cap, std::memory_order_relaxed);
    for (size_t i = 0; i < s.cap; i++) s.q._queue._slots.futex(i).set_version((uint16_t)(e0 << 1), std::memory_order_relaxed);
    sim::drain();
    probe("history_prefix");
  }
  for (size_t i = 0; i < s.cap; i++) sim::hb_register(&s.q._queue._slots.value(i), sizeof(Item), "execq-slot");
  sim::watch(&s.q._events, sizeof(s.q._events), on_events, nullptr);
  sim::watch(&s.q._queue._next_push_index, sizeof(size_t), on_ticket, nullptr);

  for (size_t t = 1; t < p.threads.size(); t++) if (!p.threads[t].empty()) s.producers_alive++;
  std::vector<std::thread> th;
  {
    const Plan* pp = &p;
    for (size_t t = 1; t < p.threads.size(); t++) {
      if (p.threads[t].empty()) continue;
      th.emplace_back([pp, t]() {
        for (auto& op : pp->threads[t]) { sim::OpScope scope(op.id); do_op((int)t, op); }
        S->producers_alive--;
      });
    }
  }
  // main thread's own operations (join / signal racing with the producers)
  if (!p.threads.empty()) for (auto& op : p.threads[0]) { sim::OpScope scope(op.id); do_op(0, op); }
  // balancer: when everything else is blocked, pending items must have a
  // consumer unless the last launch was refused; in that case do what the header
  // documents: signal_push_event() (attempts of the balancer are subject to the
  // same fault sequence, so the executor "recovers" when the mask runs out)
  int mop = 100000;
  // A round = wait until nobody else is runnable, look, sleep 2 ms (longer than
  // the 1 ms poll period of a producer waiting for a free slot, so every poller
  // re-checks its slot at least once per round). Only a state that did not
  // change over several rounds is judged.
  uint64_t last_sig = ~0ULL; int same = 0;
  while (s.producers_alive > 0) {
    sim::wait_quiescent();
    if (s.producers_alive == 0) break;
    size_t ev = raw_events(), pending = raw_tickets();
    uint64_t sig = sim::mix64(sim::mix64(ev, *(volatile size_t*)&s.q._queue._next_push_index), sim::mix64(*(volatile size_t*)&s.q._queue._next_pop_index, sim::mix64(s.nsub * 1000 + s.ncons, s.attempts.size() * 64 + (uint64_t)s.producers_alive)));
    if (sig == last_sig) same++; else { same = 0; last_sig = sig; }
    if (ev == 0 && pending > 0 && same >= 2) {
      if (!refusal_outstanding())
        fail("stranded", "quiescent", "%zu item(s) pending, event counter is 0 (no consumer running or launched), no thread made progress for %d rounds, and no launch refusal is outstanding", pending, same);
      sim::OpScope scope(mop++);
      probe("balancer_signal_after_refusal");
      do_signal();
      same = 0;
    } else if (ev > 0 && !s.in_consume && same >= 30) {
      fail("stall", "consumer-missing", "event counter is %zu but for %d rounds (2 ms each) no consumer ran although every other thread was blocked or polling; %zu item(s) pending", ev, same, pending);
    }
    sim::sleep_ns(2000000);
  }
  for (auto& t : th) t.join();
  // producers are joined: everything they did happens-before this point
  if (faulty) faulty->healthy = true;
  bool stranded_possible = s.nonzero_rc > 0 || refusal_outstanding();
  {
    sim::OpScope scope(mop++);
    if (!stranded_possible) {
      // no call ever reported a failed launch: join() alone must drain everything
      if (p.get("final_signal", 0)) { probe("final_signal_not_needed"); do_signal(); }
    } else {
      probe("final_signal_after_refusals");
      begin_call();
      int rc = s.q.signal_push_event();
      if (rc != 0) fail("api", "signal_push_event", "signal_push_event returned %d with a healthy executor", rc);
    }
    s.q.join();
  }
  if (s.ncons != s.nsub) {
    for (Sub* sub : s.subs)
      if (sub->consumed != 1)
        fail("lost", stranded_possible ? "final-after-refusal" : "final", "after %sjoin() returned, item %llu of producer %d (execute returned %d) was consumed %d times; %llu submitted, %llu consumed",
             stranded_possible ? "the final signal_push_event() and " : "", (unsigned long long)(sub->v & 0xffffffffULL), sub->producer, sub->rc, sub->consumed, (unsigned long long)s.nsub, (unsigned long long)s.ncons);
  }
  for (Sub* sub : s.subs) if (sub->consumed != 1) fail("duplicate", "final", "item %#llx consumed %d times", (unsigned long long)sub->v, sub->consumed);
  if (s.in_consume) fail("overlap", "final", "join() returned while the consume function is still active");
  // let executor threads finish
  if (pool) pool->stop();
  if (s.exec == E_NEWTHREAD) babylon::AlwaysUseNewThreadExecutor::instance().join();
  if (faulty) while (faulty->running > 0) ::usleep(1000);
  while (sim::others_alive() > 0) ::usleep(1000);
  if (raw_events() != 0) fail("api", "events", "event counter is %zu after everything was consumed and every consumer exited", raw_events());
  if (s.q.size() != 0) fail("api", "size", "size() = %zu after everything was consumed", s.q.size());
  if (faulty) { for (auto& a : s.attempts) if (a.refused) { probe("runs_with_refusal"); break; } }
  for (size_t i = 0; i < s.cap; i++) sim::hb_unregister(&s.q._queue._slots.value(i));
  delete pool;
  delete faulty;
  for (Sub* sub : s.subs) delete sub;
  delete S;
  S = nullptr;
}

void gen(Rng& r, Plan& p, const GenParams& gp) {
  gen_common(r, p, SB_HALF, r.chance(1, 4), 1500);
  p.cfg["max_idle_jumps"] = 3000;
  // mode: -1 mixed, 0 healthy executors only, 1 faulty executor only
  int exec;
  if (gp.mode == 1) exec = E_FAULTY;
  else if (gp.mode == 0) exec = (int)r.below(3);
  else { static const int ex[] = {E_INPLACE, E_INPLACE, E_POOL, E_POOL, E_NEWTHREAD, E_NEWTHREAD, E_FAULTY, E_FAULTY, E_FAULTY, E_FAULTY}; exec = ex[r.below(10)]; }
  p.cfg["exec"] = exec;
  static const int caps[] = {1, 1, 2, 2, 3, 4};
  p.cfg["cap"] = caps[r.below(6)];
  static const int64_t ep[] = {0, 0, 0, 0, 3, 32766, 32767, 65534, 65535};
  p.cfg["epoch0"] = ep[r.below(9)];
  p.cfg["workers"] = (int64_t)r.range(1, 2);
  p.cfg["gcap"] = (int64_t)r.range(1, 2);
  p.cfg["finline"] = r.chance(1, 3);
  p.cfg["cyield"] = (int64_t)r.below(3);
  static const int64_t cs[] = {0, 0, 0, 1000000, 3000000};
  p.cfg["csleep"] = cs[r.below(5)];
  p.cfg["final_signal"] = r.chance(1, 4);
  // refused attempts: sparse or dense prefixes
  uint64_t mask = 0;
  if (exec == E_FAULTY) {
    int style = (int)r.below(4);
    if (style == 0) mask = r.next() & 0xfff;
    else if (style == 1) mask = (1ULL << r.range(1, 6)) - 1;
    else if (style == 2) mask = r.next() & r.next() & 0xffff;
    else mask = (r.next() & 0x3f) | (1ULL << r.range(0, 9));
  }
  p.cfg["mask"] = (int64_t)mask;
  int nprod = (int)r.range(1, 3);
  p.threads.resize((size_t)nprod + 1);
  int opid = 0;
  auto add = [&](int t, int kind, int64_t a = 0) { Op o; o.kind = kind; o.a = a; o.id = opid++; p.threads[(size_t)t].push_back(o); };
  static const int64_t sleeps[] = {200, 1000, 5000, 50000, 1200000, 4000000};
  for (int t = 1; t <= nprod; t++) {
    int n = (int)r.range(1, gp.thorough ? 8 : 6);
    for (int i = 0; i < n; i++) {
      if (r.chance(1, 3)) add(t, K_SLEEP, sleeps[r.below(6)]);
      if (r.chance(1, 12)) add(t, K_SIGNAL);
      add(t, K_EXEC, (int64_t)r.below(2));
    }
  }
  int nmain = (int)r.below(4);
  for (int i = 0; i < nmain; i++) {
    if (r.chance(2, 3)) add(0, K_SLEEP, sleeps[r.below(6)]);
    if (r.chance(1, 8)) add(0, K_SIGNAL); else add(0, K_JOIN);
  }
}

const char* const kShrink[] = {"cap", "csleep", "cyield", nullptr};

}  // namespace

const Harness sim::g_harness = {"execq", kNames, gen, run, kShrink, 0};
