// Harness "executor": C07 — an accepted task runs exactly once on a thread of
// its executor; stop()/destructor drains submitted work; a refused submission
// never runs and yields an invalid future.   DESIGN.md §3 C07.
#include <babylon/executor.h>

#include <chrono>
#include <memory>
#include <vector>

#include "common.h"

using namespace sim;
using babylon::CoroutineTask;

namespace {

enum Kind { K_EXECUTE, K_SUBMIT, K_CO_EXECUTE, K_CO_SUBMIT, K_PAUSE, nullK };
const char* const kNames[] = {"execute", "submit", "co_execute", "co_submit", "pause", nullptr};

struct TaskRec {
  int id = 0, parent = -1, kind = 0;
  int children = 0, grandchildren = 0, sleep_us = 0; bool spawn_first = false;
  bool attempted = false, accepted = false, refused = false;
  uint64_t submit_ret = 0;       // stamp when the submission call returned
  bool local_spawn = false;      // went into the submitting worker's local queue
  int runs = 0; bool finished = false; bool in_exec = true;
  bool has_future = false; babylon::Future<uint64_t> fut;
  int frame_dtor = 0;            // coroutine tasks: parameter object destroyed how often
};

thread_local bool tl_refused_now = false;  // set by the faulty executor, consumed by the submitting call on the same thread
struct FaultyExecutor : public babylon::Executor {
  std::vector<int> fail_attempts;  // attempt numbers that are refused
  int attempt = 0;
  int invoke(babylon::MoveOnlyFunction<void(void)>&& function) noexcept override {
    int a = attempt++;
    for (int f : fail_attempts) if (f == a) { fault_fired("executor_refused"); tl_refused_now = true; return -1; }
    RunnerScope scope {*this};
    function();
    return 0;
  }
};

struct State {
  int type = 0;  // 0 pool, 1 new-thread, 2 inplace, 3 faulty
  babylon::ThreadPoolExecutor* pool = nullptr;
  FaultyExecutor faulty;
  babylon::Executor* ex = nullptr;
  std::vector<TaskRec*> tasks;
  size_t local_capacity = 0;
  bool stopping = false;
  uint64_t stop_inv = 0;
  bool stop_returned = false;
};
State* S;

uint64_t value_of(int id) { return 7000 + (uint64_t)id * 3; }

struct FrameGuard {
  TaskRec* t;
  explicit FrameGuard(TaskRec* x) : t(x) {}
  FrameGuard(FrameGuard&& o) noexcept : t(o.t) { o.t = nullptr; }
  FrameGuard(const FrameGuard&) = delete;
  ~FrameGuard() { if (t) t->frame_dtor++; }
};

TaskRec* new_task(int parent, int children, int grandchildren, int sleep_us, int kind) {
  TaskRec* t = new TaskRec();
  t->id = (int)S->tasks.size(); t->parent = parent; t->children = children; t->grandchildren = grandchildren; t->sleep_us = sleep_us; t->kind = kind;
  S->tasks.push_back(t);
  return t;
}

void submit_task(TaskRec* t);

uint64_t body(TaskRec* t) {
  if (S->stop_returned && S->type != 2 && S->type != 3) fail("ran-after-stop", "task", "task %d started after stop() had returned", t->id);
  t->runs++;
  if (t->runs > 1) fail("ran-twice", "task", "task %d ran %d times", t->id, t->runs);
  if (!t->accepted && !t->attempted) fail("ran-unsubmitted", "task", "task %d ran without being submitted", t->id);
  if (t->refused) fail("ran-refused", "task", "task %d ran although its submission was refused", t->id);
  if (!S->ex->is_running_in()) { t->in_exec = false; fail("wrong-thread", "is_running_in", "task %d runs on a thread that does not report is_running_in() for its executor", t->id); }
  // either work first and spawn at the end, or spawn first and keep the worker
  // busy while the children sit in its local queue (to be stolen or balanced)
  if (t->sleep_us > 0 && !t->spawn_first) ::usleep((useconds_t)t->sleep_us);
  for (int i = 0; i < t->children; i++) {
    TaskRec* c = new_task(t->id, t->grandchildren, 0, 0, K_SUBMIT);
    submit_task(c);
  }
  if (t->sleep_us > 0 && t->spawn_first) ::usleep((useconds_t)t->sleep_us);
  sim::yield_point();
  t->finished = true;
  return value_of(t->id);
}

CoroutineTask<uint64_t> co_body(TaskRec* t, FrameGuard g) {
  (void)g;
  co_return body(t);
}

void submit_task(TaskRec* t) {
  babylon::Executor& ex = *S->ex;
  t->attempted = true;
  // placement is decided by the executor exactly like this (only the owning
  // worker pushes into its local queue, so the answer cannot change in between)
  if (S->type == 0 && ex.is_running_in() && S->local_capacity > 0 &&
      S->pool->_local_task_queues.local().size() < S->local_capacity) {
    t->local_spawn = true;
    probe("spawned_local");
  }
  int rc = 0;
  switch (t->kind) {
    case K_EXECUTE:
      t->fut = ex.execute([t] { return body(t); });
      t->has_future = true;
      rc = t->fut.valid() ? 0 : -1;
      break;
    case K_SUBMIT:
      rc = ex.submit([t] { body(t); });
      break;
    case K_CO_EXECUTE:
      t->fut = ex.execute(co_body, t, FrameGuard(t));
      t->has_future = true;
      rc = t->fut.valid() ? 0 : -1;
      break;
    case K_CO_SUBMIT:
      rc = ex.submit(co_body, t, FrameGuard(t));
      break;
  }
  t->submit_ret = stamp();
  if (S->type == 3 && tl_refused_now) {
    // the executor refused this very submission
    tl_refused_now = false;
    t->refused = true;
    if (rc == 0)
      fail("refused-not-reported", kNames[t->kind], "the executor refused the submission of task %d but %s reported success (%s)", t->id, kNames[t->kind],
           t->has_future ? "returned a valid future, which can never become ready" : "returned 0");
    return;
  }
  if (rc == 0) t->accepted = true; else t->refused = true;
}

void do_op(int t, const Op& op) {
  (void)t;
  if (op.kind == K_PAUSE) { ::usleep((useconds_t)std::max<int64_t>(1, std::min<int64_t>(op.a, 3000))); return; }
  if (S->stopping) return;  // client contract: no submissions once stop() is being called
  int children = (int)(op.a & 3), grand = (int)((op.a >> 2) & 1);
  if (children > 2) children = 2;
  TaskRec* r = new_task(-1, children, grand, (int)std::max<int64_t>(0, std::min<int64_t>(op.b, 2000)), op.kind);
  r->spawn_first = (op.a >> 3) & 1;
  submit_task(r);
}

void gen(Rng& r, Plan& p, const GenParams& gp) {
  gen_common(r, p, SB_HALF, false, 4000);
  int type = gp.mode >= 0 ? gp.mode % 4 : (int)(r.chance(7, 10) ? 0 : r.range(1, 3));
  p.cfg["type"] = type;
  p.cfg["workers"] = (int64_t)r.range(1, 3);
  p.cfg["global_cap"] = (int64_t)r.range(1, 4);
  p.cfg["local_cap"] = (int64_t)r.range(0, 3);
  p.cfg["steal"] = (int64_t)r.below(2);
  p.cfg["balance_us"] = r.chance(1, 2) ? (int64_t)r.range(20, 400) : -1;
  int stop_mode = (int)r.below(4);  // 0,1: stop after submitters; 2: destructor; 3: stop while submitters run
  p.cfg["stop_mode"] = stop_mode;
  p.cfg["stop_after_us"] = (int64_t)r.range(0, 800);
  p.cfg["max_idle_jumps"] = 6000;
  int nsub = (int)r.range(1, 2);
  p.threads.resize((size_t)nsub + 1);
  int opid = 0;
  int budget = gp.thorough ? 8 : 6;
  if (stop_mode == 3) budget = std::min<int64_t>(budget, p.cfg["global_cap"] * 2 - 1);  // pushes must never block
  for (int t = 1; t <= nsub; t++) {
    int n = (int)r.range(1, 4);
    for (int i = 0; i < n && budget > 0; i++) {
      Op o;
      static const int ks[] = {K_EXECUTE, K_EXECUTE, K_SUBMIT, K_CO_EXECUTE, K_CO_SUBMIT};
      o.kind = ks[r.below(5)];
      int children = stop_mode == 3 ? 0 : (int)r.below(3);
      o.a = children | ((int64_t)r.below(2) << 2) | ((int64_t)r.below(2) << 3);
      o.b = r.chance(1, 3) ? (int64_t)r.range(1, 500) : 0;
      o.id = opid++;
      p.threads[(size_t)t].push_back(o);
      budget -= 1;
      if (r.chance(1, 4)) { Op q; q.kind = K_PAUSE; q.a = (int64_t)r.range(1, 600); q.id = opid++; p.threads[(size_t)t].push_back(q); }
    }
  }
  // A worker that blocks pushing a spawned task into a full global queue can
  // only be helped by other workers; with every worker doing so the pool
  // deadlocks by construction (bounded queue + spawning from workers — a sizing
  // error of the client, not covered by the property). Plans with spawning tasks
  // therefore get a global queue that can hold everything; plans without
  // spawning keep small queues (external submitters block on a full queue).
  {
    int64_t total = 0, desc = 0;
    for (auto& th : p.threads)
      for (auto& o : th)
        if (o.kind != K_PAUSE) { int64_t c = std::min<int64_t>(o.a & 3, 2); total += 1 + c + c * ((o.a >> 2) & 1); desc += c; }
    if (desc > 0) {
      int64_t need = total + p.cfg["workers"] + 1;
      if (p.cfg["global_cap"] * 2 < need) p.cfg["global_cap"] = (need + 1) / 2;
    }
  }
  if (type == 0 && !(gp.mode >= 0) && r.chance(1, 25)) {
    // wide pool: more workers than one 128-entry block of the per-thread local
    // queue storage, so steal sweeps and balance sweeps cross a block boundary.
    // Parents leave a child in their local queue and keep running for a while.
    p.cfg["workers"] = (int64_t)r.range(130, 138);
    p.cfg["local_cap"] = 2; p.cfg["steal"] = 1; p.cfg["balance_us"] = -1;
    p.cfg["stop_mode"] = 0; p.cfg["wide"] = 1;
    p.cfg["max_idle_jumps"] = 20000;
    for (auto& th : p.threads) th.clear();
    p.threads.resize(2);
    int nparents = (int)r.range(10, 14);
    for (int i = 0; i < nparents; i++) { Op o; o.kind = K_SUBMIT; o.a = 1 | 8; o.b = (int64_t)r.range(200, 600); o.id = i; p.threads[1].push_back(o); }
    p.cfg["global_cap"] = 64;
  }
  else if (type == 0 && !(gp.mode >= 0) && r.chance(1, 12)) {
    // balance pressure: a tiny global queue kept full by external submitters
    // (who may block, they are not workers) while parents put children into
    // their local queue — never more than its capacity and no grandchildren, so
    // no worker ever pushes into the global queue — and the balance thread
    // moves them to the global queue, blocking in the middle of a transfer.
    int64_t lc = r.chance(1, 2) ? 1 : 2;
    p.cfg["workers"] = (int64_t)r.range(1, 2);
    p.cfg["local_cap"] = lc; p.cfg["steal"] = (int64_t)r.below(2);
    p.cfg["balance_us"] = (int64_t)r.range(5, 60);
    p.cfg["global_cap"] = (int64_t)r.range(1, 2);
    p.cfg["stop_mode"] = (int64_t)r.below(2);
    for (auto& th : p.threads) th.clear();
    p.threads.resize(3);
    int id = 0;
    int nparents = (int)r.range(2, 3), nplain = (int)r.range(3, 6);
    for (int i = 0; i < nparents; i++) { Op o; o.kind = K_SUBMIT; o.a = lc | 8; o.b = (int64_t)r.range(50, 300); o.id = id++; p.threads[1].push_back(o); }
    for (int i = 0; i < nplain; i++) { Op o; o.kind = r.chance(1, 2) ? K_SUBMIT : K_EXECUTE; o.a = 0; o.b = (int64_t)r.below(100); o.id = id++; p.threads[2].push_back(o); }
    p.cfg["pressure"] = 1;
  }
  // faulty executor: which attempts are refused
  p.cfg["fail_mask"] = (int64_t)r.below(64);
}

void check_done(bool pool_like) {
  for (TaskRec* t : S->tasks) {
    if (!t->attempted) continue;
    if (t->refused) {
      if (t->runs) fail("ran-refused", "task", "task %d ran although its submission was refused", t->id);
      if (t->has_future && t->fut.valid()) fail("refused-valid-future", kNames[t->kind], "submission of task %d was refused by the executor but %s returned a valid future (which can never become ready)", t->id, kNames[t->kind]);
      if ((t->kind == K_CO_EXECUTE || t->kind == K_CO_SUBMIT) && t->frame_dtor != 1) fail("frame", "refused-coroutine", "coroutine frame of refused task %d destroyed %d times", t->id, t->frame_dtor);
      continue;
    }
    bool required = true;
    if (pool_like) {
      required = t->submit_ret < S->stop_inv;
      if (t->local_spawn && t->parent >= 0 && S->tasks[(size_t)t->parent]->runs) required = true;
    }
    if (required && t->runs != 1)
      fail("not-run", t->local_spawn ? "local-queue-task" : (t->parent >= 0 ? "spawned-task" : "submitted-task"),
           "task %d (%s, parent %d) was accepted before stop() was called but had run %d times when stop()/join returned", t->id, kNames[t->kind], t->parent, t->runs);
    if (required && !t->finished) fail("not-finished", "task", "task %d had not finished when stop()/join returned", t->id);
    if (t->runs > 1) fail("ran-twice", "task", "task %d ran %d times", t->id, t->runs);
    if (required && t->has_future) {
      if (!t->fut.valid()) fail("future", "invalid", "accepted task %d has an invalid future", t->id);
      if (!t->fut.wait_for(std::chrono::nanoseconds(0))) fail("future", "not-ready", "future of task %d is not ready although stop()/join returned", t->id);
      if (t->fut.get() != value_of(t->id)) fail("future", "value", "future of task %d holds %llu", t->id, (unsigned long long)t->fut.get());
    }
    if ((t->kind == K_CO_EXECUTE || t->kind == K_CO_SUBMIT) && t->runs == 1 && t->frame_dtor != 1) fail("frame", "coroutine", "coroutine frame parameter of task %d destroyed %d times", t->id, t->frame_dtor);
    if (!required) probe("optional_task");
  }
}

void run(const Plan& p) {
  S = new State();
  State& s = *S;
  s.type = (int)p.get("type", 0) & 3;
  hx::Workers w;
  if (s.type == 0) {
    s.pool = new babylon::ThreadPoolExecutor();
    s.pool->set_worker_number((size_t)std::max<int64_t>(1, std::min<int64_t>(p.get("workers", 1), p.get("wide", 0) ? 140 : 3)));
    if (p.get("wide", 0)) probe("wide_pool");
    if (p.get("pressure", 0)) probe("balance_pressure");
    s.pool->set_global_capacity((size_t)std::max<int64_t>(1, std::min<int64_t>(p.get("global_cap", 1), 64)));
    s.local_capacity = (size_t)std::max<int64_t>(0, std::min<int64_t>(p.get("local_cap", 0), 4));
    s.pool->set_local_capacity(s.local_capacity);
    s.pool->set_enable_work_stealing(p.get("steal", 0) != 0);
    if (p.get("balance_us", -1) >= 0) s.pool->set_balance_interval(std::chrono::microseconds(p.get("balance_us", 1000)));
    if (s.pool->start() != 0) fail("api", "start", "start() failed");
    s.ex = s.pool;
  } else if (s.type == 1) {
    s.ex = &babylon::AlwaysUseNewThreadExecutor::instance();
  } else if (s.type == 2) {
    s.ex = &babylon::InplaceExecutor::instance();
  } else {
    int64_t mask = p.get("fail_mask", 0);
    for (int i = 0; i < 6; i++) if (mask & (1 << i)) s.faulty.fail_attempts.push_back(i);
    s.ex = &s.faulty;
  }
  if (s.ex->is_running_in()) fail("wrong-thread", "is_running_in", "an external thread reports is_running_in()");
  int stop_mode = (int)p.get("stop_mode", 0);
  w.start(p, [](int t, const Op& op) { do_op(t, op); }, 1);
  if (s.type == 0) {
    if (stop_mode == 3) {
      ::usleep((useconds_t)std::max<int64_t>(1, p.get("stop_after_us", 100)));
      s.stopping = true;
      sim::drain();
      // let submissions that are already inside the executor finish their push
      // (a client must not call stop() concurrently with submissions)
      wait_quiescent();
    } else {
      w.join();
    }
    s.stopping = true;
    s.stop_inv = stamp();
    if (stop_mode == 2) { delete s.pool; } else s.pool->stop();
    s.stop_returned = true;
    w.join();
    check_done(true);
    if (stop_mode != 2) delete s.pool;
  } else if (s.type == 1) {
    w.join();
    s.stop_inv = stamp();
    babylon::AlwaysUseNewThreadExecutor::instance().join();
    check_done(false);
  } else {
    w.join();
    s.stop_inv = stamp();
    check_done(false);
  }
  while (others_alive() > 0) ::usleep(1000);
  size_t ran = 0;
  for (TaskRec* t : s.tasks) ran += (size_t)t->runs;
  if (ran) probe("tasks_run", ran);
}

const char* const kShrink[] = {"workers", "local_cap", nullptr};
}  // namespace

const Harness sim::g_harness = {"executor", kNames, gen, run, kShrink, 0};
