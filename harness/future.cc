// Harness "future": Future / Promise / CountDownLatch — C08.
// DESIGN.md §3 C08.
//
// One setter (or, for the latch, n count-down calls spread over threads) and
// 1-4 observer threads that work on copies of the future: get, wait_for(t),
// on_finish, then (chained), ready/valid.  Whether an observer operation lands
// before, after or inside set_value is decided by drawn virtual sleeps plus the
// scheduler.
#include <babylon/future.h>

#include <algorithm>
#include <chrono>
#include <memory>
#include <string>
#include <vector>

#include "common.h"

using namespace sim;

namespace {

enum Kind { K_SET, K_COUNT_DOWN, K_GET, K_WAIT_FOR, K_ON_FINISH, K_THEN, K_READY, K_SLEEP, K_JUMP };
const char* const kNames[] = {"set_value", "count_down", "get", "wait_for", "on_finish", "then", "ready", "sleep", "clock_jump", nullptr};

enum ValueType { VT_INT, VT_STRING, VT_UNIQUE, VT_VOID, VT_REF, VT_CELL, VT_LATCH, VT_INT_M2, VT_COUNT };

// wait_for timeouts (ns). Index >= kFirstOverflow: now + t does not fit in int64.
// (FutureContext::wait_for_slow computes until_ns = now + timeout_ns, which
// overflows for these; the remaining time is then until_ns - now', and with
// two's complement wrap-around the two errors cancel, so the observable result
// is correct. Formal signed-overflow UB only; the harness keeps drawing them in
// 1/5 of the runs (cfg ovf) and would report class early-timeout, site
// wait_for-huge if such a wait ever returned false early.)
const int64_t kYear100 = 3153600000000000000LL;
const int64_t kTimeouts[] = {-1000, INT64_MIN, 0, 1000, 1000000, 10000000000LL, kYear100, INT64_MAX - 999, INT64_MAX};
const int kNTimeouts = 9, kFirstOverflow = 7;
const int64_t kHuge = (int64_t)1 << 61;

struct Reg {          // one registered callback
  int id = 0, owner_tid = -1, opid = 0;
  int runs = 0;       // invocations
  int live = 0;       // live captured tokens (callback object instances)
  bool in_call = false;  // owner is inside the registering operation
  const char* what = "";
};

struct Mark { int tid; uint32_t clock; };

struct State {
  int vt = 0;
  uint64_t val = 0;
  std::string sval;
  bool set_invoked = false;    // set_value invoked / every count_down invoked
  bool constructed = false;    // the Cell value object finished its constructor
  bool set_returned = false;   // set_value returned / every count_down returned
  std::vector<Mark> ret_marks;
  bool in_set[64] = {false};   // thread is inside set_value / count_down
  size_t latch_n = 0, cd_invoked = 0, cd_returned = 0;
  bool did_set = false;
  std::vector<Reg*> regs;
  int64_t ovf = 0;
};
State* S;

// Value object with a slow constructor: a callback that starts before the
// value is completely constructed sees constructed == false / broken chk.
struct Cell {
  uint64_t v = 0;
  uint64_t chk[3] = {0, 0, 0};
  Cell() = default;
  explicit Cell(uint64_t x) {
    v = x;
    sim::yield_point();
    for (int i = 0; i < 3; i++) chk[i] = hx::mixv(x, (uint64_t)i);
    sim::yield_point();
    if (S) S->constructed = true;
  }
  bool ok(uint64_t x) const {
    if (v != x) return false;
    for (int i = 0; i < 3; i++) if (chk[i] != hx::mixv(x, (uint64_t)i)) return false;
    return true;
  }
};

// A SchedInterface with futex_need_create() == true (second Futex<> flavour)
struct M2 : public babylon::SchedInterface {
  inline static constexpr bool futex_need_create() noexcept { return true; }
};

bool must_see() {
  if (!S->set_returned) return false;
  if (sim::config().storebuf == 0) return true;
  for (auto& m : S->ret_marks) if (!sim::happened_before_me(m.tid, m.clock)) return false;
  return true;
}
void mark_return() { S->ret_marks.push_back(Mark{tid(), sim::my_clock()}); }

// Token captured by every callback: counts live instances of the callback
// object (the CallbackNode's function) so that "node freed exactly once" is
// observable besides the heap verdicts.
struct Tok {
  Reg* r;
  uint32_t magic;
  explicit Tok(Reg* reg) : r(reg), magic(0x600DF00D) { r->live++; }
  Tok(Tok&& o) noexcept : r(o.r), magic(0x600DF00D) {
    if (o.magic != 0x600DF00D) fail("uaf", "callback-object", "callback object of registration %d (%s) moved from a destroyed instance", r->id, r->what);
    r->live++;
  }
  Tok(const Tok&) = delete;
  Tok& operator=(const Tok&) = delete;
  Tok& operator=(Tok&&) = delete;
  ~Tok() {
    if (magic != 0x600DF00D) fail("double-free", "callback-object", "callback object of registration %d (%s) destroyed twice", r->id, r->what);
    magic = 0xDEAD;
    if (--r->live < 0) fail("double-free", "callback-object", "more callback objects destroyed than created for registration %d", r->id);
  }
};

void cb_enter(const Tok& t) {
  Reg* r = t.r;
  if (t.magic != 0x600DF00D) fail("uaf", "callback-object", "callback of registration %d (%s) invoked on a destroyed callback object", r->id, r->what);
  if (r->runs++ > 0) fail("duplicate", "callback", "callback %d (%s, op %d of T%d) invoked %d times", r->id, r->what, r->opid, r->owner_tid, r->runs);
  if (!S->set_invoked) fail("early-callback", r->what, "callback %d started before set_value was invoked", r->id);
  if ((S->vt == VT_CELL || S->vt == VT_UNIQUE || S->vt == VT_REF) && !S->constructed)
    fail("early-callback", r->what, "callback %d started before the value's constructor finished", r->id);
  int me = tid();
  bool by_setter = me >= 0 && me < 64 && S->in_set[me];
  bool by_owner = me == r->owner_tid && r->in_call;
  if (!by_setter && !by_owner)
    fail("wrong-thread", "callback", "callback %d (%s) ran on T%d which is neither inside set_value nor the registering thread inside its registration", r->id, r->what, me);
  probe(by_setter ? "cb_run_by_setter" : "cb_run_inline");
  sim::yield_point();
}

Reg* new_reg(int opid, const char* what) {
  Reg* r = new Reg();
  r->id = (int)S->regs.size(); r->owner_tid = tid(); r->opid = opid; r->what = what; r->in_call = true;
  S->regs.push_back(r);
  return r;
}

std::string make_string(uint64_t v) {
  std::string s = "value-";
  for (int i = 0; i < 6; i++) s += std::to_string(hx::mixv(v, (uint64_t)i) % 100000007ULL);
  return s;  // > 15 chars: heap allocated
}

// ---------------------------------------------------------------------------
template <typename T, typename M>
struct Drv {
  typedef babylon::Future<T, M> Fut;
  typedef typename Fut::ResultType U;
  typedef typename std::remove_reference<U>::type V;
  static constexpr bool kVoid = std::is_void<T>::value;
  static constexpr bool kRef = std::is_lvalue_reference<T>::value;

  babylon::Promise<T, M>* promise = nullptr;
  babylon::CountDownLatch<M>* latch = nullptr;
  Fut master;
  Cell* refcell = nullptr;   // VT_REF target / VT_UNIQUE payload
  const void* reg1 = nullptr;
  const void* reg2 = nullptr;
  bool seen_ready[64] = {false};

  static void check_value(V& v, const char* site) {
    if constexpr (std::is_same<T, int>::value) {
      if (v != (int)(S->val & 0x7fffffff)) fail("wrong-value", site, "saw int %d, set value was %d", v, (int)(S->val & 0x7fffffff));
    } else if constexpr (std::is_same<T, std::string>::value) {
      if (v != S->sval) fail("wrong-value", site, "saw string '%s' (size %zu), set value was '%s'", v.c_str(), v.size(), S->sval.c_str());
    } else if constexpr (std::is_same<T, std::unique_ptr<Cell>>::value) {
      if (!v) fail("wrong-value", site, "saw a null unique_ptr");
      if (!v->ok(S->val)) fail("wrong-value", site, "move-only payload is %#llx, expected %#llx (or partial)", (unsigned long long)v->v, (unsigned long long)S->val);
    } else if constexpr (std::is_same<V, Cell>::value) {
      if (!v.ok(S->val)) fail("wrong-value", site, "cell is %#llx, expected %#llx (or partially constructed)", (unsigned long long)v.v, (unsigned long long)S->val);
    } else if constexpr (std::is_same<T, size_t>::value) {
      if (v != 0) fail("wrong-value", site, "latch future delivered %zu, expected 0", v);
    }
  }

  void setup() {
    if (S->vt == VT_LATCH) {
      latch = new babylon::CountDownLatch<M>(S->latch_n);
      if (S->latch_n == 0) { S->set_invoked = S->set_returned = true; mark_return(); }
      if constexpr (std::is_same<T, size_t>::value) master = latch->get_future();
    } else {
      promise = new babylon::Promise<T, M>();
      master = promise->get_future();
    }
    if (!master.valid()) fail("api", "valid", "future obtained from a promise is not valid");
    if (S->latch_n != 0 && master.ready()) fail("not-ready", "ready", "fresh future reports ready");
    Fut dflt;
    if (dflt.valid() || dflt.ready()) fail("api", "valid", "default constructed future is valid/ready");
    // publication of the value bytes must be ordered by happens-before
    auto* ctx = master._context.get();
    if (sizeof(typename babylon::FutureContext<T, M>::ValueType) > 0 && !kVoid) {
      reg1 = ctx->_storage;
      sim::hb_register(reg1, sizeof(typename babylon::FutureContext<T, M>::ValueType), "future-value");
    }
    if (S->vt == VT_REF || S->vt == VT_UNIQUE) {
      refcell = new Cell();
      reg2 = refcell;
      sim::hb_register(reg2, sizeof(Cell), "future-payload");
    }
  }

  void do_set(bool move_promise) {
    if constexpr (!std::is_same<T, size_t>::value) {
      if (S->did_set) return;  // a promise may be set only once
      S->did_set = true;
      int me = tid();
      babylon::Promise<T, M> local;
      babylon::Promise<T, M>* p = promise;
      if (move_promise) { local = std::move(*promise); p = &local; }
      if (S->vt == VT_REF || S->vt == VT_UNIQUE) new (refcell) Cell(S->val);
      S->set_invoked = true;
      S->in_set[me] = true;
      if constexpr (std::is_same<T, int>::value) p->set_value((int)(S->val & 0x7fffffff));
      else if constexpr (std::is_same<T, std::string>::value) { if (S->val & 1) p->set_value(S->sval); else p->set_value(S->sval.c_str(), S->sval.size()); }
      else if constexpr (std::is_same<T, std::unique_ptr<Cell>>::value) { p->set_value(std::unique_ptr<Cell>(refcell)); }
      else if constexpr (kVoid) p->set_value();
      else if constexpr (kRef) p->set_value(*refcell);
      else if constexpr (std::is_same<T, Cell>::value) p->set_value(S->val);
      S->in_set[me] = false;
      mark_return();
      S->set_returned = true;
      if (!p->ready()) fail("not-ready", "promise-ready", "Promise::ready() is false after set_value returned");
    }
  }

  void do_count_down(size_t down) {
    if constexpr (std::is_same<T, size_t>::value) {
      int me = tid();
      S->cd_invoked += down;
      if (S->cd_invoked > S->latch_n) sim::skip("count-down-overshoot");
      if (S->cd_invoked == S->latch_n) S->set_invoked = true;
      S->in_set[me] = true;
      if (down == 1 && (S->val & 2)) latch->count_down(); else latch->count_down(down);
      S->in_set[me] = false;
      mark_return();
      S->cd_returned += down;
      if (S->cd_returned == S->latch_n) S->set_returned = true;
    }
  }

  // build a callback of the drawn signature and hand it to use(cb)
  // (then() on a Future<T&> does not compile with an R(T&) callback in
  // babylon - ResultOfCallback only resolves for const T& / no-arg - so those
  // draws are mapped to const T&)
  template <typename Ret, bool kThen, typename Use>
  void with_cb(int variant, Reg* r, Use&& use) {
    constexpr bool kConstOnly = kRef && kThen;
    if (kConstOnly && (variant & 3) != 3) variant = 0;
    auto ret = [r]() -> Ret { if constexpr (!std::is_void<Ret>::value) return (Ret)hx::mixv(S->val, (uint64_t)r->id + 1000); };
    if constexpr (kVoid) {
      use([tok = Tok(r), ret]() mutable -> Ret { cb_enter(tok); return ret(); });
    } else {
      switch (variant & 3) {
        case 0:
          use([tok = Tok(r), ret](const V& v) mutable -> Ret { cb_enter(tok); check_value(const_cast<V&>(v), tok.r->what); return ret(); });
          break;
        case 2:
          if constexpr (!kRef) {
            use([tok = Tok(r), ret](V&& v) mutable -> Ret { cb_enter(tok); check_value(v, tok.r->what); return ret(); });
            break;
          }
          [[fallthrough]];
        case 1:
          if constexpr (!kConstOnly) {
            use([tok = Tok(r), ret](V& v) mutable -> Ret { cb_enter(tok); check_value(v, tok.r->what); return ret(); });
          }
          break;
        default:
          use([tok = Tok(r), ret]() mutable -> Ret { cb_enter(tok); return ret(); });
          break;
      }
    }
  }

  void op_get(Fut f) {
    bool must = must_see();
    U& r = f.get();
    if (!S->set_invoked) fail("not-ready", "get", "get() returned before set_value was invoked");
    if constexpr (!kVoid) check_value(r, "get"); else (void)r;
    if (!f.ready()) fail("not-ready", "get", "get() returned but ready() is false");
    probe(must ? "get_after_set" : "get_before_or_racing_set");
  }

  template <typename F2>
  static bool call_wait_for(F2& f, int64_t t, int unit) {
    if (unit == 1 && t % 1000 == 0) return f.wait_for(std::chrono::microseconds(t / 1000));
    if (unit == 2 && t % 1000000 == 0) return f.wait_for(std::chrono::milliseconds(t / 1000000));
    if (unit == 3 && t % 1000000000 == 0) return f.wait_for(std::chrono::seconds(t / 1000000000));
    return f.wait_for(std::chrono::nanoseconds(t));
  }

  void op_wait_for(Fut f, int64_t idx, int unit) {
    if (idx < 0) idx = 0;
    if (idx >= kNTimeouts) idx = kNTimeouts - 1;
    if (!S->ovf && idx >= kFirstOverflow) idx = kFirstOverflow - 1;
    int64_t t = kTimeouts[idx];
    bool must = must_see();
    bool invoked_before = S->set_invoked;
    int64_t t0 = now_ns();
    bool ok = call_wait_for(f, t, unit);
    int64_t t1 = now_ns();
    if (ok) {
      if (!S->set_invoked) fail("not-ready", "wait_for-true", "wait_for(%lld ns) returned true before set_value was even invoked", (long long)t);
      if (!f.ready()) fail("not-ready", "wait_for-true", "wait_for(%lld ns) returned true but the future is not ready", (long long)t);
      probe(invoked_before ? "wait_for_true" : "wait_for_true_after_blocking");
      if (!invoked_before && t >= kHuge) probe(idx >= kFirstOverflow ? "wait_for_overflowing_true_after_blocking" : "wait_for_100y_true_after_blocking");
    } else {
      if (must) fail("missed-ready", "wait_for", "wait_for(%lld ns) returned false although set_value had returned before the call", (long long)t);
      if (t > 0 && t1 - t0 < t)
        fail("early-timeout", t >= kHuge ? "wait_for-huge" : "wait_for", "wait_for(%lld ns) returned false after only %lld ns of virtual time (future %s at return)", (long long)t, (long long)(t1 - t0), f.ready() ? "ready" : "not ready");
      probe(t > 0 ? "wait_for_timed_out" : "wait_for_false_nonpositive");
    }
  }

  void op_on_finish(Fut f, int variant, int opid) {
    Reg* r = new_reg(opid, "on_finish");
    bool before = !S->set_invoked, after = S->set_returned;
    with_cb<void, false>(variant, r, [&](auto&& cb) { f.on_finish(std::move(cb)); });
    r->in_call = false;
    if (must_see_at(after) && r->runs != 1) fail("lost", "on_finish", "on_finish after set_value returned did not run the callback inline (runs=%d)", r->runs);
    probe(before ? "register_before_set" : after ? "register_after_set" : "register_racing_set");
  }
  static bool must_see_at(bool returned_before) { return returned_before && must_see(); }

  void op_then(Fut f, int variant, int shape, int opid) {
    bool ret_void = shape & 1, chain = shape & 2, getres = shape & 4;
    Reg* r1 = new_reg(opid, "then");
    Reg* r2 = chain ? new_reg(opid, "then-chained") : nullptr;
    bool before = !S->set_invoked, after = S->set_returned;
    auto finish = [&](auto& last, bool last_void, uint64_t expect) {
      if (!last.valid()) fail("api", "then", "then() returned an invalid future");
      if (!getres) return;
      // the chained future becomes ready only through the callback chain
      auto& res = last.get();
      if (r1->runs != 1 || (r2 && r2->runs != 1)) fail("not-ready", "then-get", "future returned by then() became ready before its callback ran");
      if constexpr (std::is_same<typename std::decay<decltype(last)>::type, babylon::Future<uint64_t, M>>::value) {
        if (!last_void && res != expect) fail("wrong-value", "then-get", "future returned by then() delivered %#llx, expected %#llx", (unsigned long long)res, (unsigned long long)expect);
      } else {
        (void)res; (void)expect; (void)last_void;
      }
      if (!last.wait_for(std::chrono::nanoseconds(0))) fail("missed-ready", "then-wait_for", "wait_for(0) false on a ready then-future");
      probe("then_result_get");
    };
    if (ret_void) {
      with_cb<void, true>(variant, r1, [&](auto&& cb) {
        babylon::Future<void, M> f2 = f.then(std::move(cb));
        if (chain) {
          babylon::Future<void, M> f3 = f2.then([tok = Tok(r2)]() mutable { cb_enter(tok); });
          finish(f3, true, 0);
        } else finish(f2, true, 0);
      });
    } else {
      uint64_t x1 = hx::mixv(S->val, (uint64_t)r1->id + 1000);
      with_cb<uint64_t, true>(variant, r1, [&](auto&& cb) {
        babylon::Future<uint64_t, M> f2 = f.then(std::move(cb));
        if (chain) {
          uint64_t x2 = x1 ^ 0x5555;
          babylon::Future<uint64_t, M> f3 = f2.then([tok = Tok(r2), x1](uint64_t&& v) mutable -> uint64_t {
            cb_enter(tok);
            if (v != x1) fail("wrong-value", "then-chained", "chained callback received %#llx, first callback returned %#llx", (unsigned long long)v, (unsigned long long)x1);
            return v ^ 0x5555;
          });
          finish(f3, false, x2);
        } else finish(f2, false, x1);
      });
    }
    r1->in_call = false;
    if (r2) r2->in_call = false;
    if (must_see_at(after) && (r1->runs != 1 || (r2 && r2->runs != 1))) fail("lost", "then", "then() after set_value returned did not run its callback(s) inline");
    probe(before ? "register_before_set" : after ? "register_after_set" : "register_racing_set");
    if (chain) probe("then_chained");
  }

  void op_ready(Fut f) {
    int me = tid();
    bool must = must_see();
    if (!f.valid() || !static_cast<bool>(f)) fail("api", "valid", "copy of a valid future is not valid");
    bool r = f.ready();
    if (r && !S->set_invoked) fail("not-ready", "ready", "ready() is true before set_value was invoked");
    if (!r && must) fail("missed-ready", "ready", "ready() is false although set_value had returned before the call");
    if (me >= 0 && me < 64) {
      if (seen_ready[me] && !r) fail("not-ready", "ready-regressed", "ready() went from true to false");
      seen_ready[me] = r;
    }
    if (S->vt == VT_LATCH && r && S->cd_invoked != S->latch_n) fail("not-ready", "latch", "latch future ready although only %zu of %zu were counted down", S->cd_invoked, S->latch_n);
  }

  void do_op(const Op& op) {
    switch (op.kind) {
      case K_SET: do_set(op.a & 1); break;
      case K_COUNT_DOWN: do_count_down((size_t)std::max<int64_t>(1, std::min<int64_t>(op.a, 2))); break;
      case K_GET: op_get(master); break;
      case K_WAIT_FOR: op_wait_for(master, op.a, (int)(op.b & 3)); break;
      case K_ON_FINISH: op_on_finish(master, (int)op.a, op.id); break;
      case K_THEN: op_then(master, (int)op.a, (int)op.b, op.id); break;
      case K_READY: op_ready(master); break;
      case K_SLEEP: sim::sleep_ns(std::max<int64_t>(0, std::min<int64_t>(op.a, 30000000000LL))); break;
      case K_JUMP: if (sim::config().faults) sim::clock_jump(std::max<int64_t>(1, std::min<int64_t>(op.a, 400000000000LL))); break;
      default: break;
    }
  }

  void run(const Plan& p) {
    setup();
    hx::Workers w;
    w.start(p, [this](int, const Op& op) { do_op(op); }, 1);
    w.join();
    // everything returned and was joined: happens-before holds for thread 0
    if (!S->set_returned) fail("harness", "plan", "set_value never returned");
    if (!must_see()) fail("harness", "hb", "joined threads are not ordered before the main thread");
    for (Reg* r : S->regs) {
      if (r->runs != 1) fail(r->runs == 0 ? "lost" : "duplicate", "callback", "callback %d (%s, op %d of T%d) ran %d times by the time every thread was joined", r->id, r->what, r->opid, r->owner_tid, r->runs);
      if (r->live != 0) fail("leak", "callback-object", "%d instance(s) of callback object %d (%s) still alive after it ran and every thread was joined: its node was not freed", r->live, r->id, r->what);
    }
    {
      sim::OpScope sc(100000);
      op_ready(master);
      op_get(master);
      op_wait_for(master, 0, 0);
      op_wait_for(master, 2, 0);
      op_on_finish(master, 0, 100000);
      op_then(master, 1, 6, 100000);
      if (S->regs[S->regs.size() - 1]->runs != 1) fail("lost", "then", "then() on a ready future did not run inline");
    }
    if (reg1) sim::hb_unregister(reg1);
    if (reg2) sim::hb_unregister(reg2);
    master = Fut();
    delete promise;
    delete latch;
    if (S->vt == VT_REF) delete refcell;
    for (Reg* r : S->regs)
      if (r->live != 0) fail("leak", "callback-object", "callback object %d still alive after the future context was destroyed", r->id);
  }
};

template <typename T, typename M>
void run_typed(const Plan& p) {
  Drv<T, M>* d = new Drv<T, M>();
  d->run(p);
  delete d;
}

// A promise that is the only owner of the shared state (no future copy kept),
// callbacks registered through the promise, and a callback in the middle of the
// chain that drops that owner (frees the object holding the promise, or re-arms
// it with a fresh one) while set_value() is still running the chain: the
// callbacks after it must still see the value (Promise::set_value keeps the
// state alive for the duration of the call).
void run_lonely(int mode) {
  struct Holder { babylon::Promise<std::string> pr; };
  Holder* h = new Holder();
  const std::string expect = S->sval + std::string(40, 'x');
  int seen = 0;
  auto check = [&](const std::string& v, const char* who) {
    if (v != expect) fail("value", "callback-after-owner-dropped", "the %s callback of a promise whose owner was dropped by an earlier callback read a wrong value", who);
    seen++;
  };
  h->pr.on_finish([&](std::string& v) { check(v, "last"); });        // registered first: runs last
  h->pr.on_finish([&](std::string& v) {
    check(v, "dropping");
    if (mode == 1) { delete h; h = nullptr; probe("owner_freed_in_callback"); }
    else { h->pr = babylon::Promise<std::string>(); probe("promise_rearmed_in_callback"); }
    yield_point();
  });
  h->pr.on_finish([&](std::string& v) { check(v, "first"); });       // runs first
  set_crash_site("set_value-owner-dropped-in-callback");
  std::thread setter([&] { h->pr.set_value(expect); });
  setter.join();
  set_crash_site(nullptr);
  if (seen != 3) fail("callback-count", "owner-dropped", "%d of 3 callbacks ran when the owner of the promise was dropped inside the chain", seen);
  delete h;
}

void run(const Plan& p) {
  uint64_t live0 = sim::heap_live_blocks();
  S = new State();
  S->vt = (int)std::max<int64_t>(0, std::min<int64_t>(p.get("vt", 0), VT_COUNT - 1));
  S->val = (uint64_t)p.get("val", 12345) | 0x100;
  S->sval = make_string(S->val);
  S->ovf = p.get("ovf", 0);
  size_t nset = 0;
  for (auto& t : p.threads)
    for (auto& op : t) {
      if (op.kind == K_SET) nset++;
      if (op.kind == K_COUNT_DOWN) S->latch_n += (size_t)std::max<int64_t>(1, std::min<int64_t>(op.a, 2));
    }
  if (S->vt != VT_LATCH && nset == 0) sim::skip("no-setter");
  if (p.get("lonely", 0)) run_lonely((int)p.get("lonely", 1));
  switch (S->vt) {
    case VT_INT: run_typed<int, babylon::SchedInterface>(p); break;
    case VT_STRING: run_typed<std::string, babylon::SchedInterface>(p); break;
    case VT_UNIQUE: run_typed<std::unique_ptr<Cell>, babylon::SchedInterface>(p); break;
    case VT_VOID: run_typed<void, babylon::SchedInterface>(p); break;
    case VT_REF: run_typed<Cell&, babylon::SchedInterface>(p); break;
    case VT_CELL: run_typed<Cell, babylon::SchedInterface>(p); break;
    case VT_LATCH: run_typed<size_t, babylon::SchedInterface>(p); break;
    default: run_typed<int, M2>(p); break;
  }
  for (Reg* r : S->regs) delete r;
  delete S;
  S = nullptr;
  uint64_t live1 = sim::heap_live_blocks();
  if (live1 != live0) fail("leak", "heap-balance", "%llu heap blocks live before the run, %llu after everything was destroyed", (unsigned long long)live0, (unsigned long long)live1);
}

void gen(Rng& r, Plan& p, const GenParams& gp) {
  bool faults = gp.mode == 1 || (gp.mode < 0 && r.chance(1, 3));
  gen_common(r, p, SB_HALF, faults, 500);
  if (faults) { static const int jd[] = {0, 0, 300, 2000}; p.cfg["jump_den"] = jd[r.below(4)]; }
  static const int vts[] = {VT_INT, VT_INT, VT_STRING, VT_STRING, VT_UNIQUE, VT_VOID, VT_REF, VT_CELL, VT_CELL, VT_LATCH, VT_LATCH, VT_INT_M2};
  int vt = vts[r.below(12)];
  p.cfg["vt"] = vt;
  p.cfg["val"] = (int64_t)(r.next() >> 8);
  p.cfg["ovf"] = r.chance(1, 5);
  p.cfg["lonely"] = r.chance(1, 8) ? (int64_t)r.range(1, 2) : 0;
  int opid = 0;
  auto add = [&](int t, int kind, int64_t a = 0, int64_t b = 0) {
    if ((size_t)t >= p.threads.size()) p.threads.resize((size_t)t + 1);
    Op o; o.kind = kind; o.a = a; o.b = b; o.id = opid++; p.threads[(size_t)t].push_back(o);
  };
  static const int64_t sleeps[] = {100, 300, 1000, 3000, 20000, 1000000, 20000000000LL};
  auto maybe_sleep = [&](int t, int num, int den) { if (r.chance((uint32_t)num, (uint32_t)den)) add(t, K_SLEEP, sleeps[r.below(7)]); };
  p.threads.resize(1);  // thread 0 = main, no ops
  int t = 1;
  if (vt == VT_LATCH) {
    int ncd = (int)r.range(1, 3);
    for (int i = 0; i < ncd; i++, t++) {
      int n = (int)r.range(1, 2);
      for (int j = 0; j < n; j++) { maybe_sleep(t, 1, 2); add(t, K_COUNT_DOWN, r.range(1, 2)); }
    }
  } else {
    maybe_sleep(t, 2, 3);
    add(t, K_SET, (int64_t)r.below(2));
    t++;
  }
  int nobs = (int)r.range(1, gp.thorough ? 5 : 4);
  for (int i = 0; i < nobs; i++, t++) {
    int nops = (int)r.range(1, gp.thorough ? 6 : 4);
    for (int j = 0; j < nops; j++) {
      maybe_sleep(t, 1, 3);
      int k = (int)r.below(faults ? 12 : 11);
      if (k < 2) add(t, K_GET);
      else if (k < 5) {
        int idx = (int)r.below(p.cfg["ovf"] ? kNTimeouts : kFirstOverflow);
        if (p.cfg["ovf"] && r.chance(1, 2)) idx = (int)r.range(kFirstOverflow, kNTimeouts - 1);
        add(t, K_WAIT_FOR, idx, (int64_t)r.below(4));
      } else if (k < 7) add(t, K_ON_FINISH, (int64_t)r.below(4));
      else if (k < 9) add(t, K_THEN, (int64_t)r.below(4), (int64_t)r.below(8));
      else if (k < 11) add(t, K_READY);
      else { static const int64_t js[] = {1000, 1000000, 50000000, 1000000000LL, 11000000000LL, 300000000000LL}; add(t, K_JUMP, js[r.below(6)]); }
    }
  }
}

const char* const kShrink[] = {"ovf", nullptr};

}  // namespace

const Harness sim::g_harness = {"future", kNames, gen, run, kShrink, 0};
