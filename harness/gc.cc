// Harness "gc": babylon::GarbageCollector — C10 (reclaimers run exactly once,
// never early, and before stop() returns). DESIGN.md §3 C10.
//
// Retiring threads hand reclaimers to retire(); reader threads open and close
// regions on gc.epoch() after a drawn number of their OWN steps (never waiting
// for anything); thread 0 calls stop() (or destroys the collector) at a drawn
// point. Every reclaimer records its invocation in a ledger.
//
//   cfg stop_mode 0: stop() may be called while regions are still open
//       stop_mode 1: stop() only after every reader finished (--mode 1)
//   cfg stop_at   0: stop() after all retiring threads were joined
//       stop_at   1: stop() as soon as every retire() holds its queue ticket
//                    (the last calls may still be blocked on the full queue)
//
// Side channels (guide rule 11): reclaimers reach the collector only through
// retire(); "retire returned" and "region closed" are published to thread 0 by
// release stores that follow the API call, and thread 0 only counts what it
// acquired. The plain `open` flag of a region is set after lock() returned
// (which ends in a seq_cst fence) and cleared before unlock() is called.
//
// Violation classes: duplicate, invented, early-reclaim, lost,
// not-reclaimed-at-stop (collector left with tasks that an open region still
// protected — reported separately from `lost`, see run()).
#include <babylon/concurrent/garbage_collector.h>
#include <unistd.h>

#include <atomic>
#include <condition_variable>
#include <mutex>
#include <mutex>
#include <thread>
#include <vector>

#include "common.h"

using namespace sim;

namespace {

enum Kind { K_REGION, K_RETIRE, K_RETIRE_TICK, K_PAUSE };
const char* const kNames[] = {"region", "retire", "retire_tick", "pause", nullptr};

constexpr int MAXTH = 16, MAXR = 64, MAXREG = 128;

struct Reclaimer {
  int id = -1;
  void operator()() noexcept;
};
typedef babylon::GarbageCollector<Reclaimer> GC;
typedef babylon::Epoch::Accessor Accessor;

struct Region { bool open = false; int t = 0; };
struct Ledger {
  int invoked = 0;
  int t = 0, seq = 0;          // retiring plan thread, 1-based sequence number in that thread
  bool returned = false;       // retire() returned
  bool before_stop = false;    // retire() returned and that happened-before the stop() call
  bool late = false;           // retire() was called after stop() had been called (may legitimately be dropped)
  uint64_t epoch = 0;
  int nopen = 0;
  int open_at_retire[MAXREG];  // regions open when the reclaimer was retired (tick taken)
};

struct State {
  GC* gc = nullptr;
  size_t cap = 1;
  size_t ticket_base = 0;  // queue index the run started from (history prefix)
  int style = 0;  // 0 thread-local lock()/unlock(), 1 one Accessor per reader thread
  Region regions[MAXREG];
  int nregions = 0;
  Ledger led[MAXR];
  int nled = 0;
  int ninvoked = 0, nreturned = 0;
  // reader -> main publication of closed regions (release store after unlock returned)
  int in_region = 0;                    // regions being entered / open / being left (plain)
  int closed_count[MAXTH] = {0};        // plain
  std::atomic<int> closed_pub[MAXTH];   // release-published copy
  // retirer -> main publication of returned retire() calls
  int returned_count[MAXTH] = {0};
  std::atomic<int> returned_pub[MAXTH];
  bool stop_called = false, stop_returned = false;
  std::mutex late_mu; std::condition_variable late_cv;  // the late retirer sleeps here until stop() is called (no polling: it would look like progress-free spinning)
  State() { for (int i = 0; i < MAXTH; i++) { closed_pub[i].store(0, std::memory_order_relaxed); returned_pub[i].store(0, std::memory_order_relaxed); } }
};
State* S;

void Reclaimer::operator()() noexcept {
  if (id < 0 || id >= S->nled) fail("invented", "reclaimer", "collector invoked a reclaimer (id %d) that nobody retired (the stop marker?)", id);
  Ledger& l = S->led[id];
  if (++l.invoked > 1) fail("duplicate", "reclaimer", "reclaimer %d (thread %d, retire #%d) invoked a second time", id, l.t, l.seq);
  for (int i = 0; i < l.nopen; i++)
    if (S->regions[l.open_at_retire[i]].open)
      fail("early-reclaim", "reclaimer", "reclaimer %d (epoch %llu) invoked while region %d of reader thread %d, which was open when it was retired, is still open", id, (unsigned long long)l.epoch, l.open_at_retire[i], S->regions[l.open_at_retire[i]].t);
  if (l.nopen) probe("reclaimer_had_to_wait_for_regions");
  if (S->stop_called) probe("reclaimer_ran_during_stop");
  S->ninvoked++;
  yield_point();
}

int new_ledger(int t) {
  if (S->nled >= MAXR) skip("too-many-reclaimers");
  int id = S->nled++;
  Ledger& l = S->led[id];
  l.t = t;
  for (int r = 0; r < S->nregions; r++)
    if (S->regions[r].open) l.open_at_retire[l.nopen++] = r;
  return id;
}

void note_queue_full() {
  auto& q = S->gc->_queue;
  size_t a = q._next_push_index.load(std::memory_order_relaxed), b = q._next_pop_index.load(std::memory_order_relaxed);
  if (a >= b + S->cap) probe("retire_found_queue_full");
}

void retired(int t, int id) {
  S->led[id].returned = true;
  S->nreturned++;
  if (t < MAXTH) {
    S->led[id].seq = ++S->returned_count[t];
    S->returned_pub[t].store(S->returned_count[t], std::memory_order_release);
  }
}

void do_region(int t, Accessor* acc, int steps, int64_t sleep_us, int depth) {
  steps = steps < 1 ? 1 : steps > 8 ? 8 : steps;
  // depth 1: plain region; 2: nested lock taken at entry, inner unlock after the
  // first step; 3: nested lock taken in the MIDDLE of the region (after ticks of
  // other threads may have happened) and released one step later
  bool late_nested = depth == 3;
  depth = depth < 1 ? 1 : depth > 2 ? (late_nested ? 1 : 2) : depth;
  bool inner_open = false;
  if (sleep_us > 50000) sleep_us = 50000;
  if (S->nregions >= MAXREG) skip("too-many-regions");
  babylon::Epoch& e = S->gc->epoch();
  S->in_region++;
  for (int d = 0; d < depth; d++) { if (acc) acc->lock(); else e.lock(); }
  int r = S->nregions++;
  S->regions[r].t = t;
  S->regions[r].open = true;  // lock() ended with its seq_cst fence: the slot is visible
  // the region closes after `steps` of the reader's own steps, whatever else happens
  for (int i = 0; i < steps; i++) {
    if (sleep_us > 0) ::usleep((useconds_t)sleep_us); else yield_point();
    if (depth == 2 && i == 0) { if (acc) acc->unlock(); else e.unlock(); depth = 1; }  // inner unlock keeps the region open
    if (late_nested && inner_open) { if (acc) acc->unlock(); else e.unlock(); inner_open = false; probe("late_nested_lock_closed"); }
    else if (late_nested && i == (steps - 1) / 2 && i + 1 < steps) { if (acc) acc->lock(); else e.lock(); inner_open = true; }
  }
  if (inner_open) { if (acc) acc->unlock(); else e.unlock(); inner_open = false; }
  S->regions[r].open = false;  // from here on the reader no longer relies on protection
  for (int d = 0; d < depth; d++) { if (acc) acc->unlock(); else e.unlock(); }
  S->in_region--;
  if (t < MAXTH) {
    S->closed_count[t]++;
    S->closed_pub[t].store(S->closed_count[t], std::memory_order_release);
  }
}

void do_op(int t, const Op& op, Accessor* acc) {
  switch (op.kind) {
    case K_REGION:
      do_region(t, acc, (int)op.a, op.b, (int)op.c);
      break;
    case K_RETIRE: {
      int id = new_ledger(t);
      note_queue_full();
      Reclaimer rc; rc.id = id;
      S->gc->retire(std::move(rc));
      retired(t, id);
      break;
    }
    case K_RETIRE_TICK: {
      int n = (int)(op.b < 1 ? 1 : op.b > 2 ? 2 : op.b);
      int ids[2];
      for (int i = 0; i < n; i++) ids[i] = new_ledger(t);  // regions open when the tick is taken
      uint64_t ep = S->gc->epoch().tick();
      int y = (int)(op.a < 0 ? 0 : op.a > 20 ? 20 : op.a);
      for (int i = 0; i < y; i++) yield_point();
      for (int i = 0; i < n; i++) {
        S->led[ids[i]].epoch = ep;
        note_queue_full();
        Reclaimer rc; rc.id = ids[i];
        S->gc->retire(std::move(rc), ep);
        retired(t, ids[i]);
      }
      break;
    }
    case K_PAUSE: {
      int n = (int)(op.a < 0 ? 0 : op.a > 40 ? 40 : op.a);
      for (int i = 0; i < n; i++) yield_point();
      if (op.b > 0) ::usleep((useconds_t)(op.b > 50000 ? 50000 : op.b));
      break;
    }
  }
}

// See harness/epoch.cc: bring the process-wide ThreadId<Epoch> allocator (it
// survives from run to run in one worker process) into a canonical state
// through the public API, so that slot assignment does not depend on history.
void normalise_thread_ids() {
  constexpr int K = 4;
  struct Ctl { babylon::Epoch scratch; std::mutex gate[K]; int id_of[K]; };
  Ctl* c = new Ctl();
  std::thread th[K];
  for (int i = 0; i < K; i++) { c->id_of[i] = -1; c->gate[i].lock(); }
  for (int i = 0; i < K; i++)
    th[i] = std::thread([c, i] {
      c->scratch.lock();
      c->scratch.unlock();
      c->id_of[i] = (int)babylon::ThreadId::current_thread_id<babylon::Epoch>().value;
      c->gate[i].lock();
      c->gate[i].unlock();
    });
  wait_quiescent();
  for (int id = 4 * K; id >= 0; id--)
    for (int i = 0; i < K; i++)
      if (c->id_of[i] == id) { c->gate[i].unlock(); th[i].join(); }
  for (int i = 0; i < K; i++) if (th[i].joinable()) skip("thread-id-space-larger-than-expected");
  delete c;
}

bool is_retirer(const std::vector<Op>& ops) {
  for (auto& o : ops) if (o.kind == K_RETIRE || o.kind == K_RETIRE_TICK) return true;
  return false;
}

void gen(Rng& r, Plan& p, const GenParams& gp) {
  gen_common(r, p, SB_HALF, false, 1500);
  static const int caps[] = {1, 1, 2, 2, 3, 4};
  p.cfg["cap"] = caps[r.below(6)];
  static const int64_t ep[] = {0, 0, 0, 0, 3, 32766, 32767, 65534, 65535};
  p.cfg["epoch0"] = ep[r.below(9)];
  p.cfg["style"] = (int64_t)r.below(2);
  int stop_mode = gp.mode == 1 ? 1 : gp.mode == 0 ? 0 : (r.chance(1, 3) ? 1 : 0);
  p.cfg["stop_mode"] = stop_mode;
  p.cfg["stop_at"] = r.chance(1, 2) ? 1 : 0;
  p.cfg["dtor"] = (stop_mode == 1 && r.chance(1, 2)) ? 1 : 0;  // effective only with stop_at == 0
  if (r.chance(1, 7)) { p.cfg["late"] = (int64_t)r.range(1, 2); p.cfg["late_yield"] = (int64_t)r.below(20); p.cfg["dtor"] = 0; }
  static const int64_t delays[] = {0, 0, 100, 1100, 3000, 30000};
  p.cfg["stop_delay_us"] = delays[r.below(6)];
  static const int64_t pres[] = {0, 0, 500, 2000};
  p.cfg["pre_us"] = pres[r.below(4)];
  p.cfg["max_idle_jumps"] = 5000;
  int nread = (int)r.range(1, 2), nret = (int)r.range(1, 3);
  p.threads.resize((size_t)(1 + nread + nret));
  int opid = 0;
  auto add = [&](int t, int kind, int64_t a, int64_t b, int64_t c) { Op o; o.kind = kind; o.a = a; o.b = b; o.c = c; o.id = opid++; p.threads[(size_t)t].push_back(o); };
  static const int64_t rsleep[] = {0, 0, 100, 1200, 5000, 40000};
  static const int64_t psleep[] = {0, 0, 100, 1500};
  for (int t = 1; t <= nread; t++) {
    int nops = (int)r.range(1, 3);
    for (int i = 0; i < nops; i++) {
      if (r.chance(1, 3)) add(t, K_PAUSE, r.range(0, 20), psleep[r.below(4)], 0);
      add(t, K_REGION, r.range(1, 6), rsleep[r.below(6)], r.chance(1, 3) ? (r.chance(1, 2) ? 3 : 2) : 1);
    }
  }
  for (int t = nread + 1; t <= nread + nret; t++) {
    int ncalls = (int)r.range(1, gp.thorough ? 7 : 5);
    for (int i = 0; i < ncalls; i++) {
      if (r.chance(1, 3)) add(t, K_PAUSE, r.range(0, 20), psleep[r.below(4)], 0);
      if (r.chance(2, 3)) add(t, K_RETIRE, 0, 0, 0);
      else { int64_t b = r.chance(1, 3) ? 2 : 1; add(t, K_RETIRE_TICK, r.range(0, 10), b, 0); if (b == 2) i++; }
    }
  }
}

void run(const Plan& p) {
  S = new State();
  State& s = *S;
  s.style = p.get("style", 0) ? 1 : 0;
  int stop_mode = p.get("stop_mode", 0) ? 1 : 0;
  int stop_at = p.get("stop_at", 0) ? 1 : 0;
  bool dtor = p.get("dtor", 0) != 0 && stop_mode == 1 && stop_at == 0;  // destroying the collector (its Epoch, its queue) under a running reader or an in-flight retire() would be client misuse
  if (s.style == 0) normalise_thread_ids();
  s.gc = new GC();
  int64_t cap = p.get("cap", 1);
  s.gc->set_queue_capacity((size_t)(cap < 1 ? 1 : cap > 8 ? 8 : cap));
  // history prefix: pretend the task queue's ring has already been cycled epoch0
  // times (16-bit slot versions near their wrap); set-up only, before start()
  {
    uint64_t e0 = (uint64_t)std::max<int64_t>(0, p.get("epoch0", 0));
    auto& q = s.gc->_queue;
    size_t qc = q.capacity();
    if (e0) {
      s.ticket_base = e0 * qc;
      q._next_push_index.store(e0 * qc, std::memory_order_relaxed);
      q._next_pop_index.store(e0 * qc, std::memory_order_relaxed);
      for (size_t i = 0; i < qc; i++) q._slots.futex(i).set_version((uint16_t)(e0 << 1), std::memory_order_relaxed);
      sim::drain();
      probe("history_prefix");
    }
  }
  s.cap = s.gc->_queue.capacity();
  s.gc->start();
  int64_t pre = p.get("pre_us", 0);
  if (pre > 0) ::usleep((useconds_t)(pre > 100000 ? 100000 : pre));  // let the collector reach its back-off sleep
  size_t total = 0;
  for (size_t t = 1; t < p.threads.size(); t++)
    for (auto& o : p.threads[t]) total += o.kind == K_RETIRE ? 1 : o.kind == K_RETIRE_TICK ? (size_t)(o.b < 1 ? 1 : o.b > 2 ? 2 : o.b) : 0;
  std::vector<std::thread> readers, retirers;
  const Plan* pp = &p;
  for (size_t t = 1; t < p.threads.size(); t++) {
    if (p.threads[t].empty()) continue;
    bool ret = is_retirer(p.threads[t]);
    if (ret)
      retirers.emplace_back([pp, t]() {
        for (auto& op : pp->threads[t]) { if (op.kind == K_REGION) continue; OpScope scope(op.id); do_op((int)t, op, nullptr); }
      });
    else
      readers.emplace_back([pp, t]() {
        Accessor acc;
        if (S->style == 1) acc = S->gc->epoch().create_accessor();
        for (auto& op : pp->threads[t]) { OpScope scope(op.id); do_op((int)t, op, S->style == 1 ? &acc : nullptr); }
        // the (unlocked) accessor is released when the thread ends
      });
  }
  // ---- late retires (relaxed clause): a thread that calls retire() only once
  // stop() has been called. "Stop after current tasks are finished" promises
  // nothing for such a task - it may run or be dropped - but it must not be
  // run twice or early, and stop() must still return. The thread is detached and
  // never joined: after the collector has left, its retire() may wait on a full
  // queue for ever, which is the client's problem, not a violation.
  int nlate = (int)std::max<int64_t>(0, std::min<int64_t>(p.get("late", 0), 2));
  if (dtor) nlate = 0;
  if (nlate) {
    int ly = (int)std::max<int64_t>(0, std::min<int64_t>(p.get("late_yield", 0), 30));
    std::thread([nlate, ly]() {
      { std::unique_lock<std::mutex> l(S->late_mu); S->late_cv.wait(l, [] { return S->stop_called; }); }
      for (int i = 0; i < ly; i++) yield_point();
      for (int i = 0; i < nlate; i++) {
        OpScope scope(900000 + i);
        int id = new_ledger(MAXTH - 1);
        S->led[id].late = true;
        Reclaimer rc; rc.id = id;
        S->gc->retire(std::move(rc));
        S->led[id].returned = true;
        probe("late_retire_returned");
      }
    }).detach();
  }
  // ---- choose the moment of stop()
  if (stop_at == 0) {
    for (auto& th : retirers) th.join();
    retirers.clear();
  } else {
    // every retire() has drawn its queue ticket (it may still be blocked on a full queue)
    // (or has returned: a retire() that came back without a ticket must surface as `lost`, not as a hang here)
    while (s.gc->_queue._next_push_index.load(std::memory_order_relaxed) < s.ticket_base + total && (size_t)s.nreturned < total) ::usleep(300);
  }
  if (stop_mode == 1) {
    for (auto& th : readers) th.join();
    readers.clear();
  }
  int64_t delay = p.get("stop_delay_us", 0);
  if (delay > 0) ::usleep((useconds_t)(delay > 100000 ? 100000 : delay));
  // ---- what is known to have happened before stop() is called?
  for (size_t t = 1; t < p.threads.size() && t < (size_t)MAXTH; t++) {
    int seen = s.returned_pub[t].load(std::memory_order_acquire);
    for (int i = 0; i < s.nled; i++)
      if (s.led[i].t == (int)t && s.led[i].returned && s.led[i].seq <= seen) s.led[i].before_stop = true;
  }
  // quiet: every region ever opened has been closed and the closing happens-before this point
  bool quiet = s.in_region == 0;
  for (size_t t = 1; t < p.threads.size() && t < (size_t)MAXTH; t++)
    if (s.closed_pub[t].load(std::memory_order_acquire) != s.closed_count[t]) quiet = false;
  int pending = 0, nbefore = 0;
  for (int i = 0; i < s.nled; i++) if (s.led[i].before_stop) { nbefore++; if (!s.led[i].invoked) pending++; }
  if (!quiet) probe("stop_with_region_open");
  if (pending) probe("stop_with_tasks_pending");
  if (!quiet && pending) probe("stop_with_region_open_and_tasks_pending");
  if ((size_t)nbefore < total) probe("stop_with_retire_in_flight");
  tracef("stop: quiet=%d pending=%d before=%d total=%zu", (int)quiet, pending, nbefore, total);
  { std::lock_guard<std::mutex> l(s.late_mu); s.stop_called = true; }
  s.late_cv.notify_all();
  if (dtor) { delete s.gc; s.gc = nullptr; probe("stopped_by_destructor"); }
  else s.gc->stop();
  s.stop_returned = true;
  // ---- clause: everything retired before stop() has run when stop() returns.
  // If a region was still open (or its closing not yet visible) when stop() was
  // called, the failure is the collector leaving with protected tasks
  // (not-reclaimed-at-stop); if nothing stood in the way, the task was lost.
  for (int i = 0; i < s.nled; i++)
    if (s.led[i].before_stop && s.led[i].invoked == 0) {
      if (!quiet)
        fail("not-reclaimed-at-stop", "stop-return", "stop() returned but reclaimer %d (thread %d retire #%d, epoch %llu), retired before stop() was called, was never invoked; a region was still open when stop() was called", i, s.led[i].t, s.led[i].seq, (unsigned long long)s.led[i].epoch);
      fail("lost", "stop-return", "stop() returned but reclaimer %d (thread %d retire #%d), retired before stop() was called, was never invoked although no region was open", i, s.led[i].t, s.led[i].seq);
    }
  for (auto& th : retirers) th.join();
  for (auto& th : readers) th.join();
  // ---- every retire() had its ticket before the stop marker: all of them must have run, once
  { size_t regular = 0; for (int i = 0; i < s.nled; i++) regular += !s.led[i].late;
    if (regular != total) fail("harness", "bookkeeping", "%zu reclaimers created, plan has %zu", regular, total); }
  for (int i = 0; i < s.nled; i++) {
    if (s.led[i].late) continue;
    if (!s.led[i].returned) fail("harness", "bookkeeping", "retire of reclaimer %d never returned", i);
    if (s.led[i].invoked == 0) {
      if (!quiet)
        fail("not-reclaimed-at-stop", "in-flight-retire", "reclaimer %d (thread %d retire #%d) whose retire() was in flight when stop() was called was queued before the stop marker but never invoked; a region was still open when stop() was called", i, s.led[i].t, s.led[i].seq);
      fail("lost", "end", "reclaimer %d (thread %d retire #%d) was never invoked", i, s.led[i].t, s.led[i].seq);
    }
  }
  if (s.gc) { s.gc->stop(); if (!nlate) delete s.gc; }  // second stop() must be a no-op (with a late retirer possibly still inside retire() the object is leaked)
  for (int i = 0; i < s.nled; i++)
    if (s.led[i].late ? s.led[i].invoked > 1 : s.led[i].invoked != 1) fail("duplicate", "end", "reclaimer %d invoked %d times", i, s.led[i].invoked);
  if (total > s.cap) probe("more_retires_than_capacity");
  if (nlate) return;  // the detached late retirer may still be using the state
  delete S;
  S = nullptr;
}

const char* const kShrink[] = {"cap", "stop_delay_us", "pre_us", nullptr};

}  // namespace

const Harness sim::g_harness = {"gc", kNames, gen, run, kShrink, 0};
