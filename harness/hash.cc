// Harness "hash": ConcurrentFixedSwissTable / ConcurrentTransientHashSet /
// ConcurrentTransientHashMap — C03 (concurrent insert-if-absent is
// linearizable) and C18 (contents equal a reference at every quiescent point).
// DESIGN.md §3 C03 / C18.  Built in two flavours (ship, tsm), see §2.9.
//
// gp.property selects the workload shape:
//   C03  one container, optional sequential prefill (fillers), then 2-4 threads x
//        3-10 ops {emplace, insert, try_emplace, index(operator[]), find,
//        contains, count}; history oracle + quiescent clauses.
//        --mode m (0..7): container = m/4 (0 growing set/map, 1 fixed table),
//        element = m%4 (0 u64, 1 string, 2 move-only element, 3 map u64->counted
//        with a move-only constructor argument); -1 = mixed.
//        --mode 8: EXPERIMENTAL, tsm flavour only: happens-before detector on the
//        value storage for every hash layout.  Known to raise false `race`
//        reports (simulator keeps release clocks per 4-byte unit, see run03);
//        the default mix only switches the detector on where it is exact.
//   C18  two containers (current/other) and a sequence of phases; a phase is one
//        structural operation by the main thread alone or a batch of
//        w_emplace/w_find by 1-3 threads; after every phase the touched
//        containers are compared with a std::map reference.
//        --mode m (0..5): element kind (0 set<u64>, 1 set<string>, 2
//        set<move-only>, 3 map<u64,counted>, 4 map<string,string>, 5
//        map<u64,move-only>); -1 = mixed.  cfg "report"=1: size() mismatches are
//        collected and reported at the end of the history (if no other clause
//        failed), so that the remaining clauses are still evaluated behind a
//        wrong size(); every clause is evaluated in every run either way.
// The hasher maps key id -> (group base, 7-bit tag) drawn from 1-4 bases and
// 1-3 tags (cfg hseed/nbase/ntag): equal tags and one crowded, wrapping
// 16-slot window are the norm.
//
// Rule 11 (side channels): no simulated thread ever acts on something another
// thread obtained from the API.  History records are only evaluated after the
// workers were joined; the only cross-thread reads during the concurrent phase
// (which finished operations precede a new one) are judged with
// sim::happened_before_me in store-buffer runs.
#include <pthread.h>
#include <sched.h>
#include <stdio.h>
#include <string.h>

#include <algorithm>
#include <atomic>
#include <functional>
#include <list>
#include <map>
#include <memory>
#include <mutex>
#include <set>
#include <string>
#include <thread>
#include <tuple>
#include <unordered_map>
#include <vector>

// everything transient_hash_table.h depends on is included first, so that the
// probe seam below only covers the hash table's own two files
#include <babylon/absl_numeric_bits.h>
#include <babylon/concurrent/counter.h>
#include <babylon/reusable/allocator.h>

// Probe seam (no behavioural change): ConcurrentFixedSwissTable::do_emplace is
// the only caller of ::sched_yield() in transient_hash_table.hpp, and it calls
// it exactly when its CAS found the slot BUSY.  The call is routed through a
// counting wrapper that then calls the real (interposed) sched_yield.
int verif_hash_yield();
#define sched_yield verif_hash_yield
#include <babylon/concurrent/transient_hash_table.h>
#undef sched_yield

#include "common.h"

using namespace sim;

namespace {

namespace bi = ::babylon::internal::concurrent_transient_hash_table;
using bi::Group;

#ifdef VERIF_TSANMACRO
constexpr bool kTsm = true;
#else
constexpr bool kTsm = false;
#endif

constexpr int kMaxT = 40;
constexpr int kFiller0 = 1000;  // ids of prefill keys (outside every universe)
constexpr uint64_t kKeyTag = 0xC0DE000000000000ull;
constexpr uint64_t kMoved = 0xDEADDEADDEADDEADull;
constexpr uint64_t kDefaultV = 0x0DEFA017ull;
constexpr int8_t kEmpty = (int8_t)0x80, kBusy = (int8_t)0x81;

inline uint64_t chk_of(uint64_t v, int i) { return hx::mixv(v, (uint64_t)i) | 1; }

// ---------------------------------------------------------------------------
// per-run context
struct TabInfo {
  uintptr_t ctl = 0, val = 0;
  size_t buckets = 0, stride = 0;
  std::vector<int8_t> owner;     // thread that holds the slot BUSY (-1 none)
  std::vector<int8_t> mowner;    // thread whose mirror byte is still missing
  std::vector<uint64_t> bstamp;  // stamp of the EMPTY->BUSY commit
};

struct Ctx {
  // hashing: key id -> (group base, 7-bit tag)
  uint64_t hseed = 1;
  int nbase = 1, ntag = 1;
  uint64_t base_pool[4] = {0, 0, 0, 0};
  uint64_t tag_pool[3] = {0, 0, 0};
  // known tables / chain links
  TabInfo tabs[24];
  int ntabs = 0;
  uintptr_t nexts[24];
  int nnexts = 0;
  void (*new_node)(uintptr_t) = nullptr;
  size_t node_size = 0;
  bool concurrent = false;
  bool hbval = false;
  bool hsync = false;
  std::atomic<uint64_t> sync{0};
  // probe state
  int busy_by[kMaxT];
  int busy_total = 0;
  int mirror_by[kMaxT];
  int mirror_total = 0;
  uint64_t hstamp[kMaxT];
  // in-table construction ledger (element address -> count)
  std::map<const void*, int> ctor_at, dtor_at;
  uint64_t ctor_total = 0, dtor_total = 0;
  Ctx() {
    memset(busy_by, 0, sizeof busy_by);
    memset(mirror_by, 0, sizeof mirror_by);
    memset(hstamp, 0, sizeof hstamp);
  }
  bool in_values(const void* p) const {
    uintptr_t a = (uintptr_t)p;
    for (int i = 0; i < ntabs; i++)
      if (a >= tabs[i].val && a < tabs[i].val + tabs[i].buckets * tabs[i].stride) return true;
    return false;
  }
  uint64_t hash_id(int id) {
    uint64_t b = base_pool[sim::mix64(hseed, 100 + (uint64_t)(uint32_t)id) % (uint64_t)nbase];
    uint64_t t = tag_pool[sim::mix64(hseed, 200 + (uint64_t)(uint32_t)id) % (uint64_t)ntag];
    int me = sim::tid();
    if (me >= 0 && me < kMaxT) {
      hstamp[me] = sim::stamp();
      if (concurrent) {
        if (busy_total - busy_by[me] > 0) probe("probe_began_while_other_slot_busy");
        if (mirror_total - mirror_by[me] > 0) probe("probe_began_in_mirror_window");
      }
    }
    return (b << 7) | t;
  }
};
Ctx* X = nullptr;
thread_local int t_ctor_in_table = 0;
int g_ctor_yields = 1;  // scheduling points between the first and the remaining fields of an element under construction
inline void ctor_window() { for (int i = 0; i < g_ctor_yields; i++) sim::yield_point(); }

inline void note_ctor(const void* p) {
  Ctx* x = X;
  if (x && x->in_values(p)) { x->ctor_at[p]++; x->ctor_total++; t_ctor_in_table++; }
}
inline void note_dtor(const void* p) {
  Ctx* x = X;
  if (x && x->in_values(p)) { x->dtor_at[p]++; x->dtor_total++; }
}

void setup_hash(Ctx& x, const Plan& p) {
  x.hseed = (uint64_t)p.get("hseed", 1);
  x.nbase = (int)std::min<int64_t>(4, std::max<int64_t>(1, p.get("nbase", 1)));
  x.ntag = (int)std::min<int64_t>(3, std::max<int64_t>(1, p.get("ntag", 1)));
  uint64_t bc0 = (uint64_t)std::max<int64_t>(16, p.get("cap0", 16));
  for (int j = 0; j < 4; j++) {
    uint64_t r = sim::mix64(x.hseed, 300 + (uint64_t)j);
    uint64_t cat = r % 10, v = (r >> 8);
    uint64_t b;
    if (cat < 4) b = bc0 - 1 - v % 15;            // window wraps into the mirror bytes of the first table
    else if (cat < 6) b = v % 16;                 // slots < 16 (mirrored ones)
    else if (cat < 8) b = 2 * bc0 - 1 - v % 15;   // wraps in the next (doubled) table
    else b = v % 256;
    x.base_pool[j] = b;
  }
  for (int j = 0; j < 3; j++) x.tag_pool[j] = sim::mix64(x.hseed, 400 + (uint64_t)j) & 0x7F;
  g_ctor_yields = (int)std::min<int64_t>(64, std::max<int64_t>(0, p.get("cy", 1)));
}

// ---------------------------------------------------------------------------
// element kinds
struct MoArg {  // move-only constructor argument
  uint64_t v;
  explicit MoArg(uint64_t x) : v(x) {}
  MoArg(MoArg&& o) noexcept : v(o.v) { o.v = 0; }
  MoArg(const MoArg&) = delete;
  MoArg& operator=(const MoArg&) = delete;
};

struct Counted {  // constructor-counting mapped type
  uint64_t v;
  uint64_t chk[2];
  void fill(uint64_t x) {
    note_ctor(this);
    v = x;
    ctor_window();
    chk[0] = chk_of(x, 0);
    chk[1] = chk_of(x, 1);
  }
  Counted() { fill(kDefaultV); }
  Counted(uint64_t x) { fill(x); }
  Counted(MoArg&& a) { uint64_t x = a.v; a.v = 0; fill(x); }
  Counted(const Counted& o) { fill(o.v); }
  Counted(Counted&& o) noexcept { fill(o.v); }
  Counted& operator=(const Counted&) = delete;
  ~Counted() { note_dtor(this); }
  bool ok() const { return v != 0 && chk[0] == chk_of(v, 0) && chk[1] == chk_of(v, 1); }
};

struct MoVal {  // move-only mapped type
  uint64_t v;
  uint64_t chk;
  uint64_t* heap;
  explicit MoVal(uint64_t x) : v(x), chk(chk_of(x, 0)), heap(new uint64_t(chk_of(x, 1))) {}
  MoVal(MoVal&& o) noexcept {
    v = o.v;
    ctor_window();
    chk = o.chk; heap = o.heap;
    o.heap = nullptr; o.v = kMoved;
  }
  MoVal(const MoVal&) = delete;
  MoVal& operator=(const MoVal&) = delete;
  ~MoVal() { delete heap; }
  bool ok() const { return v != 0 && chk == chk_of(v, 0) && heap != nullptr && *heap == chk_of(v, 1); }
};

struct MoKey {  // move-only set element
  uint64_t id;
  uint64_t chk[2];
  uint64_t* heap;
  explicit MoKey(int k) {
    note_ctor(this);
    id = kKeyTag | (uint64_t)(uint32_t)k;
    chk[0] = chk_of(id, 0); chk[1] = chk_of(id, 1);
    heap = new uint64_t(chk_of(id, 2));
  }
  MoKey(MoKey&& o) noexcept {
    note_ctor(this);
    id = o.id;
    ctor_window();
    chk[0] = o.chk[0]; chk[1] = o.chk[1];
    heap = o.heap;
    o.heap = nullptr; o.id = kMoved;
  }
  MoKey(const MoKey&) = delete;
  MoKey& operator=(const MoKey&) = delete;
  ~MoKey() { note_dtor(this); delete heap; }
  bool ok() const { return chk[0] == chk_of(id, 0) && chk[1] == chk_of(id, 1) && heap != nullptr && *heap == chk_of(id, 2); }
};
inline bool operator==(const MoKey& a, const MoKey& b) { return a.id == b.id; }

inline int id_of_u64(uint64_t v) { return (v >> 32) == (kKeyTag >> 32) ? (int)(v & 0xFFFFFFFF) : -1; }
std::string str_key(int k) {
  char b[64];
  int n = snprintf(b, sizeof b, "k%06d/", k);
  for (int i = 0; i < 34; i++) b[n + i] = (char)('a' + ((unsigned)k * 7u + (unsigned)i) % 26u);
  b[n + 34] = 0;
  return std::string(b);
}
inline int id_of_str(const std::string& s) {
  if (s.size() != 42 || s[0] != 'k' || s[7] != '/') return -1;
  int v = 0;
  for (int i = 1; i < 7; i++) { if (s[(size_t)i] < '0' || s[(size_t)i] > '9') return -1; v = v * 10 + (s[(size_t)i] - '0'); }
  return v;
}
std::string str_val(uint64_t v) {
  char b[64];
  snprintf(b, sizeof b, "v%020llu/%016llx", (unsigned long long)v, (unsigned long long)chk_of(v, 0));
  return std::string(b);
}
inline uint64_t val_of_str(const std::string& s) {
  if (s.size() != 38 || s[0] != 'v') return 0;
  uint64_t v = strtoull(s.c_str() + 1, nullptr, 10);
  return s == str_val(v) ? v : 0;
}

struct KeyHash {
  size_t operator()(uint64_t k) const { return (size_t)X->hash_id(id_of_u64(k)); }
  size_t operator()(const std::string& s) const { return (size_t)X->hash_id(id_of_str(s)); }
  size_t operator()(const MoKey& k) const { return (size_t)X->hash_id(id_of_u64(k.id)); }
};

// Element-kind traits.  Insert helpers report through `intact` whether the
// (movable) argument objects were left untouched by the call.
struct EU64 {
  static constexpr bool is_map = false, copyable = true;
  static const char* name() { return "set<u64>"; }
  using KT = uint64_t; using T = uint64_t; using Ext = bi::IdentityKeyExtractor;
  using Grow = ::babylon::ConcurrentTransientHashSet<T, KeyHash>;
  static KT make_key(int k) { return kKeyTag | (uint64_t)(uint32_t)k; }
  static int key_of(const T& e) { return id_of_u64(e); }
  static uint64_t val_of(const T&) { return 0; }
  static bool ok(const T& e) { return id_of_u64(e) >= 0; }
  static const void* addr(const T& e) { return &e; }
  template <class C> static auto op_emplace(C& c, int k, uint64_t, int, bool& intact) { intact = true; return c.emplace(make_key(k)); }
  template <class C> static auto op_insert(C& c, int k, uint64_t, int variant, bool& intact) {
    T v = make_key(k);
    intact = true;
    if (variant & 1) return c.insert(std::move(v));
    return c.insert(static_cast<const T&>(v));
  }
};
struct ESTR {
  static constexpr bool is_map = false, copyable = true;
  static const char* name() { return "set<string>"; }
  using KT = std::string; using T = std::string; using Ext = bi::IdentityKeyExtractor;
  using Grow = ::babylon::ConcurrentTransientHashSet<T, KeyHash>;
  static KT make_key(int k) { return str_key(k); }
  static int key_of(const T& e) { return id_of_str(e); }
  static uint64_t val_of(const T&) { return 0; }
  static bool ok(const T& e) { int k = id_of_str(e); return k >= 0 && e == str_key(k); }
  static const void* addr(const T& e) { return &e; }
  template <class C> static auto op_emplace(C& c, int k, uint64_t, int variant, bool& intact) {
    std::string s = str_key(k);
    if (variant & 1) { auto r = c.emplace(std::move(s)); intact = (s == str_key(k)); return r; }
    auto r = c.emplace(static_cast<const std::string&>(s));
    intact = (s == str_key(k));
    return r;
  }
  template <class C> static auto op_insert(C& c, int k, uint64_t, int variant, bool& intact) {
    std::string s = str_key(k);
    if (variant & 1) { auto r = c.insert(std::move(s)); intact = (s == str_key(k)); return r; }
    auto r = c.insert(static_cast<const std::string&>(s));
    intact = (s == str_key(k));
    return r;
  }
};
struct EMOK {
  static constexpr bool is_map = false, copyable = false;
  static const char* name() { return "set<move-only>"; }
  using KT = MoKey; using T = MoKey; using Ext = bi::IdentityKeyExtractor;
  using Grow = ::babylon::ConcurrentTransientHashSet<T, KeyHash>;
  static KT make_key(int k) { return MoKey(k); }
  static int key_of(const T& e) { return id_of_u64(e.id); }
  static uint64_t val_of(const T&) { return 0; }
  static bool ok(const T& e) { return e.ok(); }
  static const void* addr(const T& e) { return &e; }
  template <class C> static auto op_emplace(C& c, int k, uint64_t, int, bool& intact) {
    MoKey tmp(k);
    auto r = c.emplace(std::move(tmp));
    intact = tmp.ok() && id_of_u64(tmp.id) == k;
    return r;
  }
  template <class C> static auto op_insert(C& c, int k, uint64_t, int, bool& intact) {
    MoKey tmp(k);
    auto r = c.insert(std::move(tmp));
    intact = tmp.ok() && id_of_u64(tmp.id) == k;
    return r;
  }
};
struct EMAPC {
  static constexpr bool is_map = true, copyable = true;
  static const char* name() { return "map<u64,counted>"; }
  using KT = uint64_t; using V = Counted; using T = std::pair<const KT, V>; using Ext = bi::PairKeyExtractor<KT, V>;
  using Grow = ::babylon::ConcurrentTransientHashMap<KT, V, KeyHash>;
  static KT make_key(int k) { return kKeyTag | (uint64_t)(uint32_t)k; }
  static int key_of(const T& e) { return id_of_u64(e.first); }
  static uint64_t val_of(const T& e) { return e.second.v; }
  static bool ok(const T& e) { return id_of_u64(e.first) >= 0 && e.second.ok(); }
  static const void* addr(const T& e) { return &e.second; }
  template <class C> static auto op_emplace(C& c, int k, uint64_t val, int, bool& intact) {
    MoArg a(val);
    auto r = c.emplace(make_key(k), std::move(a));
    intact = (a.v == val);
    return r;
  }
  template <class C> static auto op_insert(C& c, int k, uint64_t val, int variant, bool& intact) {
    T pv(make_key(k), Counted(val));
    intact = true;
    if (variant & 1) return c.insert(std::move(pv));
    return c.insert(static_cast<const T&>(pv));
  }
};
struct EMAPS {
  static constexpr bool is_map = true, copyable = true;
  static const char* name() { return "map<string,string>"; }
  using KT = std::string; using V = std::string; using T = std::pair<const KT, V>; using Ext = bi::PairKeyExtractor<KT, V>;
  using Grow = ::babylon::ConcurrentTransientHashMap<KT, V, KeyHash>;
  static KT make_key(int k) { return str_key(k); }
  static int key_of(const T& e) { return id_of_str(e.first); }
  static uint64_t val_of(const T& e) { return val_of_str(e.second); }
  static bool ok(const T& e) { int k = id_of_str(e.first); return k >= 0 && e.first == str_key(k) && val_of_str(e.second) != 0; }
  static const void* addr(const T& e) { return &e.second; }
  template <class C> static auto op_emplace(C& c, int k, uint64_t val, int, bool& intact) { intact = true; return c.emplace(str_key(k), str_val(val)); }
};
struct EMAPM {
  static constexpr bool is_map = true, copyable = false;
  static const char* name() { return "map<u64,move-only>"; }
  using KT = uint64_t; using V = MoVal; using T = std::pair<const KT, V>; using Ext = bi::PairKeyExtractor<KT, V>;
  using Grow = ::babylon::ConcurrentTransientHashMap<KT, V, KeyHash>;
  static KT make_key(int k) { return kKeyTag | (uint64_t)(uint32_t)k; }
  static int key_of(const T& e) { return id_of_u64(e.first); }
  static uint64_t val_of(const T& e) { return e.second.v; }
  static bool ok(const T& e) { return id_of_u64(e.first) >= 0 && e.second.ok(); }
  static const void* addr(const T& e) { return &e.second; }
  template <class C> static auto op_emplace(C& c, int k, uint64_t val, int, bool& intact) {
    MoVal v(val);
    auto r = c.emplace(make_key(k), std::move(v));
    intact = true;  // judged by the caller through ok() of the stored element
    return r;
  }
};

template <class EK> using FixedOf = ::babylon::ConcurrentFixedSwissTable<typename EK::T, KeyHash, typename EK::Ext>;

// ---------------------------------------------------------------------------
// table registry: plain-access preemption on control bytes and value storage,
// commit watch for probes and for chained tables that appear during a run
template <class Table>
void add_table(const Table& t) {
  Ctx& x = *X;
  uintptr_t ctl = (uintptr_t)t._controls;
  if (ctl == (uintptr_t)Group::s_dummy_controls) return;
  for (int i = 0; i < x.ntabs; i++) if (x.tabs[i].ctl == ctl) return;
  if (x.ntabs == 24) return;
  TabInfo& ti = x.tabs[x.ntabs++];
  ti.ctl = ctl;
  ti.buckets = t._bucket_mask + 1;
  ti.val = (uintptr_t)t._values;
  ti.stride = sizeof(*t._values);
  ti.owner.assign(ti.buckets, (int8_t)-1);
  ti.mowner.assign(16, (int8_t)-1);
  ti.bstamp.assign(ti.buckets, 0);
  preempt_register((const void*)ti.ctl, ti.buckets + Group::SIZE);
  preempt_register((const void*)ti.val, ti.buckets * ti.stride);
  if (x.hbval) hb_register((const void*)ti.val, ti.buckets * ti.stride, "hash-value-storage");
}
void drop_tables() {
  Ctx& x = *X;
  for (int i = 0; i < x.ntabs; i++) {
    preempt_unregister((const void*)x.tabs[i].ctl);
    preempt_unregister((const void*)x.tabs[i].val);
    if (x.hbval) hb_unregister((const void*)x.tabs[i].val);
  }
  x.ntabs = 0;
  x.nnexts = 0;
  x.busy_total = x.mirror_total = 0;
  memset(x.busy_by, 0, sizeof x.busy_by);
  memset(x.mirror_by, 0, sizeof x.mirror_by);
}
template <class Node>
void add_node(Node* n) {
  Ctx& x = *X;
  add_table(n->table);
  uintptr_t a = (uintptr_t)&n->next;
  for (int i = 0; i < x.nnexts; i++) if (x.nexts[i] == a) return;
  if (x.nnexts < 24) x.nexts[x.nnexts++] = a;
}
template <class Node>
inline Node* raw_next(Node* n) { return *reinterpret_cast<Node* const volatile*>(&n->next); }
template <class C>
void scan_chain(C& c) {  // growing containers
  auto* n = &c._head;
  int guard = 0;
  while (n != nullptr && guard++ < 24) { add_node(n); n = raw_next(n); }
}
template <class C>
int chain_len(C& c) {
  int len = 0;
  for (auto* n = raw_next(&c._head); n != nullptr && len < 64; n = raw_next(n)) len++;
  return len;
}
template <class C>
bool head_is_placeholder(C& c) { return (uintptr_t)c._head.table._controls == (uintptr_t)Group::s_dummy_controls; }
template <class Node>
void new_node_cb(uintptr_t p) { add_node(reinterpret_cast<Node*>(p)); }

void on_commit(void*, const void* addr, uint64_t oldv, uint64_t newv) {
  Ctx* x = X;
  if (!x) return;
  uintptr_t a = (uintptr_t)addr;
  for (int i = 0; i < x->nnexts; i++)
    if (x->nexts[i] == a) {
      if (oldv == 0 && newv != 0) {
        if (x->concurrent) probe("chain_cas_won");
        if (x->new_node) x->new_node((uintptr_t)newv);
      }
      return;
    }
  for (int i = 0; i < x->ntabs; i++) {
    TabInfo& t = x->tabs[i];
    if (a < t.ctl || a >= t.ctl + t.buckets + Group::SIZE) continue;
    size_t off = a - t.ctl;
    int8_t o = (int8_t)oldv, n = (int8_t)newv;
    if (off < t.buckets) {
      if (o == kEmpty && n == kBusy) {
        int me = sim::tid();
        if (me >= 0 && me < kMaxT) { t.owner[off] = (int8_t)me; t.bstamp[off] = sim::stamp(); x->busy_by[me]++; x->busy_total++; }
      } else if (o == kBusy && n >= 0) {
        int ow = t.owner[off];
        t.owner[off] = -1;
        if (ow >= 0) {
          x->busy_by[ow]--; x->busy_total--;
          if (off < Group::SIZE - 1) { t.mowner[off] = (int8_t)ow; x->mirror_by[ow]++; x->mirror_total++; }
        }
      }
    } else {
      size_t idx = off - t.buckets;
      if (idx < Group::SIZE - 1 && n >= 0 && t.mowner[idx] >= 0) {
        int ow = t.mowner[idx];
        t.mowner[idx] = -1;
        x->mirror_by[ow]--; x->mirror_total--;
      }
    }
    return;
  }
}

void on_free(void*, void* p, size_t size) {
  Ctx* x = X;
  if (!x || !x->concurrent || x->node_size == 0 || size != x->node_size) return;
  // a TableNode that lost the append CAS: its table buffer was released just before
  void* ctl = *reinterpret_cast<void* const*>(p);
  if (sim::heap_owns(ctl) && sim::heap_is_freed(ctl)) probe("chain_cas_lost");
}

void install_hooks() {
  sim::watch((const void*)0x600000000000ULL, (size_t)4 << 30, on_commit, nullptr);
  sim::heap_on_free(on_free, nullptr);
}

}  // namespace

int verif_hash_yield() {
  Ctx* x = X;
  if (x && x->concurrent) {
    probe("insert_saw_busy");
    int me = sim::tid();
    bool raced = false;
    if (me >= 0 && me < kMaxT)
      for (int i = 0; i < x->ntabs && !raced; i++) {
        TabInfo& t = x->tabs[i];
        for (size_t o = 0; o < t.buckets; o++)
          if (t.owner[o] >= 0 && t.owner[o] != me && t.bstamp[o] > x->hstamp[me]) { raced = true; break; }
      }
    if (raced) probe("lost_cas_race_for_empty_byte");
  }
  return ::sched_yield();
}

namespace {

// ---------------------------------------------------------------------------
// C03
enum Kind03 { K_EMPLACE, K_INSERT, K_TRY_EMPLACE, K_INDEX, K_FIND, K_CONTAINS, K_COUNT,
              // C18 worker / main kinds share the name table
              W_EMPLACE, W_FIND,
              S_NEW, S_CLEAR, S_RESERVE, S_REHASH, S_COPY_CTOR, S_COPY_ASSIGN, S_MOVE_ASSIGN, S_MOVE_CTOR,
              S_SWAP, S_SWITCH, S_FILL, S_ITERATE, S_SIZE, S_FIND };
const char* const kNames[] = {"emplace", "insert", "try_emplace", "index", "find", "contains", "count",
                              "w_emplace", "w_find",
                              "new", "clear", "reserve", "rehash", "copy_ctor", "copy_assign", "move_assign", "move_ctor",
                              "swap", "switch", "fill", "iterate", "size", "find_one", nullptr};
inline bool is_ins03(int k) { return k <= K_INDEX; }

struct Rec {
  int tid = 0, kind = 0, key = 0, opid = 0;
  bool ins = false;
  uint64_t inv = 0, ret = 0;
  uint32_t rclk = 0;
  bool done = false, strict = false;
  int res = 0;  // 0 miss / end, 1 present (lookup hit or insertion returned false), 2 inserted
  const void* addr = nullptr;
  uint64_t val = 0;
  bool has_val = false;
  std::vector<int> hb;  // finished ops that happen-before this op's invocation (store-buffer runs)
};

struct Hist {
  std::vector<Rec*> recs;
  Rec* begin(int t, int kind, int key, int opid) {
    Rec* r = new Rec();
    r->tid = t; r->kind = kind; r->key = key; r->opid = opid; r->ins = is_ins03(kind);
    r->strict = sim::config().storebuf != 0;
    if (r->strict)
      for (size_t i = 0; i < recs.size(); i++)
        if (recs[i]->done && sim::happened_before_me(recs[i]->tid, recs[i]->rclk)) r->hb.push_back((int)i);
    r->inv = sim::stamp();
    recs.push_back(r);
    return r;
  }
  static void end(Rec* r) { r->ret = sim::stamp(); r->rclk = sim::my_clock(); r->done = true; }
  bool ordered_before(const Rec* o, const Rec* t) const {
    if (!(o->done && o->ret < t->inv)) return false;
    if (!t->strict) return true;
    for (int i : t->hb) if (recs[(size_t)i] == o) return true;
    return false;
  }
};

template <class EK, bool FIXED>
void run03(const Plan& p) {
  using C = typename std::conditional<FIXED, FixedOf<EK>, typename EK::Grow>::type;
  Ctx& x = *X;
  const int init = (int)std::min<int64_t>(64, std::max<int64_t>(0, p.get("init", 16)));
  const int U = (int)std::min<int64_t>(200, std::max<int64_t>(1, p.get("universe", 8)));
  int prefill = (int)std::min<int64_t>(120, std::max<int64_t>(0, p.get("prefill", 0)));
  x.hsync = p.get("hsync", 0) != 0;
  if (p.get("ryw", 0)) probe("growth_boundary_read_your_write_shape");
  // Happens-before detector on the value storage (tsm flavour only: in the ship
  // flavour the group is read with a plain 16-byte load, which the simulator's
  // clock rules do not treat as an atomic load).  The simulator keeps release
  // clocks per aligned 4-byte unit and a release store replaces the unit's
  // clock, so two inserters that hold two bytes of one unit BUSY at the same time
  // would lose one writer's clock (false race).  With a single group base
  // (nbase == 1) all inserters of a table serialise on the first free byte of the
  // same window, every writer of a unit has acquired the unit's previous clock
  // through its CAS, and the detector is exact.  hbval=1 (--mode 8) forces it
  // on for all runs (experimental).
  x.hbval = kTsm && (p.get("hbval", 0) != 0 || x.nbase == 1);
  install_hooks();
  C* c = init == 0 ? new C() : new C((size_t)init);
  if constexpr (FIXED) {
    add_table(*c);
  } else {
    using Node = typename std::remove_reference<decltype(c->_head)>::type;
    x.new_node = &new_node_cb<Node>;
    x.node_size = sizeof(Node);
    scan_chain(*c);
  }
  Hist h;
  const bool placeholder_fixed = FIXED && init == 0;
  const char* ename = EK::name();

  auto check_elem = [&](Rec* r, const typename EK::T& e) {
    r->addr = EK::addr(e);
    int k = EK::key_of(e);
    if (k != r->key) fail("wrong-element", kNames[r->kind], "%s(key %d) on %s returned an element whose key reads as %d", kNames[r->kind], r->key, ename, k);
    if (!EK::ok(e)) fail("torn", kNames[r->kind], "%s(key %d) on %s returned an element that is not fully constructed", kNames[r->kind], r->key, ename);
    r->val = EK::val_of(e); r->has_val = true;
  };
  auto check_full_verdict = [&](Rec* r, bool intact) {
    if constexpr (!FIXED) {
      fail("api", "growing-insert-returned-end", "%s(key %d) on growing %s returned end()", kNames[r->kind], r->key, ename);
    } else {
      if (!intact) fail("consumed", "full", "%s(key %d) on full fixed %s returned {end,false} but its movable argument was consumed", kNames[r->kind], r->key, ename);
      if (!placeholder_fixed) {
        const volatile int8_t* ctl = reinterpret_cast<const volatile int8_t*>(c->_controls);
        size_t n = c->_bucket_mask + 1;
        for (size_t i = 0; i < n; i++)
          if (ctl[i] < 0) fail("spurious-full", "free-slot-exists", "%s(key %d) on fixed %s returned {end,false} although slot %zu of %zu is not occupied (control %#x)", kNames[r->kind], r->key, ename, i, n, (unsigned)(uint8_t)ctl[i]);
      }
      probe("fixed_insert_reported_full");
    }
  };
  auto on_ins = [&](Rec* r, auto&& res, bool intact) {
    bool at_end = !(res.first != c->end());
    if (at_end) {
      if (res.second) fail("api", "end-true", "%s(key %d) on %s returned {end,true}", kNames[r->kind], r->key, ename);
      r->res = 0;
      check_full_verdict(r, intact);
    } else {
      check_elem(r, *res.first);
      r->res = res.second ? 2 : 1;
    }
  };

  auto do_op = [&](int t, int kind, int key, int opid, int variant) {
    if (x.hsync) (void)x.sync.load(std::memory_order_acquire);
    Rec* r = h.begin(t, kind, key, opid);
    sim::set_crash_site(kNames[kind]);
    t_ctor_in_table = 0;
    uint64_t val = ((uint64_t)(t + 1) << 32) | (uint64_t)(uint32_t)(opid + 1);
    int kk = kind;
    if (kk == K_TRY_EMPLACE && !(std::is_same<EK, EMAPC>::value && !FIXED)) kk = K_EMPLACE;
    if (kk == K_INDEX && !(std::is_same<EK, EMAPC>::value && !FIXED)) kk = K_EMPLACE;
    switch (kk) {
      case K_EMPLACE: {
        bool intact = true;
        auto res = EK::op_emplace(*c, key, val, variant, intact);
        on_ins(r, res, intact);
        break;
      }
      case K_INSERT: {
        bool intact = true;
        if constexpr (std::is_same<EK, EMAPS>::value || std::is_same<EK, EMAPM>::value) {
          auto res = EK::op_emplace(*c, key, val, variant, intact);
          on_ins(r, res, intact);
        } else {
          auto res = EK::op_insert(*c, key, val, variant, intact);
          on_ins(r, res, intact);
        }
        break;
      }
      case K_TRY_EMPLACE: {
        if constexpr (std::is_same<EK, EMAPC>::value && !FIXED) {
          MoArg a(val);
          auto res = c->try_emplace(EK::make_key(key), std::move(a));
          on_ins(r, res, a.v == val);
        }
        break;
      }
      case K_INDEX: {
        if constexpr (std::is_same<EK, EMAPC>::value && !FIXED) {
          Counted& v = (*c)[EK::make_key(key)];
          r->addr = &v;
          if (!v.ok()) fail("torn", "index", "operator[](key %d) returned a mapped value that is not fully constructed", key);
          r->val = v.v; r->has_val = true;
          r->res = t_ctor_in_table > 0 ? 2 : 1;
        }
        break;
      }
      case K_FIND: {
        auto k = EK::make_key(key);
        auto it = c->find(k);
        if (it != c->end()) { check_elem(r, *it); r->res = 1; } else r->res = 0;
        break;
      }
      case K_CONTAINS: {
        auto k = EK::make_key(key);
        r->res = c->contains(k) ? 1 : 0;
        break;
      }
      case K_COUNT: {
        auto k = EK::make_key(key);
        size_t n = c->count(k);
        if (n > 1) fail("api", "count", "count(key %d) returned %zu", key, n);
        r->res = n ? 1 : 0;
        break;
      }
      default: break;
    }
    sim::set_crash_site(nullptr);
    Hist::end(r);
    if (x.hsync) x.sync.fetch_add(1, std::memory_order_release);
  };

  // legal history prefix through the public API: fillers from the same hash pools
  int mop = 100000;
  for (int i = 0; i < prefill; i++) {
    OpScope sc(mop++);
    do_op(0, K_EMPLACE, kFiller0 + i, mop, 0);
    if (FIXED && h.recs.back()->res == 0) { prefill = i; break; }
  }
  int chain0 = 0;
  if constexpr (!FIXED) chain0 = chain_len(*c);
  x.ctor_at.clear(); x.dtor_at.clear(); x.ctor_total = x.dtor_total = 0;
  const size_t first_conc = h.recs.size();

  x.concurrent = true;
  hx::Workers w;
  w.start(p, [&](int t, const Op& op) {
    int key = (int)std::min<int64_t>(U - 1, std::max<int64_t>(0, op.a));
    int kind = op.kind <= K_COUNT ? op.kind : K_FIND;
    do_op(t, kind, key, op.id, (int)(op.b & 3));
  }, 1);
  w.join();
  x.concurrent = false;

  int chain1 = 0;
  if constexpr (!FIXED) {
    chain1 = chain_len(*c);
    scan_chain(*c);
    if (chain1 > chain0) probe("growth_steps_in_concurrent_phase", (uint64_t)(chain1 - chain0));
    if (chain1 > 0) probe("growth_steps_total", (uint64_t)chain1);
  }

  // final lookups by main (joined => ordered after everything)
  std::set<int> keys;
  for (Rec* r : h.recs) keys.insert(r->key);
  for (int k = 0; k < U; k++) keys.insert(k);
  for (int k : keys) { OpScope sc(mop++); do_op(0, K_FIND, k, mop, 0); }

  // ---- history oracle ----
  std::map<int, std::vector<Rec*>> by_key;
  for (Rec* r : h.recs) by_key[r->key].push_back(r);
  size_t present_keys = 0;
  bool cross_pair_seen = false;
  for (auto& kv : by_key) {
    int k = kv.first;
    auto& v = kv.second;
    std::vector<Rec*> winners;
    Rec* anyp = nullptr;
    for (Rec* r : v) { if (r->res == 2) winners.push_back(r); if (r->res != 0 && !anyp) anyp = r; }
    if (winners.size() > 1)
      fail("duplicate", "two-winners", "key %d on %s: %zu insertions reported true (%s op %d by T%d and %s op %d by T%d)", k, ename, winners.size(),
           kNames[winners[0]->kind], winners[0]->opid, winners[0]->tid, kNames[winners[1]->kind], winners[1]->opid, winners[1]->tid);
    if (anyp && winners.empty())
      fail("phantom", "no-winner", "key %d on %s: %s op %d by T%d found the key although no insertion reported true", k, ename, kNames[anyp->kind], anyp->opid, anyp->tid);
    if (!winners.empty()) present_keys++;
    const Rec* fa = nullptr;
    const Rec* fv = nullptr;
    for (Rec* r : v) {
      if (r->addr) {
        if (!fa) fa = r;
        else if (fa->addr != r->addr)
          fail("duplicate", "address", "key %d on %s: %s op %d by T%d got element %p but %s op %d by T%d got %p", k, ename, kNames[fa->kind], fa->opid, fa->tid, fa->addr, kNames[r->kind], r->opid, r->tid, r->addr);
      }
      if (r->has_val) {
        if (!fv) fv = r;
        else if (fv->val != r->val)
          fail("torn", "value-differs", "key %d on %s: two operations read different contents (%#llx, %#llx) from the element", k, ename, (unsigned long long)fv->val, (unsigned long long)r->val);
      }
    }
    for (Rec* b : v) {
      if (b->tid != 0 && !cross_pair_seen)
        for (Rec* a : v)
          if (a != b && a->res != 0 && a->tid != 0 && a->tid != b->tid && h.ordered_before(a, b)) { cross_pair_seen = true; break; }
      if (b->res == 0) {
        for (Rec* a : v)
          if (a != b && a->res != 0 && h.ordered_before(a, b)) {
            fail("missed", kNames[b->kind], "key %d on %s: %s op %d by T%d %s although %s op %d by T%d had %s before it was invoked%s", k, ename, kNames[b->kind], b->opid, b->tid,
                 b->ins ? "reported the table full" : "missed", kNames[a->kind], a->opid, a->tid,
                 a->res == 2 ? "inserted the key and returned" : "already found the key and returned", b->strict ? " (happens-before)" : "");
          }
        if (FIXED && b->ins && !winners.empty())
          fail("spurious-full", "winner-exists", "key %d on fixed %s: %s op %d by T%d reported the table full, yet %s op %d by T%d inserted that key", k, ename, kNames[b->kind], b->opid, b->tid, kNames[winners[0]->kind], winners[0]->opid, winners[0]->tid);
      } else if (!winners.empty() && winners[0]->inv > b->ret) {
        fail("phantom", "before-insert", "key %d on %s: %s op %d by T%d found the key before the only successful insertion (op %d by T%d) was invoked", k, ename, kNames[b->kind], b->opid, b->tid, winners[0]->opid, winners[0]->tid);
      }
    }
    // constructions that took place in the winning element's storage (concurrent phase only)
    if (winners.size() == 1 && (std::is_same<EK, EMAPC>::value || std::is_same<EK, EMOK>::value) && winners[0]->addr) {
      if ((size_t)(std::find(h.recs.begin(), h.recs.end(), winners[0]) - h.recs.begin()) >= first_conc) {
        auto it = x.ctor_at.find(winners[0]->addr);
        int n = it == x.ctor_at.end() ? 0 : it->second;
        if (n != 1) fail("ctor-count", "per-key", "key %d on %s: %d constructions took place in the element's storage (expected exactly 1)", k, ename, n);
      }
    }
  }
  if (std::is_same<EK, EMAPC>::value || std::is_same<EK, EMOK>::value) {
    size_t conc_winners = 0;
    for (size_t i = first_conc; i < h.recs.size(); i++) if (h.recs[i]->res == 2) conc_winners++;
    if (x.ctor_total != conc_winners)
      fail("ctor-count", "total", "%llu objects were constructed inside table storage during the concurrent phase but %zu insertions reported true (%s)", (unsigned long long)x.ctor_total, conc_winners, ename);
    if (x.dtor_total != 0)
      fail("ctor-count", "destroyed", "%llu objects inside table storage were destroyed during the concurrent phase (%s)", (unsigned long long)x.dtor_total, ename);
  }

  // ---- quiescent clauses (shared with C18) ----
  sim::set_crash_site("quiescent-iteration");
  const char* qsite = FIXED ? "fixed" : "regular";
  if constexpr (!FIXED) { if (head_is_placeholder(*c) && chain1 > 0) qsite = "default-head-chained"; }
  {
    std::map<int, int> seen;
    size_t steps = 0, limit = 0;
    for (int i = 0; i < x.ntabs; i++) limit += x.tabs[i].buckets;
    for (auto it = c->begin(); it != c->end(); ++it) {
      if (++steps > limit + 1) fail("iteration", qsite, "iteration over %s did not terminate after %zu steps", ename, steps);
      const auto& e = *it;
      int k = EK::key_of(e);
      if (!EK::ok(e)) fail("torn", "iteration", "iteration over %s yielded an element (key %d) that is not fully constructed", ename, k);
      if (++seen[k] > 1) fail("iteration", qsite, "iteration over %s yielded key %d twice", ename, k);
      auto bk = by_key.find(k);
      bool present = false;
      if (bk != by_key.end()) for (Rec* r : bk->second) if (r->res == 2) present = true;
      if (!present) fail("iteration", qsite, "iteration over %s yielded key %d that was never inserted", ename, k);
    }
    if (seen.size() != present_keys) {
      int missing = -1;
      for (auto& kv : by_key) {
        bool present = false;
        for (Rec* r : kv.second) if (r->res == 2) present = true;
        if (present && !seen.count(kv.first)) { missing = kv.first; break; }
      }
      fail("iteration", qsite, "iteration over %s yielded %zu of %zu inserted keys (key %d missing; %d chained tables)", ename, seen.size(), present_keys, missing, chain1);
    }
    size_t sz = c->size();
    if (sz != present_keys) fail("size", qsite, "size() of %s = %zu but %zu keys were inserted (%d chained tables)", ename, sz, present_keys, chain1);
    if (c->empty() != (present_keys == 0)) probe("empty_disagrees_with_content");
  }
  // reach measures
  if (cross_pair_seen) probe("cross_thread_ordered_pair_checked");
  for (size_t i = first_conc; i < h.recs.size(); i++) {
    Rec* b = h.recs[i];
    if (b->tid == 0) continue;
    for (size_t j = first_conc; j < h.recs.size(); j++) {
      Rec* a = h.recs[j];
      if (a == b || a->key != b->key || a->tid == b->tid || a->tid == 0) continue;
      bool overlap = !(a->ret < b->inv) && !(b->ret < a->inv);
      if (overlap && a->ins && b->ins) { probe("same_key_insertions_overlapped"); break; }
    }
    if (FIXED && b->ins && b->res == 0 && !placeholder_fixed)
      for (size_t j = first_conc; j < h.recs.size(); j++) {
        Rec* a = h.recs[j];
        if (a->tid != b->tid && a->tid != 0 && !(a->ret < b->inv) && !(b->ret < a->inv)) { probe("full_verdict_overlapped_other_op"); break; }
      }
    if (b->strict && !b->hb.empty()) { bool cross = false; for (int q : b->hb) if (h.recs[(size_t)q]->tid != b->tid && h.recs[(size_t)q]->tid != 0) cross = true; if (cross) probe("sb_op_with_cross_thread_hb_predecessor"); }
  }
  drop_tables();
  delete c;
  for (Rec* r : h.recs) delete r;
}

void gen03(Rng& r, Plan& p, const GenParams& gp) {
  gen_common(r, p, SB_HALF, false, kTsm ? 8000 : 2500);
  p.cfg["prop"] = 3;
  int mode = gp.mode;
  bool hbmode = mode == 8;
  if (hbmode) mode = -1;
  int cont = (mode >= 0 && mode < 8) ? mode / 4 : (r.chance(2, 5) ? 1 : 0);
  int elem = (mode >= 0 && mode < 8) ? mode % 4 : (int)r.below(4);
  p.cfg["cont"] = cont; p.cfg["elem"] = elem;
  p.cfg["hbval"] = hbmode ? 1 : 0;
  static const int inits[] = {0, 1, 16, 32};
  int init;
  if (cont == 1) init = r.chance(1, 12) ? 0 : inits[1 + r.below(3)];
  else init = inits[r.below(4)];
  p.cfg["init"] = init;
  int cap0 = init == 0 ? (cont == 1 ? 0 : 32) : (init <= 16 ? 16 : 32);
  p.cfg["cap0"] = cap0 ? cap0 : 16;
  int U = (int)r.range(4, gp.thorough ? 60 : 40);
  int prefill = 0;
  if (cont == 1) {
    if (cap0 > 0) {
      if (r.chance(3, 4)) prefill = cap0 - (int)r.range(1, 6);
      else U = (int)r.range(cap0 + 2, 40);
    }
  } else {
    // cumulative capacities of the chain: init 0 -> (placeholder) 32, 96; init<=16 -> 16, 48, 112; init 32 -> 32, 96
    int b1 = init == 0 ? 32 : cap0, b2 = init == 0 ? 96 : cap0 * 3;
    int c3 = (int)r.below(6);
    if (c3 < 2) prefill = 0;
    else if (c3 < 5) prefill = std::max(0, b1 - (int)r.range(0, 5));
    else prefill = std::max(0, b2 - (int)r.range(0, 5));
  }
  p.cfg["universe"] = U;
  p.cfg["prefill"] = prefill;
  p.cfg["hseed"] = (int64_t)(r.next() & 0x7fffffff);
  p.cfg["nbase"] = (int64_t)r.range(1, 4);
  p.cfg["ntag"] = (int64_t)r.range(1, 3);
  p.cfg["hsync"] = r.chance(1, 2);
  { static const int cys[] = {1, 1, 4, 16, 32}; p.cfg["cy"] = cys[r.below(5)]; }
  int nthreads = (int)r.range(2, gp.thorough ? 5 : 4);
  p.threads.resize((size_t)nthreads + 1);
  int nhot = (int)r.range(1, 3);
  int hot[3];
  for (int i = 0; i < 3; i++) hot[i] = (int)r.below((uint64_t)U);
  int hot_num = cont == 1 ? 1 : 2;  // fixed tables: mostly distinct keys so that the table really fills up
  int opid = 0;
  // growth-boundary read-your-write shape (growing containers, a fifth of the
  // runs): the chain is prefilled to 0-3 slots below a table boundary, every
  // thread inserts fresh keys of its own and looks each one up right after its
  // insertion returned, and a thread can be stalled between publishing a slot
  // and whatever bookkeeping follows (post_pts). Reaches "the inserter that
  // completed table N is delayed while the next key already lives in N+1"
  // (seeded change C03-8: find() stopped walking at a table whose size counter
  // was still one short).
  if (cont == 0 && r.chance(1, 5)) {
    int b1 = init == 0 ? 32 : cap0, b2 = init == 0 ? 96 : cap0 * 3;
    prefill = std::max(0, (r.chance(2, 3) ? b1 : b2) - (int)r.range(0, 3));
    p.cfg["prefill"] = prefill;
    p.cfg["post_pts"] = 1;
    p.cfg["post_stall"] = 12;
    p.cfg["ryw"] = 1;
    if (U < 40) { U = 40; p.cfg["universe"] = U; }
    static const int ins[] = {K_EMPLACE, K_EMPLACE, K_INSERT, K_TRY_EMPLACE, K_INDEX};
    static const int looks[] = {K_FIND, K_FIND, K_CONTAINS, K_COUNT};
    for (int t = 1; t <= nthreads; t++) {
      int npairs = (int)r.range(1, 3);
      for (int i = 0; i < npairs; i++) {
        Op a; a.kind = ins[r.below(5)]; a.a = (t - 1) * 8 + i; a.b = (int64_t)r.below(4); a.id = opid++;
        Op f; f.kind = looks[r.below(4)]; f.a = a.a; f.b = (int64_t)r.below(4); f.id = opid++;
        p.threads[(size_t)t].push_back(a);
        p.threads[(size_t)t].push_back(f);
      }
    }
    return;
  }
  for (int t = 1; t <= nthreads; t++) {
    int nops = (int)r.range(3, 10);
    for (int i = 0; i < nops; i++) {
      Op o;
      static const int ks[] = {K_EMPLACE, K_EMPLACE, K_EMPLACE, K_INSERT, K_INSERT, K_TRY_EMPLACE, K_INDEX, K_FIND, K_FIND, K_CONTAINS, K_COUNT};
      o.kind = ks[r.below(11)];
      o.a = r.chance((uint32_t)hot_num, 4) ? hot[r.below((uint64_t)nhot)] : (int64_t)r.below((uint64_t)U);
      o.b = (int64_t)r.below(4);
      o.id = opid++;
      p.threads[(size_t)t].push_back(o);
    }
  }
}

// ---------------------------------------------------------------------------
// C18
struct Ref { std::map<int, uint64_t> m; };

template <class EK>
void run18(const Plan& p) {
  using C = typename EK::Grow;
  using Node = typename std::remove_reference<decltype(((C*)nullptr)->_head)>::type;
  Ctx& x = *X;
  const int init = (int)std::min<int64_t>(128, std::max<int64_t>(0, p.get("init", 0)));
  const int U = (int)std::min<int64_t>(200, std::max<int64_t>(1, p.get("universe", 8)));
  const bool defer_size = p.get("report", 0) != 0;
  const char* ename = EK::name();
  install_hooks();
  x.new_node = &new_node_cb<Node>;
  x.node_size = sizeof(Node);
  C* box[2] = {init == 0 ? new C() : new C((size_t)init), new C()};
  Ref ref[2];
  int cur = 0;
  struct Deferred { std::string cls, site, msg; };
  std::vector<Deferred> deferred;
  char what[160] = "construction";

  auto rescan = [&]() { drop_tables(); scan_chain(*box[0]); scan_chain(*box[1]); };
  auto mismatch = [&](bool is_size, const char* cls, const std::string& site, const char* fmt, auto... args) {
    char b[600];
    snprintf(b, sizeof b, fmt, args...);
    if (is_size && defer_size) { deferred.push_back(Deferred{cls, site, b}); return; }
    fail(cls, site.c_str(), "%s", b);
  };
  auto ctx_site = [&](C& c, const char* clause) {
    std::string s = clause;
    if (head_is_placeholder(c) && chain_len(c) > 0) s += "@default-head-chained";
    return s;
  };
  auto check_elem = [&](C& c, int bi_, const typename EK::T& e, int k, const char* how) {
    int kk = EK::key_of(e);
    if (kk != k) mismatch(false, "find", ctx_site(c, "wrong-element"), "after %s: %s for key %d on %s (container %d) returned an element with key %d", what, how, k, ename, bi_, kk);
    if (!EK::ok(e)) mismatch(false, "value", ctx_site(c, "torn"), "after %s: element for key %d of %s (container %d) is not intact", what, k, ename, bi_);
    if (EK::is_map) {
      auto it = ref[bi_].m.find(k);
      if (it != ref[bi_].m.end() && EK::val_of(e) != it->second)
        mismatch(false, "value", ctx_site(c, "not-first-inserted"), "after %s: %s for key %d on %s (container %d) holds value %#llx, first inserted was %#llx", what, how, k, ename, bi_, (unsigned long long)EK::val_of(e), (unsigned long long)it->second);
    }
  };
  auto compare = [&](int bi_) {
    C& c = *box[bi_];
    Ref& rf = ref[bi_];
    if (chain_len(c) >= 2) probe("compared_with_two_or_more_chained_tables");
    if (head_is_placeholder(c) && chain_len(c) >= 2) probe("compared_default_head_past_first_chained_table");
    // find: every present key and a handful of absent ones
    int absent_budget = 6;
    for (int k = 0; k < U; k++) {
      bool present = rf.m.count(k) != 0;
      if (!present && absent_budget-- <= 0) continue;
      auto key = EK::make_key(k);
      bool hit;
      if (k & 1) { const C& cc = c; auto it = cc.find(key); hit = it != cc.end(); if (hit) check_elem(c, bi_, *it, k, "find"); }
      else { auto it = c.find(key); hit = it != c.end(); if (hit) check_elem(c, bi_, *it, k, "find"); }
      if (hit != present)
        mismatch(false, "find", ctx_site(c, present ? "present-missed" : "absent-found"), "after %s: find(key %d) on %s (container %d) %s but the reference says the key is %s (%zu keys, %d chained tables)", what, k, ename, bi_, hit ? "hit" : "missed", present ? "present" : "absent", rf.m.size(), chain_len(c));
    }
    // iteration
    std::map<int, int> seen;
    size_t limit = 16, steps = 0;
    for (int i = 0; i < x.ntabs; i++) limit += x.tabs[i].buckets;
    for (auto it = c.begin(); it != c.end(); ++it) {
      if (++steps > limit) mismatch(false, "iteration", ctx_site(c, "endless"), "after %s: iteration over %s (container %d) did not end after %zu steps", what, ename, bi_, steps);
      const auto& e = *it;
      int k = EK::key_of(e);
      if (++seen[k] > 1) mismatch(false, "iteration", ctx_site(c, "duplicate"), "after %s: iteration over %s (container %d) yielded key %d twice", what, ename, bi_, k);
      if (!rf.m.count(k)) mismatch(false, "iteration", ctx_site(c, "invented"), "after %s: iteration over %s (container %d) yielded key %d which the reference does not hold", what, ename, bi_, k);
      check_elem(c, bi_, e, k, "iteration");
    }
    if (seen.size() != rf.m.size()) {
      int missing = -1;
      for (auto& kv : rf.m) if (!seen.count(kv.first)) { missing = kv.first; break; }
      mismatch(false, "iteration", ctx_site(c, "missing"), "after %s: iteration over %s (container %d) yielded %zu of %zu elements (e.g. key %d missing; %d chained tables%s)", what, ename, bi_, seen.size(), rf.m.size(), missing, chain_len(c), head_is_placeholder(c) ? ", head is the default-constructed placeholder" : "");
    }
    size_t sz = c.size();
    if (sz != rf.m.size())
      mismatch(true, "size", ctx_site(c, "size"), "after %s: size() of %s (container %d) = %zu but it holds %zu elements (%d chained tables%s)", what, ename, bi_, sz, rf.m.size(), chain_len(c), head_is_placeholder(c) ? ", head is the default-constructed placeholder" : "");
    if (c.empty() != rf.m.empty()) probe("empty_disagrees_with_content");
  };
  auto seq_emplace = [&](int bi_, int k, uint64_t val) {
    bool intact = true;
    auto res = EK::op_emplace(*box[bi_], k, val, 0, intact);
    bool present = ref[bi_].m.count(k) != 0;
    if (!(res.first != box[bi_]->end()))
      mismatch(false, "emplace", "returned-end", "during %s: emplace(key %d) on %s returned end()", what, k, ename);
    if (res.second == present)
      mismatch(false, "emplace", ctx_site(*box[bi_], present ? "reinserted" : "refused"), "during %s: emplace(key %d) on %s (container %d) returned %s but the reference says the key was %s", what, k, ename, bi_, res.second ? "true" : "false", present ? "present" : "absent");
    if (!present) ref[bi_].m[k] = val;
    check_elem(*box[bi_], bi_, *res.first, k, "emplace");
  };

  // collect phases
  int64_t maxph = -1;
  for (auto& th : p.threads) for (auto& op : th) maxph = std::max(maxph, op.c);
  maxph = std::min<int64_t>(maxph, 64);
  rescan();
  compare(0); compare(1);
  int spawned = 0;
  for (int64_t ph = 0; ph <= maxph; ph++) {
    bool touched[2] = {false, false};
    bool any = false;
    // structural ops of this phase (main thread alone)
    if (!p.threads.empty())
      for (auto& op : p.threads[0]) {
        if (op.c != ph) continue;
        any = true;
        OpScope sc(op.id);
        int other = cur ^ 1;
        C& c = *box[cur];
        size_t n = (size_t)std::min<int64_t>(300, std::max<int64_t>(0, op.a));
        snprintf(what, sizeof what, "phase %lld %s(%lld)", (long long)ph, op.kind >= 0 && op.kind <= S_FIND ? kNames[op.kind] : "?", (long long)op.a);
        sim::set_crash_site(op.kind >= 0 && op.kind <= S_FIND ? kNames[op.kind] : "?");
        switch (op.kind) {
          case S_NEW: delete box[cur]; box[cur] = n == 0 ? new C() : new C(n); ref[cur].m.clear(); touched[cur] = true; break;
          case S_CLEAR: c.clear(); ref[cur].m.clear(); touched[cur] = true; break;
          case S_RESERVE: c.reserve(n); touched[cur] = true; break;
          case S_REHASH: c.rehash(n); touched[cur] = true; break;
          case S_COPY_CTOR:
            if constexpr (EK::copyable) { C* nc = new C(static_cast<const C&>(c)); delete box[other]; box[other] = nc; ref[other] = ref[cur]; touched[other] = touched[cur] = true; }
            else { C* nc = new C(std::move(c)); delete box[other]; box[other] = nc; ref[other] = ref[cur]; c.clear(); ref[cur].m.clear(); touched[0] = touched[1] = true; }
            break;
          case S_COPY_ASSIGN:
            if constexpr (EK::copyable) { *box[other] = static_cast<const C&>(c); ref[other] = ref[cur]; touched[other] = touched[cur] = true; }
            else { *box[other] = std::move(c); ref[other] = ref[cur]; c.clear(); ref[cur].m.clear(); touched[0] = touched[1] = true; }
            break;
          case S_MOVE_ASSIGN:
            // the moved-from container is only required to be valid: it is cleared before further use
            *box[other] = std::move(c); ref[other] = ref[cur]; c.clear(); ref[cur].m.clear(); touched[0] = touched[1] = true;
            break;
          case S_MOVE_CTOR: {
            C* nc = new C(std::move(c)); delete box[other]; box[other] = nc; ref[other] = ref[cur]; c.clear(); ref[cur].m.clear(); touched[0] = touched[1] = true;
            break;
          }
          case S_SWAP: box[0]->swap(*box[1]); std::swap(ref[0], ref[1]); touched[0] = touched[1] = true; break;
          case S_SWITCH: cur ^= 1; touched[cur] = true; break;
          case S_FILL: {
            int start = (int)std::min<int64_t>(U - 1, std::max<int64_t>(0, op.b));
            for (size_t i = 0; i < n && i < (size_t)U; i++) seq_emplace(cur, (start + (int)i) % U, ((uint64_t)(op.id + 1) << 16) | (uint64_t)i);
            touched[cur] = true;
            break;
          }
          case S_ITERATE: case S_SIZE: touched[cur] = true; break;  // the comparison below performs them
          case S_FIND: {
            int k = (int)std::min<int64_t>(U - 1, std::max<int64_t>(0, op.a));
            auto key = EK::make_key(k);
            bool hit = c.contains(key), present = ref[cur].m.count(k) != 0;
            size_t cn = c.count(key);
            if (hit != present || cn != (present ? 1u : 0u))
              mismatch(false, "find", ctx_site(c, present ? "present-missed" : "absent-found"), "during %s: contains/count(key %d) on %s = %d/%zu but the reference says %s", what, k, ename, (int)hit, cn, present ? "present" : "absent");
            break;
          }
          default: break;
        }
      }
    // concurrent batch of this phase
    struct WRec { int t, kind, key, opid; bool inserted = false, hit = false; uint64_t val = 0, seen = 0; const void* addr = nullptr; };
    std::vector<std::vector<const Op*>> batch(p.threads.size());
    bool have_batch = false;
    for (size_t t = 1; t < p.threads.size(); t++)
      for (auto& op : p.threads[t]) if (op.c == ph && (op.kind == W_EMPLACE || op.kind == W_FIND)) { batch[t].push_back(&op); have_batch = true; }
    if (have_batch && spawned < 30) {
      any = true;
      snprintf(what, sizeof what, "phase %lld concurrent batch", (long long)ph);
      rescan();
      std::vector<WRec*> wr;
      C* c = box[cur];
      x.concurrent = true;
      std::vector<std::thread> th;
      for (size_t t = 1; t < p.threads.size(); t++) {
        if (batch[t].empty()) continue;
        spawned++;
        std::vector<const Op*> ops = batch[t];
        th.emplace_back([&, t, ops]() {
          for (const Op* op : ops) {
            OpScope sc(op->id);
            WRec* w = new WRec();
            w->t = (int)t; w->kind = op->kind; w->opid = op->id;
            w->key = (int)std::min<int64_t>(U - 1, std::max<int64_t>(0, op->a));
            w->val = ((uint64_t)(op->id + 1) << 16) | 0xFFFF;
            sim::set_crash_site(kNames[op->kind]);
            if (op->kind == W_EMPLACE) {
              bool intact = true;
              auto res = EK::op_emplace(*c, w->key, w->val, 0, intact);
              if (!(res.first != c->end())) fail("emplace", "returned-end", "concurrent emplace(key %d) on %s returned end()", w->key, ename);
              w->inserted = res.second; w->hit = true;
              const auto& e = *res.first;
              if (EK::key_of(e) != w->key || !EK::ok(e)) fail("value", "torn", "concurrent emplace(key %d) on %s returned an element that is not intact (key reads %d)", w->key, ename, EK::key_of(e));
              w->seen = EK::val_of(e); w->addr = EK::addr(e);
            } else {
              auto key = EK::make_key(w->key);
              auto it = c->find(key);
              w->hit = it != c->end();
              if (w->hit) {
                const auto& e = *it;
                if (EK::key_of(e) != w->key || !EK::ok(e)) fail("value", "torn", "concurrent find(key %d) on %s returned an element that is not intact (key reads %d)", w->key, ename, EK::key_of(e));
                w->seen = EK::val_of(e); w->addr = EK::addr(e);
              }
            }
            wr.push_back(w);
          }
        });
      }
      for (auto& t : th) t.join();
      x.concurrent = false;
      // evaluate the batch against the reference
      std::map<int, std::vector<WRec*>> bk;
      for (WRec* w : wr) bk[w->key].push_back(w);
      for (auto& kv : bk) {
        int k = kv.first;
        bool before = ref[cur].m.count(k) != 0;
        int trues = 0, emplaces = 0;
        WRec* win = nullptr;
        for (WRec* w : kv.second) if (w->kind == W_EMPLACE) { emplaces++; if (w->inserted) { trues++; win = w; } }
        if (before && trues > 0) mismatch(false, "emplace", ctx_site(*c, "reinserted"), "%s: emplace(key %d) on %s returned true although the key was present", what, k, ename);
        if (!before && emplaces > 0 && trues != 1) mismatch(false, "emplace", ctx_site(*c, "batch-winners"), "%s: %d of %d concurrent emplace(key %d) on %s returned true", what, trues, emplaces, k, ename);
        uint64_t expect = before ? ref[cur].m[k] : (win ? win->val : 0);
        if (!before && win) ref[cur].m[k] = win->val;
        const void* a0 = nullptr;
        for (WRec* w : kv.second) {
          if (before && !w->hit) mismatch(false, "find", ctx_site(*c, "present-missed"), "%s: find(key %d) on %s missed a key that was present before the batch", what, k, ename);
          if (!before && emplaces == 0 && w->hit) mismatch(false, "find", ctx_site(*c, "absent-found"), "%s: find(key %d) on %s hit a key nobody inserted", what, k, ename);
          if (w->hit && EK::is_map && w->seen != expect) mismatch(false, "value", ctx_site(*c, "not-first-inserted"), "%s: key %d on %s read value %#llx, first inserted was %#llx", what, k, ename, (unsigned long long)w->seen, (unsigned long long)expect);
          if (w->addr) { if (!a0) a0 = w->addr; else if (a0 != w->addr) mismatch(false, "emplace", ctx_site(*c, "two-elements"), "%s: key %d on %s was seen at two addresses", what, k, ename); }
        }
      }
      for (WRec* w : wr) delete w;
      touched[cur] = true;
    }
    if (!any) continue;
    sim::set_crash_site("compare");
    rescan();
    for (int b = 0; b < 2; b++) if (touched[b]) compare(b);
  }
  drop_tables();
  delete box[0];
  delete box[1];
  if (!deferred.empty()) fail(deferred[0].cls.c_str(), deferred[0].site.c_str(), "%s (reported at the end of the history: %zu size mismatches, no other clause failed)", deferred[0].msg.c_str(), deferred.size());
}

void gen18(Rng& r, Plan& p, const GenParams& gp) {
  gen_common(r, p, SB_HALF, false, kTsm ? 12000 : 4000);
  p.cfg["prop"] = 18;
  int elem = (gp.mode >= 0 && gp.mode < 6) ? gp.mode : (int)r.below(6);
  p.cfg["elem"] = elem;
  static const int inits[] = {1, 16, 32, 64};
  int init = r.chance(1, 2) ? 0 : inits[r.below(4)];
  p.cfg["init"] = init;
  p.cfg["cap0"] = init == 0 ? 32 : std::max(16, init);
  int U = (int)r.range(8, gp.thorough ? 100 : 72);
  if (init == 0 && r.chance(2, 3)) U = (int)r.range(40, gp.thorough ? 100 : 72);
  p.cfg["universe"] = U;
  p.cfg["report"] = r.chance(1, 2);
  { static const int cys[] = {1, 1, 4, 16}; p.cfg["cy"] = cys[r.below(4)]; }
  p.cfg["hseed"] = (int64_t)(r.next() & 0x7fffffff);
  p.cfg["nbase"] = (int64_t)r.range(1, 4);
  p.cfg["ntag"] = (int64_t)r.range(1, 3);
  p.threads.resize(4);
  int opid = 0;
  auto add = [&](int t, int kind, int64_t a, int64_t b, int64_t ph) { Op o; o.kind = kind; o.a = a; o.b = b; o.c = ph; o.id = opid++; p.threads[(size_t)t].push_back(o); };
  int nph = (int)r.range(4, gp.thorough ? 16 : 12);
  int batches = 0;
  for (int ph = 0; ph < nph; ph++) {
    if (ph == 0 && r.chance(2, 3)) { add(0, S_FILL, r.range(U / 2, U), (int64_t)r.below((uint64_t)U), ph); continue; }
    if (r.chance(2, 5) && batches < 9) {
      batches++;
      int nt = (int)r.range(1, 3);
      for (int t = 1; t <= nt; t++) {
        int nops = (int)r.range(1, 5);
        for (int i = 0; i < nops; i++) add(t, r.chance(7, 10) ? W_EMPLACE : W_FIND, (int64_t)r.below((uint64_t)U), 0, ph);
      }
      continue;
    }
    static const int ks[] = {S_FILL, S_FILL, S_FILL, S_CLEAR, S_CLEAR, S_RESERVE, S_RESERVE, S_RESERVE, S_REHASH, S_REHASH, S_COPY_CTOR, S_COPY_CTOR,
                             S_COPY_ASSIGN, S_COPY_ASSIGN, S_MOVE_ASSIGN, S_MOVE_CTOR, S_SWAP, S_SWITCH, S_NEW, S_ITERATE, S_SIZE, S_FIND};
    int k = ks[r.below(22)];
    int64_t a = 0, b = 0;
    static const int sizes[] = {0, 1, 16, 17, 33, 64, 100, 200};
    switch (k) {
      case S_FILL: a = r.range(1, U); b = (int64_t)r.below((uint64_t)U); break;
      case S_RESERVE: case S_REHASH: a = r.chance(1, 2) ? sizes[r.below(8)] : r.range(0, 2 * U); break;
      case S_NEW: a = r.chance(1, 2) ? 0 : sizes[r.below(6)]; break;
      case S_FIND: a = (int64_t)r.below((uint64_t)U); break;
      default: break;
    }
    add(0, k, a, b, ph);
  }
}

// ---------------------------------------------------------------------------
void gen(Rng& r, Plan& p, const GenParams& gp) {
  if (gp.property && std::string(gp.property) == "C18") gen18(r, p, gp);
  else gen03(r, p, gp);
}

void run(const Plan& p) {
  Ctx* x = new Ctx();
  X = x;
  setup_hash(*x, p);
  int elem = (int)p.get("elem", 0);
  if (p.get("prop", 3) == 18) {
    switch (elem) {
      case 0: run18<EU64>(p); break;
      case 1: run18<ESTR>(p); break;
      case 2: run18<EMOK>(p); break;
      case 3: run18<EMAPC>(p); break;
      case 4: run18<EMAPS>(p); break;
      default: run18<EMAPM>(p); break;
    }
  } else {
    bool fixed = p.get("cont", 0) != 0;
    switch (elem) {
      case 0: if (fixed) run03<EU64, true>(p); else run03<EU64, false>(p); break;
      case 1: if (fixed) run03<ESTR, true>(p); else run03<ESTR, false>(p); break;
      case 2: if (fixed) run03<EMOK, true>(p); else run03<EMOK, false>(p); break;
      default: if (fixed) run03<EMAPC, true>(p); else run03<EMAPC, false>(p); break;
    }
  }
  X = nullptr;
  delete x;
}

const char* const kShrink[] = {"prefill", "universe", nullptr};

}  // namespace

// chunk = 1 (guide rule 10): every table owns a ConcurrentAdder, i.e. an instance
// id from a process-wide IdAllocator plus per-thread storage that is grown on
// first use, so the number of scheduling points inside `_size << 1` depends on
// what earlier runs of the same process did.  Observed: a mutant violation found
// in a 40-run process did not reproduce in a fresh one.
const Harness sim::g_harness = {"hash", kNames, gen, run, kShrink, 1};
