// Harness "ids": IdAllocator / ThreadId / DepositBox — C14.  DESIGN.md §3 C14.
//
// cfg "part": 0 IdAllocator<uint16_t>, 1 IdAllocator<uint32_t>, 2 ThreadId,
//             3 DepositBox   (--mode N selects one part, default mixed)
//
// Plan layout (all parts): p.threads[0] = ops of the harness main thread,
// p.threads[t>=1] = ops of worker t; Op::c is the round / generation in which
// the op runs (workers are spawned per round and joined at its end), so the
// minimiser can delete any op or thread and the rest stays executable.
//
// Singletons: ThreadId's per-tag allocator and DepositBox<T>::instance() are
// process-wide. To keep a run independent of the runs that preceded it in the
// same worker process (a violation must reproduce in a fresh process), run k
// of a process uses its own tag type Tag<k % 40> / Item<k % 40>.
#include <babylon/concurrent/deposit_box.h>
#include <babylon/concurrent/id_allocator.h>

#include <algorithm>
#include <atomic>
#include <condition_variable>
#include <map>
#include <mutex>
#include <set>
#include <utility>
#include <vector>

#include "common.h"

using namespace sim;

namespace {

enum Kind { K_ALLOC, K_DEALLOC, K_END, K_TIDLIFE, K_EMPLACE, K_TAKE, K_TAKEREL, K_CYCLE, K_POST, K_TAKEMAIL };
const char* const kNames[] = {"allocate", "deallocate", "end", "thread_life", "emplace", "take", "take_released", "cycle", "post", "take_mail", nullptr};

int g_runs_in_proc = 0;
constexpr int NTAGS = 40;

// ===========================================================================
// Part 1: IdAllocator<T> on a harness-owned instance
// ===========================================================================
template <typename T>
struct AllocRun {
  typedef babylon::VersionedValue<T> VV;
  typedef typename VV::VersionAndValue Raw;
  babylon::IdAllocator<T> al;
  static constexpr size_t MAXID = 256;
  int holder[MAXID] = {0};        // tid+1 of the current owner
  char freed[MAXID] = {0};        // deallocate(id) has returned and id was not handed out since
  int free_tid[MAXID] = {0};
  uint32_t free_clk[MAXID] = {0};
  int inflight = 0;
  uint64_t calls_started = 0;
  T end_seen = 0;                 // largest end() observed so far
  T max_id_plus1 = 0;
  std::vector<VV> held[8];
  struct Mod { int tid; Raw v; };
  std::vector<Mod> hist;          // committed modifications of _free_head

  static void on_head(void* ctx, const void*, uint64_t, uint64_t newv) {
    AllocRun* s = (AllocRun*)ctx;
    s->hist.push_back(Mod{tid(), (Raw)newv});
  }
  static T val_of(Raw r) { VV v(r); return v.value; }

  void sample_end(const char* where) {
    T e = al.end();
    if (e < end_seen) fail("end-decreased", where, "end() returned %llu after %llu had been observed", (unsigned long long)e, (unsigned long long)end_seen);
    if (e < max_id_plus1) fail("end-too-small", where, "end() returned %llu although id %llu was already handed out", (unsigned long long)e, (unsigned long long)(max_id_plus1 - 1));
    end_seen = e;
  }

  VV do_alloc(int t) {
    uint64_t my = ++calls_started;
    bool alone = inflight == 0;
    inflight++;
    T end0 = al.end();
    size_t nfree = 0;
    for (size_t i = 0; i < MAXID; i++)
      if (freed[i] && (config().storebuf == 0 || happened_before_me(free_tid[i], free_clk[i]))) nfree++;
    size_t h0 = hist.size();
    Raw head0 = *(volatile Raw*)&al._free_head;  // probe only (committed value)
    VV id = al.allocate();
    inflight--;
    alone = alone && calls_started == my;
    // ABA window probe: while this call ran, other threads moved the head
    // away from the value we may have read and back to it
    if (val_of(head0) != al.FREE_LIST_TAIL) {
      bool away = false;
      for (size_t i = h0; i < hist.size(); i++) {
        if (hist[i].tid == tid()) break;
        if (val_of(hist[i].v) != val_of(head0)) away = true;
        else if (away) { probe("alloc_head_aba_window"); break; }
      }
    }
    if ((size_t)id.value >= MAXID) fail("invented", "allocate", "allocate returned id %llu, far beyond everything ever minted", (unsigned long long)id.value);
    if (holder[id.value] != 0)
      fail("duplicate", "allocate", "allocate in T%d returned id %llu which is currently held by T%d", t, (unsigned long long)id.value, holder[id.value] - 1);
    bool was_free = freed[id.value];
    holder[id.value] = t + 1;
    freed[id.value] = 0;
    if (id.value + 1 > max_id_plus1) max_id_plus1 = id.value + 1;
    if (alone && nfree > 0) {
      probe("alloc_alone_with_free_values");
      if (id.value >= end0 || !was_free)
        fail("no-reuse", "allocate", "allocate returned new id %llu although %zu freed ids were available and no other call was in progress", (unsigned long long)id.value, nfree);
    }
    if (was_free) probe("alloc_reused_freed_id");
    sample_end("after-allocate");
    held[t].push_back(id);
    return id;
  }

  void do_dealloc(int t, int64_t which, bool value_only) {
    if (held[t].empty()) return;
    size_t idx = which <= 0 ? held[t].size() - 1 : (size_t)(which - 1) % held[t].size();
    VV id = held[t][idx];
    held[t].erase(held[t].begin() + (long)idx);
    if (holder[id.value] != t + 1) fail("harness", "deallocate", "harness table inconsistent");
    holder[id.value] = 0;  // from the push on anybody may legitimately get it
    ++calls_started;
    inflight++;
    if (value_only) al.deallocate(VV((Raw)id.value));
    else al.deallocate(id);
    inflight--;
    if (holder[id.value] == 0) { freed[id.value] = 1; free_tid[id.value] = tid(); free_clk[id.value] = my_clock(); }
    sample_end("after-deallocate");
  }

  void check_for_each(const char* where) {
    std::vector<std::pair<uint64_t, uint64_t>> ranges;
    al.for_each([&](T b, T e) { ranges.push_back({b, e}); });
    std::set<uint64_t> seen;
    uint64_t prev_end = 0;
    T e = al.end();
    for (auto& r : ranges) {
      if (r.first >= r.second) fail("for-each", where, "for_each reported empty/inverted range [%llu,%llu)", (unsigned long long)r.first, (unsigned long long)r.second);
      if (r.first < prev_end) fail("for-each", where, "for_each ranges not ascending: [%llu,%llu) after end %llu", (unsigned long long)r.first, (unsigned long long)r.second, (unsigned long long)prev_end);
      if (r.second > e) fail("for-each", where, "for_each range [%llu,%llu) exceeds end() %llu", (unsigned long long)r.first, (unsigned long long)r.second, (unsigned long long)e);
      prev_end = r.second;
      for (uint64_t i = r.first; i < r.second; i++) seen.insert(i);
    }
    for (size_t i = 0; i < MAXID; i++) {
      bool h = holder[i] != 0;
      if (h && !seen.count(i)) fail("for-each", where, "for_each at quiescence misses held id %zu", i);
      if (!h && seen.count(i)) fail("for-each", where, "for_each at quiescence reports id %zu which is not held (freed or never allocated)", i);
    }
    if (ranges.size() > 1) probe("for_each_multiple_ranges");
  }

  void run(const Plan& p) {
    // history prefix: pretend the free list has been pushed ver0 times
    // (private state set before first use; reachable by ver0 push/pop pairs)
    T ver0 = (T)p.get("ver0", 0);
    al._free_head.version = ver0;
    sim::watch(&al._free_head, sizeof(VV), on_head, this);
    size_t nth = std::min<size_t>(p.threads.size(), 8);
    // pre-fill by thread 0's ops
    if (!p.threads.empty())
      for (auto& op : p.threads[0]) {
        OpScope sc(op.id);
        if (op.kind == K_ALLOC) do_alloc(0);
        else if (op.kind == K_DEALLOC) do_dealloc(0, op.a, op.b != 0);
      }
    // hand the ids still held by main to the workers (round robin)
    {
      size_t w = 1;
      std::vector<VV> mine;
      mine.swap(held[0]);
      for (auto& id : mine) {
        size_t tries = 0;
        while (tries < nth && (w >= nth || p.threads[w].empty())) { w = w + 1 >= nth ? 1 : w + 1; tries++; }
        size_t t = (w < nth && !p.threads[w].empty()) ? w : 0;
        holder[id.value] = (int)t + 1;
        held[t].push_back(id);
        w++;
      }
    }
    check_for_each("after-prefill");
    hx::Workers wk;
    wk.start(p, [this](int t, const Op& op) {
      if (t >= 8) return;
      switch (op.kind) {
        case K_ALLOC: do_alloc(t); break;
        case K_DEALLOC: do_dealloc(t, op.a, op.b != 0); break;
        case K_END: sample_end("end"); break;
        default: break;
      }
    }, 1);
    wk.join();
    sample_end("quiescent");
    check_for_each("after-join");
    // quiescent reuse: every freed id comes back before anything new is minted
    size_t nfree = 0;
    for (size_t i = 0; i < MAXID; i++) if (freed[i]) nfree++;
    T e0 = al.end();
    size_t nheld = 0;
    for (size_t i = 0; i < MAXID; i++) if (holder[i]) nheld++;
    if (nfree + nheld != (size_t)e0)
      fail("lost", "quiescent", "end()=%llu but %zu ids are held and %zu were freed: an id is neither held nor free", (unsigned long long)e0, nheld, nfree);
    for (size_t i = 0; i < nfree; i++) {
      OpScope sc(10000 + (int)i);
      VV id = do_alloc(0);
      if (id.value >= e0) fail("no-reuse", "quiescent", "at quiescence with %zu freed ids left allocate minted new id %llu", nfree - i, (unsigned long long)id.value);
    }
    if (al.end() != e0) fail("no-reuse", "quiescent", "end() grew from %llu to %llu while freed ids were available", (unsigned long long)e0, (unsigned long long)al.end());
    {
      OpScope sc(10999);
      VV id = do_alloc(0);
      if (id.value != e0) fail("duplicate", "quiescent", "with every id held allocate returned %llu instead of minting %llu", (unsigned long long)id.value, (unsigned long long)e0);
    }
    check_for_each("all-held");
    if (ver0 != 0 && al._free_head.version < ver0) probe("version_wrapped");
  }
};

// ===========================================================================
// Part 2: ThreadId over generations of threads
// ===========================================================================
struct TidApi {
  uint32_t (*cur)();  // version<<16 | value
  uint16_t (*end)();
  void (*for_each)(std::vector<std::pair<int, int>>*);
};
template <int N> struct Tag {};
template <int N> uint32_t tid_cur() { return babylon::ThreadId::current_thread_id<Tag<N>>().version_and_value; }
template <int N> uint16_t tid_end() { return babylon::ThreadId::end<Tag<N>>(); }
template <int N> void tid_for_each(std::vector<std::pair<int, int>>* out) {
  babylon::ThreadId::for_each<Tag<N>>([&](uint16_t b, uint16_t e) { out->push_back({b, e}); });
}
template <int... I> const TidApi* tid_table(std::integer_sequence<int, I...>) {
  static const TidApi t[] = {TidApi{tid_cur<I>, tid_end<I>, tid_for_each<I>}...};
  return t;
}
// the Leaky flavour (what the Concurrent* counters are built on): ids are handed
// back at thread exit exactly like in the default flavour, only the allocator
// singleton itself is never destroyed
template <int N> uint32_t ltid_cur() { return babylon::LeakyThreadId::current_thread_id<Tag<N>>().version_and_value; }
template <int N> uint16_t ltid_end() { return babylon::LeakyThreadId::end<Tag<N>>(); }
template <int N> void ltid_for_each(std::vector<std::pair<int, int>>* out) {
  babylon::LeakyThreadId::for_each<Tag<N>>([&](uint16_t b, uint16_t e) { out->push_back({b, e}); });
}
template <int... I> const TidApi* ltid_table(std::integer_sequence<int, I...>) {
  static const TidApi t[] = {TidApi{ltid_cur<I>, ltid_end<I>, ltid_for_each<I>}...};
  return t;
}

struct TidRun {
  const TidApi* api;
  std::mutex m;
  std::condition_variable cv;
  int arrived = 0;          // threads of the current generation that hold an id and wait at the barrier
  int barrier_open = -1;    // generations <= this may pass the barrier
  int release_level = -1;   // lingering threads of generation g leave when release_level >= g
  int live_owner[512] = {0};
  int ever_used[512] = {0};
  int max_id = -1;

  void life(int key, const Op& op) {
    int gen = (int)op.c;
    uint32_t id0 = api->cur();
    int v = (int)(id0 & 0xffff);
    if (v >= 512) fail("invented", "thread-id", "thread id %d", v);
    if (live_owner[v] != 0) fail("duplicate", "thread-id", "thread %d got ThreadId %d which live thread %d still holds", key, v, live_owner[v] - 1);
    live_owner[v] = key + 1;
    if (ever_used[v]) probe("tid_reused");
    ever_used[v]++;
    if (v > max_id) max_id = v;
    uint16_t e = api->end();
    if ((int)e < max_id + 1) fail("end-too-small", "thread-id", "ThreadId::end()=%d although id %d is in use", (int)e, max_id);
    {
      std::unique_lock<std::mutex> l(m);
      arrived++;
      cv.wait(l, [&] { return barrier_open >= gen; });
    }
    int yields = (int)std::max<int64_t>(0, std::min<int64_t>(op.a, 6));
    for (int i = 0; i < yields; i++) {
      yield_point();
      if (api->cur() != id0) fail("unstable", "thread-id", "thread %d: current_thread_id changed from %#x to %#x", key, id0, api->cur());
    }
    if (op.b & 1) {  // linger until the next generation is running
      std::unique_lock<std::mutex> l(m);
      cv.wait(l, [&] { return release_level >= gen; });
    }
    uint32_t id1 = api->cur();
    if (id1 != id0) fail("unstable", "thread-id", "thread %d: current_thread_id changed from %#x to %#x", key, id0, id1);
    if (live_owner[v] != key + 1) fail("duplicate", "thread-id", "thread %d: ownership table for id %d was overwritten by thread %d", key, v, live_owner[v] - 1);
    live_owner[v] = 0;  // the id is released by a TLS destructor after this function returns
  }

  void check_for_each(const char* where) {
    std::vector<std::pair<int, int>> ranges;
    api->for_each(&ranges);
    std::set<int> seen;
    for (auto& r : ranges) {
      if (r.first >= r.second) fail("for-each", where, "ThreadId::for_each reported range [%d,%d)", r.first, r.second);
      for (int i = r.first; i < r.second; i++) seen.insert(i);
    }
    for (int i = 0; i < 512; i++) {
      if (live_owner[i] && !seen.count(i)) fail("for-each", where, "ThreadId::for_each misses id %d of live thread %d", i, live_owner[i] - 1);
      if (!live_owner[i] && seen.count(i)) fail("for-each", where, "ThreadId::for_each reports id %d but no live thread holds it", i);
    }
  }

  void run(const Plan& p) {
    api = p.get("leaky", 0) ? &ltid_table(std::make_integer_sequence<int, NTAGS>())[g_runs_in_proc % NTAGS]
                            : &tid_table(std::make_integer_sequence<int, NTAGS>())[g_runs_in_proc % NTAGS];
    if (p.get("leaky", 0)) probe("tid_leaky_flavour");
    int ngen = 0;
    for (size_t t = 1; t < p.threads.size(); t++)
      for (auto& op : p.threads[t]) if (op.kind == K_TIDLIFE) ngen = std::max(ngen, (int)std::min<int64_t>(op.c, 7) + 1);
    std::vector<std::thread> lingering;
    int opid = 20000;
    for (int g = 0; g < ngen; g++) {
      OpScope sc(opid++);
      bool quiescent_start = lingering.empty();
      uint16_t end_before = api->end();
      std::vector<std::thread> now;
      { std::lock_guard<std::mutex> l(m); arrived = 0; }
      int n = 0;
      for (size_t t = 1; t < p.threads.size(); t++) {
        if (p.threads[t].empty()) continue;
        const Op& op = p.threads[t][0];
        if (op.kind != K_TIDLIFE || std::min<int64_t>(op.c, 7) != g) continue;
        if (n >= 4) continue;
        n++;
        const Op* o = &op;
        int key = (int)t;
        auto body = [this, key, o] { OpScope s(o->id); life(key, *o); };
        if (op.b & 1) lingering.emplace_back(body); else now.emplace_back(body);
      }
      bool strict = quiescent_start && p.get("strict", 1) != 0 && n > 0;
      if (strict) {
        // wait until every thread of this generation holds its id
        for (;;) {
          wait_quiescent();
          std::lock_guard<std::mutex> l(m);
          if (arrived >= n) break;
        }
        probe("tid_strict_generation");
        uint16_t e = api->end();
        uint16_t expect = std::max<uint16_t>(end_before, (uint16_t)n);
        if (e != expect)
          fail("no-reuse", "thread-id", "generation %d of %d threads started with all %d earlier ids released and nothing else running, but ThreadId::end() went from %d to %d (expected %d): ids of exited threads were not reused", g, n, (int)end_before, (int)end_before, (int)e, (int)expect);
        if (end_before > 0 && n > 0) probe("tid_generation_reused_ids");
        check_for_each("barrier");
      }
      { std::lock_guard<std::mutex> l(m); barrier_open = g; }
      cv.notify_all();
      // threads of the previous generation that lingered may leave now
      { std::lock_guard<std::mutex> l(m); release_level = g - 1; }
      cv.notify_all();
      for (auto& t : now) t.join();
      // join lingerers of older generations (those of this one stay)
      std::vector<std::thread> keep;
      size_t nl = lingering.size();
      (void)nl;
      // lingering threads were appended in generation order; the ones of this
      // generation are the last `cnt` entries
      size_t cnt = 0;
      for (size_t t = 1; t < p.threads.size(); t++)
        if (!p.threads[t].empty() && p.threads[t][0].kind == K_TIDLIFE && std::min<int64_t>(p.threads[t][0].c, 7) == g && (p.threads[t][0].b & 1)) cnt++;
      cnt = std::min(cnt, lingering.size());
      for (size_t i = 0; i + cnt < lingering.size(); i++) { lingering[i].join(); probe("tid_overlapping_generation"); }
      for (size_t i = lingering.size() - cnt; i < lingering.size(); i++) keep.push_back(std::move(lingering[i]));
      lingering.swap(keep);
    }
    { std::lock_guard<std::mutex> l(m); release_level = 100; barrier_open = 100; }
    cv.notify_all();
    for (auto& t : lingering) t.join();
    // quiescent: nobody alive, a single new thread must reuse an old id
    check_for_each("all-exited");
    uint16_t e0 = api->end();
    if ((int)e0 < max_id + 1) fail("end-too-small", "thread-id", "ThreadId::end()=%d although id %d was used", (int)e0, max_id);
    if (e0 > 0) {
      OpScope sc(opid++);
      Op o; o.kind = K_TIDLIFE; o.c = 100; o.a = 0; o.b = 0; o.id = 29999;
      std::thread th([this, &o] { life(999, o); });
      th.join();
      if (api->end() != e0)
        fail("no-reuse", "thread-id", "with all %d ids released a new thread did not reuse one: ThreadId::end() grew to %d", (int)e0, (int)api->end());
      check_for_each("all-exited-2");
    }
  }
};

// ===========================================================================
// Part 3: DepositBox
// ===========================================================================
struct BoxRun;
BoxRun* B;

enum ItemState { IS_NONE = 0, IS_DEPOSITED, IS_OWNED, IS_FINISHED, IS_DESTROYED };
struct Ledger { int state = IS_NONE; const void* addr = nullptr; int owner = 0; };

struct ItemBase {
  uint64_t serial;
  uint64_t chk[2];
  uint64_t owner;
  explicit ItemBase(uint64_t s);
  ItemBase(const ItemBase&) = delete;
  ~ItemBase();
};
template <int N> struct Item : ItemBase { using ItemBase::ItemBase; };

struct BoxApi {
  uint64_t (*emplace)(uint64_t serial);
  bool (*take)(uint64_t id, void (*cb)(ItemBase*, void*), void* ctx);
  ItemBase* (*take_released)(uint64_t id);
  void (*finish_released)(uint64_t id);
  ItemBase* (*unsafe_get)(uint64_t id);
  uint32_t (*slots_end)();
};
template <int N> uint64_t box_emplace(uint64_t serial) { return babylon::DepositBox<Item<N>>::instance().emplace(serial).version_and_value; }
template <int N> bool box_take(uint64_t id, void (*cb)(ItemBase*, void*), void* ctx) {
  using Acc = typename babylon::DepositBox<Item<N>>::Accessor;
  auto acc = babylon::DepositBox<Item<N>>::instance().take(babylon::VersionedValue<uint32_t>(id));
  if (!acc) return false;
  // what a client does with the accessor it won is varied by the id (plan
  // independent, deterministic): keep it / move-construct it elsewhere /
  // move-assign it into an empty one / park it on the heap past the callback.
  // Exactly one accessor may end up owning the item (and release the slot).
  switch ((id ^ (id >> 32) ^ (id >> 7)) & 3) {
    case 0: cb(&*acc, ctx); break;
    case 1: {
      Acc b(std::move(acc));
      if (acc) fail("api", "accessor-move", "a moved-from DepositBox accessor (id %#llx) still owns the item: two owners will release one slot", (unsigned long long)id);
      if (!b) fail("lost", "accessor-move", "move-constructed DepositBox accessor (id %#llx) is empty", (unsigned long long)id);
      cb(&*b, ctx);
      probe("accessor_move_constructed");
      break;
    }
    case 2: {
      Acc b;
      b = std::move(acc);
      if (acc) fail("api", "accessor-move-assign", "after move assignment into an empty accessor the source (id %#llx) still owns the item", (unsigned long long)id);
      if (!b) fail("lost", "accessor-move-assign", "move-assigned DepositBox accessor (id %#llx) is empty", (unsigned long long)id);
      cb(&*b, ctx);
      probe("accessor_move_assigned");
      break;
    }
    default: {
      Acc* h = new Acc(std::move(acc));
      if (acc) fail("api", "accessor-move", "a moved-from DepositBox accessor (id %#llx) still owns the item: two owners will release one slot", (unsigned long long)id);
      cb(&**h, ctx);
      delete h;
      probe("accessor_parked_on_heap");
      break;
    }
  }
  return true;
}
template <int N> ItemBase* box_take_released(uint64_t id) { return babylon::DepositBox<Item<N>>::instance().take_released(babylon::VersionedValue<uint32_t>(id)); }
template <int N> void box_finish_released(uint64_t id) { babylon::DepositBox<Item<N>>::instance().finish_released(babylon::VersionedValue<uint32_t>(id)); }
template <int N> ItemBase* box_unsafe_get(uint64_t id) { return &babylon::DepositBox<Item<N>>::instance().unsafe_get(babylon::VersionedValue<uint32_t>(id)); }
template <int N> uint32_t box_slots_end() { return babylon::DepositBox<Item<N>>::instance()._slot_id_allocator.end(); }
template <int... I> const BoxApi* box_table(std::integer_sequence<int, I...>) {
  static const BoxApi t[] = {BoxApi{box_emplace<I>, box_take<I>, box_take_released<I>, box_finish_released<I>, box_unsafe_get<I>, box_slots_end<I>}...};
  return t;
}

struct BoxRun {
  const BoxApi* api;
  std::map<uint64_t, Ledger> ledger;        // serial -> state
  std::map<uint64_t, uint64_t> serial_of;   // id -> serial deposited under it
  std::map<uint32_t, uint64_t> slot_serial; // slot index -> serial of the newest item in it
  std::set<const void*> registered;
  std::vector<uint64_t> known;              // ids emplaced in earlier rounds / by main (visible to workers of a round)
  std::vector<uint64_t> fresh[8];           // ids created by workers in the current round
  std::atomic<uint64_t> mail[4];
  std::map<uint64_t, int> attempts;         // id -> takes issued while the id was not stale
  uint64_t next_serial = 1;
  uint64_t ctor = 0, dtor = 0;

  uint64_t do_emplace(int t) {
    uint64_t serial = ((uint64_t)(t + 1) << 32) | next_serial++;
    uint64_t id = api->emplace(serial);
    uint32_t slot = (uint32_t)id;
    if (serial_of.count(id)) fail("duplicate", "emplace", "emplace returned id %#llx (slot %u version %u) that an earlier emplace had already returned", (unsigned long long)id, slot, (uint32_t)(id >> 32));
    auto it = slot_serial.find(slot);
    if (it != slot_serial.end()) {
      int st = ledger[it->second].state;
      if (st == IS_DEPOSITED || st == IS_OWNED) fail("duplicate", "emplace", "emplace reused slot %u while its previous item is still %s", slot, st == IS_OWNED ? "owned by a taker" : "deposited");
      probe("slot_recycled");
    }
    serial_of[id] = serial;
    slot_serial[slot] = serial;
    ItemBase* it2 = api->unsafe_get(id);
    if (ledger[serial].addr != it2) fail("wrong-item", "emplace", "unsafe_get(id) does not address the item constructed by emplace");
    if (!registered.count(it2)) { registered.insert(it2); hb_register(it2, sizeof(ItemBase), "deposit-item"); }
    // documented use: finish preparing the item before the id is shared
    it2->chk[0] = hx::mixv(serial, 0);
    it2->chk[1] = hx::mixv(serial, 1);
    return id;
  }

  struct Ctx { BoxRun* self; uint64_t id; bool stale; int t; };
  static void use_cb(ItemBase* it, void* c) { Ctx* x = (Ctx*)c; x->self->use(it, x->id, x->stale, x->t); }

  void use(ItemBase* it, uint64_t id, bool stale, int t) {
    uint64_t expect = serial_of.count(id) ? serial_of[id] : 0;
    Ledger& L = ledger[expect];
    if (stale || L.state == IS_FINISHED || L.state == IS_DESTROYED)
      fail("stale-match", "take", "take with id %#llx (slot %u version %u), whose item had already been taken, obtained an item again%s", (unsigned long long)id, (uint32_t)id, (uint32_t)(id >> 32), it->serial != expect ? " — the newer item living in the recycled slot" : "");
    if (L.state == IS_OWNED) fail("double-take", "take", "two takers obtained the item of id %#llx: T%d while T%d still owns it", (unsigned long long)id, t, L.owner - 1);
    if (L.state != IS_DEPOSITED) fail("invented", "take", "take returned an item for an id that was never deposited");
    L.state = IS_OWNED; L.owner = t + 1;
    if (it->serial != expect) fail("wrong-item", "take", "winner of id %#llx received item %#llx instead of %#llx", (unsigned long long)id, (unsigned long long)it->serial, (unsigned long long)expect);
    if (it->owner != 0) fail("exclusive", "take", "winner found owner flag %llu set", (unsigned long long)it->owner);
    it->owner = (uint64_t)t + 1;
    yield_point();
    if (it->chk[0] != hx::mixv(expect, 0) || it->chk[1] != hx::mixv(expect, 1)) fail("torn", "take", "winner sees item %#llx with wrong companion fields", (unsigned long long)expect);
    it->chk[0] = ~it->chk[0];
    yield_point();
    if (it->owner != (uint64_t)t + 1) fail("exclusive", "take", "owner flag changed while T%d owned the item", t);
    if (it->serial != expect) fail("exclusive", "take", "item was replaced while T%d owned it", t);
    it->owner = 0;
    L.state = IS_FINISHED; L.owner = 0;  // before the slot is released
  }

  // returns true if this call won
  bool do_take(int t, uint64_t id, bool released, bool stale) {
    if (stale) {
      uint32_t slot = (uint32_t)id;
      uint64_t cur = slot_serial.count(slot) ? slot_serial[slot] : 0;
      if (cur != serial_of[id]) { probe("stale_take_on_recycled_slot"); if (ledger[cur].state == IS_DEPOSITED) probe("stale_take_while_slot_deposited"); }
    }
    if (!stale) attempts[id]++;
    if (!released) {
      Ctx c{this, id, stale, t};
      return api->take(id, use_cb, &c);
    }
    ItemBase* it = api->take_released(id);
    if (!it) return false;
    use(it, id, stale, t);
    api->finish_released(id);
    return true;
  }

  void worker_op(int t, const Op& op, const std::vector<uint64_t>* snapshot, const std::vector<char>* snap_stale) {
    switch (op.kind) {
      case K_TAKE: case K_TAKEREL: {
        if (snapshot->empty()) return;
        size_t back = (size_t)std::max<int64_t>(0, op.a) % snapshot->size();
        size_t idx = snapshot->size() - 1 - back;
        uint64_t id = (*snapshot)[idx];
        bool stale = (*snap_stale)[idx];
        bool won = do_take(t, id, op.kind == K_TAKEREL, stale);
        if (!won && !stale) probe("take_lost_race");
        break;
      }
      case K_CYCLE: {
        int n = (int)std::max<int64_t>(1, std::min<int64_t>(op.a, 3));
        for (int i = 0; i < n; i++) {
          uint64_t id = do_emplace(t);
          if (!do_take(t, id, (op.b & 1) != 0, false)) fail("lost", "take", "the only taker of freshly deposited id %#llx got nothing", (unsigned long long)id);
          if (t < 8) fresh[t].push_back(id);
        }
        break;
      }
      case K_POST: {
        uint64_t id = do_emplace(t);
        if (t < 8) fresh[t].push_back(id);
        // guide rule 11: ids reach other threads only through real
        // synchronisation — this release store (ordered after emplace's
        // buffered version store), thread creation, or join.
        mail[(size_t)op.a & 3].store(id + 1, std::memory_order_release);
        break;
      }
      case K_TAKEMAIL: {
        uint64_t v = mail[(size_t)op.a & 3].load(std::memory_order_acquire);
        if (!v) return;
        probe("take_from_mailbox");
        bool won = do_take(t, v - 1, (op.b & 1) != 0, false);
        if (!won) probe("take_lost_race");
        break;
      }
      default: break;
    }
  }

  void run(const Plan& p) {
    api = &box_table(std::make_integer_sequence<int, NTAGS>())[g_runs_in_proc % NTAGS];
    for (auto& m : mail) m.store(0, std::memory_order_relaxed);
    int nrounds = 0;
    for (auto& th : p.threads) for (auto& op : th) nrounds = std::max(nrounds, (int)std::min<int64_t>(std::max<int64_t>(op.c, 0), 7) + 1);
    int mop = 30000;
    for (int r = 0; r < nrounds; r++) {
      std::vector<uint64_t> round_ids;
      if (!p.threads.empty())
        for (auto& op : p.threads[0]) {
          if (std::min<int64_t>(std::max<int64_t>(op.c, 0), 7) != r || op.kind != K_EMPLACE) continue;
          OpScope sc(op.id);
          uint64_t id = do_emplace(0);
          known.push_back(id);
          round_ids.push_back(id);
        }
      std::vector<uint64_t> snapshot = known;
      std::vector<char> snap_stale;
      for (uint64_t id : snapshot) snap_stale.push_back(ledger[serial_of[id]].state != IS_DEPOSITED);
      std::vector<std::thread> th;
      for (size_t t = 1; t < p.threads.size() && t < 8; t++) {
        bool any = false;
        for (auto& op : p.threads[t]) if (std::min<int64_t>(std::max<int64_t>(op.c, 0), 7) == r) any = true;
        if (!any) continue;
        th.emplace_back([this, &p, t, r, &snapshot, &snap_stale] {
          for (auto& op : p.threads[t]) {
            if (std::min<int64_t>(std::max<int64_t>(op.c, 0), 7) != r) continue;
            OpScope sc(op.id);
            worker_op((int)t, op, &snapshot, &snap_stale);
          }
        });
      }
      for (auto& t : th) t.join();
      for (auto& f : fresh) { for (uint64_t id : f) known.push_back(id); f.clear(); }
      // whatever is still deposited (nobody tried, or only posted): exactly one take must succeed now
      for (uint64_t id : known) {
        Ledger& L = ledger[serial_of[id]];
        if (L.state == IS_OWNED) fail("harness", "round-end", "item still owned after join");
        if (L.state != IS_DEPOSITED) continue;
        if (attempts[id] > 0)
          fail("lost", "take", "%d take calls were made with the valid id %#llx of a deposited item and every one of them returned empty", attempts[id], (unsigned long long)id);
        OpScope sc(mop++);
        if (!do_take(0, id, (r & 1) != 0, false))
          fail("lost", "take", "item of id %#llx is deposited and untaken, every concurrent take returned empty and a final take at quiescence returned empty too", (unsigned long long)id);
      }
      for (auto& m : mail) m.store(0, std::memory_order_relaxed);
      // a second take of anything known is stale now
      if (!known.empty()) {
        OpScope sc(mop++);
        uint64_t id = known[(size_t)r % known.size()];
        do_take(0, id, false, true);
      }
    }
    // ledger: every constructed item was destroyed at most once and only after
    // it was finished; the survivors are the newest item of each slot
    uint64_t alive = 0;
    for (auto& kv : ledger) if (kv.second.state != IS_DESTROYED && kv.second.state != IS_NONE) alive++;
    if (ctor - dtor != alive) fail("ledger", "end", "ctor %llu dtor %llu but %llu items alive", (unsigned long long)ctor, (unsigned long long)dtor, (unsigned long long)alive);
    if (alive != slot_serial.size()) fail("ledger", "end", "%llu items alive but %zu slots were used: an item was leaked or destroyed early", (unsigned long long)alive, slot_serial.size());
    if (api->slots_end() != slot_serial.size()) fail("ledger", "end", "slot allocator minted %u slots but only %zu were ever returned by emplace", api->slots_end(), slot_serial.size());
    size_t maxlive = 0;
    (void)maxlive;
    for (auto* a : registered) hb_unregister(a);
  }
};

ItemBase::ItemBase(uint64_t s) : serial(s), owner(0) {
  chk[0] = chk[1] = 0;
  if (!B) return;
  Ledger& L = B->ledger[s];
  if (L.state != IS_NONE) fail("ledger", "ctor", "item %#llx constructed twice", (unsigned long long)s);
  L.state = IS_DEPOSITED; L.addr = this;
  B->ctor++;
}
ItemBase::~ItemBase() {
  if (!B) return;
  auto it = B->ledger.find(serial);
  if (it == B->ledger.end() || it->second.addr != this) return;  // item of an earlier run in this process (tag wrap-around)
  Ledger& L = it->second;
  if (L.state == IS_DESTROYED) fail("double-destroy", "dtor", "item %#llx destroyed twice", (unsigned long long)serial);
  if (L.state == IS_DEPOSITED) fail("early-destroy", "dtor", "item %#llx destroyed while deposited and untaken (its slot was reused)", (unsigned long long)serial);
  if (L.state == IS_OWNED) fail("early-destroy", "dtor", "item %#llx destroyed while T%d owns it (its slot was reused)", (unsigned long long)serial, L.owner - 1);
  L.state = IS_DESTROYED;
  B->dtor++;
}

// ===========================================================================
void gen(Rng& r, Plan& p, const GenParams& gp) {
  gen_common(r, p, SB_HALF, false, 600);
  int part = gp.mode >= 0 && gp.mode <= 3 ? gp.mode : (int)r.below(4);
  p.cfg["part"] = part;
  p.cfg["leaky"] = r.chance(1, 2);  // part 2 only: ThreadId or LeakyThreadId
  int opid = 0;
  auto add = [&](size_t t, int kind, int64_t a, int64_t b, int64_t c) {
    if (p.threads.size() <= t) p.threads.resize(t + 1);
    Op o; o.kind = kind; o.a = a; o.b = b; o.c = c; o.id = opid++;
    p.threads[t].push_back(o);
  };
  p.threads.resize(1);
  if (part <= 1) {
    static const int64_t v16[] = {0, 0, 1, 0xfffb, 0xfffe, 0xffff}, v32[] = {0, 0, 7, 0xfffffffbLL, 0xfffffffeLL, 0xffffffffLL};
    p.cfg["ver0"] = part == 0 ? v16[r.below(6)] : v32[r.below(6)];
    // pre-fill: allocate k, free 1..3 of them (free list of 1..3 elements)
    int k = (int)r.range(1, 5);
    for (int i = 0; i < k; i++) add(0, K_ALLOC, 0, 0, 0);
    int nf = (int)r.range(1, std::min(k, 3));
    for (int i = 0; i < nf; i++) add(0, K_DEALLOC, (int64_t)r.range(0, 3), r.chance(1, 3), 0);
    int nth = (int)r.range(2, 4);
    int maxops = gp.thorough ? 14 : 10;
    for (int t = 1; t <= nth; t++) {
      int n = (int)r.range(3, maxops);
      // ABA bias: "popper" threads mostly allocate; "churn" threads run pop,pop,push(first)
      int style = (int)r.below(3);
      for (int i = 0; i < n; i++) {
        if (r.chance(1, 15)) { add((size_t)t, K_END, 0, 0, 0); continue; }
        bool alloc;
        if (style == 0) alloc = r.chance(3, 4);
        else if (style == 1) alloc = (i % 3) != 2 ? r.chance(5, 6) : r.chance(1, 6);
        else alloc = r.chance(1, 2);
        if (alloc) add((size_t)t, K_ALLOC, 0, 0, 0);
        else add((size_t)t, K_DEALLOC, style == 1 ? (r.chance(2, 3) ? 1 : 0) : (int64_t)r.range(0, 3), r.chance(1, 3), 0);
      }
    }
  } else if (part == 2) {
    p.cfg["strict"] = r.chance(5, 6);
    int ngen = (int)r.range(2, 4);
    size_t t = 1;
    for (int g = 0; g < ngen; g++) {
      int n = (int)r.range(1, 3);
      bool overlap = g + 1 < ngen && r.chance(1, 2);
      for (int i = 0; i < n; i++) add(t++, K_TIDLIFE, (int64_t)r.range(0, 3), overlap && r.chance(2, 3) ? 1 : 0, g);
    }
  } else {
    int nrounds = (int)r.range(2, 5);
    int nworkers = (int)r.range(2, 4);
    for (int rd = 0; rd < nrounds; rd++) {
      int ne = (int)r.range(1, 2);
      for (int i = 0; i < ne; i++) add(0, K_EMPLACE, 0, 0, rd);
      for (int t = 1; t <= nworkers; t++) {
        if (r.chance(1, 6)) continue;
        int n = (int)r.range(1, 3);
        for (int i = 0; i < n; i++) {
          int x = (int)r.below(12);
          if (x < 5) add((size_t)t, r.chance(1, 2) ? K_TAKE : K_TAKEREL, r.chance(2, 3) ? (int64_t)r.below((uint64_t)ne) : (int64_t)r.range(0, 8), 0, rd);
          else if (x < 8) add((size_t)t, K_CYCLE, (int64_t)r.range(1, 3), (int64_t)r.below(2), rd);
          else if (x < 9) add((size_t)t, K_POST, (int64_t)r.below(2), 0, rd);
          else add((size_t)t, K_TAKEMAIL, (int64_t)r.below(2), (int64_t)r.below(2), rd);
        }
      }
    }
  }
}

void run(const Plan& p) {
  int part = (int)p.get("part", 0);
  switch (part) {
    case 0: { auto* s = new AllocRun<uint16_t>(); s->run(p); break; }
    case 1: { auto* s = new AllocRun<uint32_t>(); s->run(p); break; }
    case 2: { auto* s = new TidRun(); s->run(p); break; }
    default: { B = new BoxRun(); B->run(p); B = nullptr; break; }
  }
  g_runs_in_proc++;
}

const char* const kShrink[] = {"ver0", nullptr};

}  // namespace

const Harness sim::g_harness = {"ids", kNames, gen, run, kShrink, 0};
