// Harness "logging": C20 — whatever is streamed into a LogEntry is exactly the
// byte sequence of its scatter list, which names every backing page (data and
// page-table pages) exactly once; entries written to the AsyncFileAppender
// before close() reach their file exactly once, unmixed, per thread in order;
// after write/discard (+close) every page is back with the allocator.
// DESIGN.md §3 C20.
//
// Plan encoding: threads[1..3] = logging threads, one op per entry:
//   kind  write | discard
//   a     entry length in bytes (clamped to >= 1 unless cfg mode == 2)
//   b     seed of the piece-wise streaming style (chunk sizes, sputn / sputc /
//         std::ostream write / put / << / flush)
//   c     bit0 file object index, bit4 use a fresh LogStreamBuffer, bit5 go
//         through an AsyncLogStream (begin / write / noflush-suspend / end; the
//         stream appends the final '\n' and calls write() itself, so clause (a)
//         cannot be evaluated before the hand-over on this path)
// cfg: page_size, qcap, nfiles, rot_file, rot_every (file object rot_file hands
//   out a new fd on every rot_every-th check), close_variant (0: join loggers,
//   then close; 1: close as soon as every write() has returned, loggers still
//   alive), close_guard, tail_us, mode, fault_kind, fault_every.
// Modes (--mode): 0 default; 1 write faults (short / EIO / ENOSPC / fd -1):
//   only conservation + termination are judged; 2 empty entries through the
//   public API (probe for the "size 0 == stop marker" defect); 3 close() without
//   the slot guard (probe for the "close() on a not yet recycled slot" defect).
#include <babylon/logging/async_file_appender.h>
#include <babylon/logging/async_log_stream.h>
#include <babylon/logging/log_entry.h>
#include <babylon/reusable/page_allocator.h>

#include <limits.h>
#include <string.h>
#include <unistd.h>

#include <algorithm>
#include <atomic>
#include <map>
#include <memory>
#include <ostream>
#include <set>
#include <string>
#include <string_view>
#include <vector>

#include "common.h"

using namespace sim;
using babylon::AsyncFileAppender;
using babylon::LogEntry;
using babylon::LogStreamBuffer;

namespace {

enum Kind { K_WRITE, K_DISCARD };
const char* const kNames[] = {"write", "discard", nullptr};

constexpr size_t N_INLINE = LogEntry::INLINE_PAGE_CAPACITY;
constexpr size_t MAX_LEN = 4u << 20;
constexpr size_t REG_BYTES = 128;    // registered (race-checked) prefix of a page
constexpr size_t REG_PAGES = 16;     // ... of the first pages of an entry (+ up to 16 table pages)

enum { ST_PLANNED = 0, ST_BUILDING = 1, ST_HANDED = 2 };

struct EntryRec {
  int uid = 0, thread = 0, seq = 0, opid = 0, kind = 0, file = 0;
  bool fresh_buf = false, via_stream = false;
  uint64_t style = 0;
  size_t len = 0;
  std::string bytes;            // what is streamed
  std::vector<void*> pages;     // every page the allocator handed out for this entry, in order
  size_t ntables = 0;
  int state = ST_PLANNED;
  size_t freed = 0;
  bool api_returned = false;    // write()/discard() returned
  bool release_checked = false;
  bool seen = false;
};
struct PageRec { EntryRec* e; size_t k; bool live; bool reg; bool table; };

thread_local EntryRec* tl_cur = nullptr;  // entry being streamed by this thread

struct State;
State* S;

struct RecAlloc : public babylon::PageAllocator {
  size_t ps = 128;
  std::map<void*, PageRec> pages;
  size_t live = 0, total = 0, nreg = 0;
  size_t page_size() const noexcept override { return ps; }
  using PageAllocator::allocate;
  using PageAllocator::deallocate;
  // a real page allocator synchronises inside (queue, lock): the caller can be
  // descheduled on the way in and on the way out
  void allocate(void** out, size_t num) noexcept override {
    sim::yield_point();
    for (size_t i = 0; i < num; i++) out[i] = one();
    sim::yield_point();
  }
  void deallocate(void** pp, size_t num) noexcept override {
    sim::yield_point();
    for (size_t i = 0; i < num; i++) back(pp[i]);
    sim::yield_point();
  }
  void* one() {
    EntryRec* e = tl_cur;
    if (!e) fail("alloc", "outside-entry", "page allocated by T%d outside LogStreamBuffer begin()/end()", tid());
    void* p = ::operator new(ps);
    memset(p, 0xEE, ps);  // never a legal sink byte pattern run
    PageRec r{e, e->pages.size(), true, false, false};
    if (r.k < REG_PAGES) { hb_register(p, std::min(ps, REG_BYTES), "log-page"); r.reg = true; nreg++; }
    e->pages.push_back(p);
    pages[p] = r;
    live++; total++;
    return p;
  }
  void back(void* p);
};

struct SinkFile : public babylon::FileObject {
  int idx = 0;
  int rot_every = 0;
  int neg_every = 0;               // fault: report fd -1 on every neg_every-th call
  int fault_kind = 0, fault_every = 0;
  int calls = 0;
  std::vector<int> fds;            // in rotation order; back() is current
  std::vector<size_t> size_at_rotation;
  void open_next() {
    int fd = sink_open();
    if (fault_kind >= 1 && fault_kind <= 3) sink_set_fault(fd, fault_kind, fault_every);
    fds.push_back(fd);
  }
  std::tuple<int, int> check_and_get_file_descriptor() noexcept override;
};

struct State {
  int mode = 0;
  bool fault_mode = false;
  size_t ps = 128, tcap = 15, qcap = 1;
  RecAlloc alloc;
  AsyncFileAppender app;
  std::vector<SinkFile*> files;
  std::vector<EntryRec*> entries;
  std::map<int, EntryRec*> by_op;
  std::vector<LogStreamBuffer*> bufs;
  std::vector<std::vector<std::unique_ptr<babylon::LogStream>>> streams;  // [thread][file]
  std::atomic<int> loggers_done{0};
  int nlog = 0;
  bool close_called = false, close_returned = false;
  int close_rc = 0;
  size_t close_ticket = 0;
};

// ---------------------------------------------------------------------------
// byte pattern: the first byte of an entry is 0x80|uid, every other byte is
// < 0x80 and a function of (uid, offset): every sink byte is attributable and
// entry starts are self-delimiting.
void fill_pattern(EntryRec& e) {
  e.bytes.resize(e.len);
  char* d = &e.bytes[0];
  for (size_t o = 0; o < e.len; o += 8) {
    uint64_t w = mix64((uint64_t)e.uid * 0x9e3779b1u + 77, o >> 3) & 0x7f7f7f7f7f7f7f7fULL;
    size_t n = std::min<size_t>(8, e.len - o);
    memcpy(d + o, &w, n);
  }
  if (e.len) d[0] = (char)(0x80 | e.uid);
  if (e.via_stream) d[e.len - 1] = '\n';  // appended by AsyncLogStream::do_end
}

const char* describe(const EntryRec& e, char* buf, size_t n) {
  snprintf(buf, n, "entry #%d (T%d seq %d, %zu bytes = %zu pages of %zu, %s, file %d)", e.uid, e.thread, e.seq, e.len,
           (e.len + S->ps - 1) / S->ps, S->ps, kNames[e.kind], e.file);
  return buf;
}

// Is the entry completely in one of the fds of its file object?
bool entry_in_sink(const EntryRec& e) {
  if (e.len == 0) return true;
  SinkFile* f = S->files[(size_t)e.file];
  for (int fd : f->fds) {
    const std::string& d = sink_data(fd);
    size_t pos = d.find((char)(0x80 | e.uid));
    if (pos == std::string::npos) continue;
    return d.size() - pos >= e.len;
  }
  return false;
}

void RecAlloc::back(void* p) {
  auto it = pages.find(p);
  char b[160];
  if (it == pages.end()) fail("foreign-free", "deallocate", "T%d returned %p to the page allocator, which never handed it out", tid(), p);
  PageRec& r = it->second;
  EntryRec* e = r.e;
  if (!r.live) fail("double-free", "page-returned-twice", "%s page %zu of %s returned to the allocator a second time by T%d", r.table ? "page-table" : "data", r.k, describe(*e, b, sizeof b), tid());
  if (e->state != ST_HANDED) fail("early-reclaim", "entry-under-construction", "page %zu of %s returned while the entry was still being built", r.k, describe(*e, b, sizeof b));
  if (e->kind == K_WRITE && !S->fault_mode && !e->release_checked) {
    e->release_checked = true;
    if (!entry_in_sink(*e)) fail("early-reclaim", "released-before-writev", "page %zu of %s returned to the allocator by T%d before the entry's bytes reached its file", r.k, describe(*e, b, sizeof b), tid());
  }
  r.live = false;
  live--;
  e->freed++;
  if (r.reg) { hb_unregister(p); nreg--; }
  ::operator delete(p);
}

std::tuple<int, int> SinkFile::check_and_get_file_descriptor() noexcept {
  sim::yield_point();  // a real file object stats / opens files here
  calls++;
  // probes: what is the writer about to flush to this object?
  size_t starts = 0, niov = 0;
  if (index() < S->app._destinations.size()) {
    auto& iov = S->app._destinations[index()].iov;
    niov = iov.size();
    for (auto& v : iov) {
      auto it = S->alloc.pages.find(v.iov_base);
      if (it != S->alloc.pages.end() && it->second.k == 0) starts++;
    }
  }
  if (starts >= 2) probe("batched_ge2_entries_in_one_writev");
  if (niov > (size_t)IOV_MAX) probe("batch_exceeds_IOV_MAX");
  int old = -1;
  if (!fds.empty() && sink_closed(fds.back()))
    fail("fd", "current-fd-closed", "the appender closed fd %d of file object %d, which is still the current descriptor", fds.back(), idx);
  if (rot_every > 0 && calls % rot_every == 0) {
    old = fds.back();
    size_at_rotation.push_back(sink_data(old).size());
    open_next();
    probe("fd_rotated");
    if (size_at_rotation.back() > 0) probe("fd_rotated_after_data");
    if (niov > 0) probe("fd_rotated_with_pending_batch");
  }
  if (fds.size() >= 3 && !sink_closed(fds[fds.size() - 3]))
    fail("fd", "old-fd-not-closed", "fd %d of file object %d was reported as rotated out but never closed", fds[fds.size() - 3], idx);
  if (neg_every > 0 && calls % neg_every == 0) { fault_fired("file_object_fd_negative"); return std::tuple<int, int>{-1, old}; }
  return std::tuple<int, int>{fds.back(), old};
}

// ---------------------------------------------------------------------------
// streaming one entry in pieces
void stream_entry(EntryRec& e, LogStreamBuffer& buf) {
  Rng r(e.style * 2654435761u + 12345);
  const char* d = e.bytes.data();
  const size_t n = e.len, ps = S->ps;
  int style = (int)r.below(4);  // 0 one sputn, 1 sputn pieces, 2 ostream, 3 sputc runs + sputn
  std::ostream os(&buf);
  size_t off = 0;
  while (off < n) {
    size_t rem = n - off, c;
    if (style == 0) c = rem;
    else switch (r.below(7)) {
      case 0: c = 1; break;
      case 1: c = (size_t)r.range(1, 16); break;
      case 2: c = (size_t)r.range(1, (int64_t)ps); break;
      case 3: c = ps; break;
      case 4: c = ps - (off % ps); break;                     // exactly to the page end
      case 5: c = (size_t)r.range((int64_t)ps, (int64_t)(3 * ps)); break;
      default: c = (size_t)r.range(1, (int64_t)std::max<size_t>(rem, 1)); break;
    }
    if (n > 32768 && c < 2048) c += (size_t)r.range(2048, 32768);  // keep huge entries cheap
    c = std::max<size_t>(1, std::min(c, rem));
    int how = style == 2 ? (int)r.below(5) : style == 3 ? (c <= 48 ? 5 : 6) : 6;
    switch (how) {
      case 0: os.write(d + off, (std::streamsize)c); break;
      case 1: os << std::string_view(d + off, c); break;
      case 2: c = 1; os.put(d[off]); break;
      case 3: c = 1; os << d[off]; break;
      case 4: os.flush(); os.write(d + off, (std::streamsize)c); break;
      case 5:
        for (size_t i = 0; i < c; i++)
          if (buf.sputc(d[off + i]) == std::char_traits<char>::eof()) fail("stream", "sputc", "sputc refused byte %zu", off + i);
        break;
      default:
        if ((size_t)buf.sputn(d + off, (std::streamsize)c) != c) fail("stream", "sputn", "sputn stored fewer than %zu bytes at offset %zu", c, off);
        break;
    }
    off += c;
  }
  if (!os.good()) fail("stream", "ostream", "std::ostream over LogStreamBuffer went bad while streaming %zu bytes", n);
}

// clause (a): scatter list == streamed bytes, names every backing page once
void check_scatter(EntryRec& e, LogEntry& le) {
  char b[160];
  const size_t ps = S->ps;
  if (le.size != e.len) fail("scatter", "size", "%s: LogEntry::size is %zu after streaming %zu bytes", describe(e, b, sizeof b), le.size, e.len);
  std::vector<struct ::iovec> iov;
  set_crash_site("append_to_iovec");
  le.append_to_iovec(ps, iov);
  set_crash_site(nullptr);
  if (tracing()) {
    tracef("scatter of entry #%d: size=%zu head=%p, %zu elements, %zu pages allocated", e.uid, le.size, (void*)le.head, iov.size(), e.pages.size());
    for (size_t i = 0; i < iov.size(); i++) tracef("  iov[%zu] = {%p, %zu}", i, iov[i].iov_base, iov[i].iov_len);
    for (size_t k = 0; k < e.pages.size(); k++) tracef("  allocated[%zu] = %p", k, e.pages[k]);
  }
  std::set<void*> seen;
  size_t off = 0, tables = 0;
  for (size_t i = 0; i < iov.size(); i++) {
    void* base = iov[i].iov_base;
    size_t len = iov[i].iov_len;
    auto it = S->alloc.pages.find(base);
    if (it == S->alloc.pages.end() || it->second.e != &e || !it->second.live)
      fail("scatter", "foreign-page", "%s: scatter element %zu points to %p, which is not a page allocated for this entry", describe(e, b, sizeof b), i, base);
    if (!seen.insert(base).second)
      fail("scatter", "page-listed-twice", "%s: page %zu (allocation order) appears twice in the scatter list (element %zu, len %zu)", describe(e, b, sizeof b), it->second.k, i, len);
    if (len > ps) fail("scatter", "length", "%s: scatter element %zu has length %zu > page size", describe(e, b, sizeof b), i, len);
    if (len == 0) { tables++; it->second.table = true; continue; }
    if (off + len > e.len) fail("scatter", "length", "%s: scatter list describes more than the %zu streamed bytes (element %zu, len %zu, at offset %zu)", describe(e, b, sizeof b), e.len, i, len, off);
    hb_read(base, len);
    if (memcmp(base, e.bytes.data() + off, len) != 0) {
      size_t m = 0;
      while (m < len && ((const char*)base)[m] == e.bytes[off + m]) m++;
      fail("scatter", "bytes", "%s: scatter element %zu (page %zu in allocation order) differs from the streamed bytes at entry offset %zu", describe(e, b, sizeof b), i, it->second.k, off + m);
    }
    off += len;
  }
  if (off != e.len) fail("scatter", "length", "%s: scatter list describes %zu bytes, %zu were streamed", describe(e, b, sizeof b), off, e.len);
  for (size_t k = 0; k < e.pages.size(); k++)
    if (!seen.count(e.pages[k]))
      fail("scatter", "page-missing", "%s: page %zu (allocation order, of %zu) backs the entry but is not in the scatter list: it can never be returned", describe(e, b, sizeof b), k, e.pages.size());
  e.ntables = tables;
  // the logging thread's stores into the pages (libstdc++'s xsputn is not
  // instrumented everywhere): declare them, so that the writer thread's reads
  // must be ordered after this point by the queue hand-off
  size_t extra = 0;
  for (void* p : e.pages) {
    PageRec& r = S->alloc.pages[p];
    if (!r.reg && r.table && extra < 16) { hb_register(p, std::min(ps, REG_BYTES), "log-page"); r.reg = true; S->alloc.nreg++; extra++; }
    if (r.reg) hb_write(p, std::min(ps, REG_BYTES));
  }
  size_t npages = (e.len + ps - 1) / ps;
  if (npages == N_INLINE) probe("entry_exactly_inline_capacity");
  if (npages == N_INLINE + 1) probe("entry_inline_capacity_plus_one");
  if (e.len == N_INLINE * ps) probe("entry_len_eq_inline_bytes");
  if (tables >= 1) probe("page_table_allocated");
  if (tables >= 2) probe("second_page_table");
  if (tables >= 1 && npages == N_INLINE - 1 + tables * S->tcap) probe("page_table_exactly_full");
  if (iov.size() > (size_t)IOV_MAX) probe("entry_exceeds_IOV_MAX");
}

void do_entry(int t, const Op& op) {
  auto it = S->by_op.find(op.id);
  if (it == S->by_op.end()) return;
  EntryRec& e = *it->second;
  char b[160];
  if (e.via_stream) {
    babylon::LogStream& ls = *S->streams[(size_t)t][(size_t)e.file];
    Rng r(e.style * 2654435761u + 999);
    const char* d = e.bytes.data();
    size_t n = e.len - 1, off = 0;
    e.state = ST_BUILDING;
    tl_cur = &e;
    set_crash_site("log-stream");
    ls.begin();
    while (off < n) {
      size_t c = std::min<size_t>(n - off, (size_t)r.range(1, (int64_t)(2 * S->ps)));
      switch (r.below(4)) {
        case 0: ls.write(d + off, c); break;
        case 1: ls << babylon::StringView(d + off, c); break;
        case 2: c = 1; ls.write(d[off]); break;
        default:  // suspend and resume the line: must neither flush nor restart the entry
          ls.write(d + off, c);
          ls.noflush(); ls.end(); ls.begin();
          break;
      }
      off += c;
    }
    e.state = ST_HANDED;  // end() appends '\n' (may take one more page) and hands the entry to the appender
    int64_t t0 = now_ns();
    ls.end();
    set_crash_site(nullptr);
    tl_cur = nullptr;
    if (now_ns() - t0 >= 1000000) probe("write_blocked_on_full_queue");
    e.api_returned = true;
    probe("via_async_log_stream");
    return;
  }
  LogStreamBuffer local;
  LogStreamBuffer& buf = e.fresh_buf ? local : *S->bufs[(size_t)t];
  buf.set_page_allocator(S->alloc);
  buf.begin();
  e.state = ST_BUILDING;
  tl_cur = &e;
  set_crash_site("stream");
  stream_entry(e, buf);
  LogEntry& le = buf.end();
  set_crash_site(nullptr);
  tl_cur = nullptr;
  check_scatter(e, le);
  if (e.len == 0) probe("empty_entry");
  e.state = ST_HANDED;
  if (e.kind == K_WRITE) {
    int64_t t0 = now_ns();
    set_crash_site("write");
    S->app.write(le, S->files[(size_t)e.file]);
    set_crash_site(nullptr);
    if (now_ns() - t0 >= 1000000) probe("write_blocked_on_full_queue");
    e.api_returned = true;
  } else {
    set_crash_site("discard");
    S->app.discard(le);
    set_crash_site(nullptr);
    e.api_returned = true;
    if (e.freed != e.pages.size())
      fail("leak", "discard", "%s: discard() returned with %zu of %zu pages not back with the allocator", describe(e, b, sizeof b), e.pages.size() - e.freed, e.pages.size());
  }
}

// ---------------------------------------------------------------------------
size_t norm_ps(int64_t v) { return v >= 4096 ? 4096 : v >= 512 ? 512 : v >= 256 ? 256 : 128; }

int64_t draw_len(Rng& r, size_t ps, int64_t& budget, bool& big_ok) {
  const int64_t P = (int64_t)ps, N = (int64_t)N_INLINE, T = (int64_t)((ps - sizeof(LogEntry::PageTable)) / sizeof(char*));
  static const int64_t ds[] = {-1, 0, 0, 1};
  int64_t len;
  uint64_t x = r.below(100);
  if (x < 10) len = r.range(1, 8);
  else if (x < 20) len = r.range(1, P);
  else if (x < 50) { static const int64_t ks[] = {1, 2, 5, 6, 6, 7, 7, 8}; len = (ks[r.below(8)] + (N - 6)) * P + ds[r.below(4)]; }
  else if (x < 62) len = (N - 1 + T + (int64_t)r.below(2)) * P + ds[r.below(4)];          // first page table exactly full / one more
  else if (x < 69) len = (N - 1 + 2 * T + (int64_t)r.below(2)) * P + ds[r.below(4)];      // second page table full / third begins
  else if (x < 90) len = r.range(1, (N + 4) * P);
  else len = r.range(1, (N + T + 2) * P);
  if (len < 1) len = 1;
  if (len > 300000) {
    if (big_ok) { big_ok = false; return len; }   // at most one very large entry per run, outside the budget
    len = r.range(1, 2 * P);
  }
  if (len > budget) len = r.range(1, std::max<int64_t>(1, std::min<int64_t>(2 * P, budget)));
  budget -= len;
  return len;
}

void gen(Rng& r, Plan& p, const GenParams& gp) {
  int mode = gp.mode >= 0 ? (gp.mode & 3) : 0;
  bool simfaults = mode <= 1 && r.chance(1, 4);
  gen_common(r, p, SB_HALF, simfaults, 1500);
  static const int pss[] = {128, 128, 128, 256, 256, 512, 4096};
  size_t ps = (size_t)pss[r.below(7)];
  p.cfg["mode"] = mode;
  p.cfg["page_size"] = (int64_t)ps;
  static const int caps[] = {1, 1, 2, 2, 3, 4, 6, 8};
  p.cfg["qcap"] = mode == 3 ? caps[r.below(4)] : caps[r.below(8)];
  int nfiles = (int)r.range(1, 2);
  p.cfg["nfiles"] = nfiles;
  p.cfg["rot_file"] = (int64_t)r.below((uint64_t)nfiles);
  static const int rots[] = {0, 1, 2, 3, 5};
  p.cfg["rot_every"] = rots[r.below(5)];
  p.cfg["close_variant"] = (int64_t)r.below(2);
  p.cfg["close_guard"] = mode == 3 ? 0 : 1;
  p.cfg["tail_us"] = (int64_t)r.range(0, 300);
  p.cfg["max_idle_jumps"] = 4000;
  if (mode == 1) {
    p.cfg["fault_kind"] = (int64_t)r.range(1, 4);   // 1 short, 2 EIO, 3 ENOSPC, 4 fd -1
    p.cfg["fault_every"] = (int64_t)r.range(1, 3);
  }
  int nthreads = (int)r.range(1, 3);
  p.threads.resize((size_t)nthreads + 1);
  int64_t budget = gp.thorough ? 6000000 : 400000;
  bool big_ok = gp.thorough || r.chance(1, 30);
  bool huge_iov = ps == 128 && r.chance(1, 16);   // one entry with more than IOV_MAX scatter elements
  int opid = 0;
  bool any_empty = false;
  for (int t = 1; t <= nthreads; t++) {
    int n = (int)r.range(1, 5);
    for (int i = 0; i < n; i++) {
      Op o;
      o.kind = r.chance(1, 5) ? K_DISCARD : K_WRITE;
      if (huge_iov) { o.a = (int64_t)r.range(IOV_MAX - 80, IOV_MAX + 80) * (int64_t)ps + r.range(-1, 1); budget -= o.a; huge_iov = false; }
      else o.a = draw_len(r, ps, budget, big_ok);
      if (mode == 2 && r.chance(1, 4)) { o.a = 0; o.kind = K_WRITE; any_empty = true; }
      o.b = (int64_t)(r.next() & 0x3fffffff);
      o.c = (int64_t)r.below((uint64_t)nfiles) | ((int64_t)r.chance(1, 4) << 4) | ((int64_t)r.chance(1, 5) << 5);
      o.id = opid++;
      p.threads[(size_t)t].push_back(o);
    }
  }
  if (mode == 2 && !any_empty) { Op& o = p.threads[1][0]; o.a = 0; o.kind = K_WRITE; }
}

// ---------------------------------------------------------------------------
// clause (b)
void check_sinks() {
  char b[160], b2[160];
  for (SinkFile* f : S->files) {
    std::string data;
    for (int fd : f->fds) data += sink_data(fd);
    std::map<int, int> last_seq;
    size_t p = 0;
    EntryRec* prev = nullptr;
    while (p < data.size()) {
      unsigned char c = (unsigned char)data[p];
      if (c < 0x80)
        fail("corrupt", "sink-unattributable", "file object %d offset %zu: byte %#x does not start an entry (previous: %s)", f->idx, p, c, prev ? describe(*prev, b, sizeof b) : "none");
      size_t uid = c & 0x7f;
      if (uid >= S->entries.size()) fail("invented", "sink", "file object %d offset %zu: entry marker %zu was never streamed", f->idx, p, uid);
      EntryRec& e = *S->entries[uid];
      if (e.kind == K_DISCARD) fail("invented", "discarded-entry-written", "%s was discarded but appears in file object %d at offset %zu", describe(e, b, sizeof b), f->idx, p);
      if (e.seen) fail("duplicate", "sink", "%s appears a second time (file object %d offset %zu)", describe(e, b, sizeof b), f->idx, p);
      if (e.file != f->idx) fail("wrong-file", "sink", "%s appears in file object %d", describe(e, b, sizeof b), f->idx);
      size_t avail = std::min(e.len, data.size() - p), m = 0;
      while (m < avail && data[p + m] == e.bytes[m]) m++;
      if (m < e.len) {
        bool other = p + m < data.size() && (unsigned char)data[p + m] >= 0x80;
        fail("torn", "sink", "%s in file object %d at offset %zu is intact only up to entry offset %zu (page %zu): %s", describe(e, b, sizeof b), f->idx, p, m, m / S->ps,
             p + m >= data.size() ? "the file ends there" : other ? "another entry starts there" : "different bytes follow");
      }
      e.seen = true;
      auto ls = last_seq.find(e.thread);
      if (ls != last_seq.end() && ls->second > e.seq)
        fail("order", "per-thread", "%s was written by its thread before entry seq %d but appears after it in file object %d", describe(e, b, sizeof b), ls->second, f->idx);
      last_seq[e.thread] = e.seq;
      prev = &e;
      p += e.len;
    }
  }
  for (EntryRec* e : S->entries)
    if (e->kind == K_WRITE && e->api_returned && e->len > 0 && !e->seen)
      fail("lost", "sink", "%s: write() returned before close() was called, but the entry is in no file after close() returned", describe(*e, b2, sizeof b2));
}

// clause (c)
void check_ledger() {
  char b[160];
  if (S->alloc.live == 0) return;
  for (auto& kv : S->alloc.pages)
    if (kv.second.live)
      fail("leak", kv.second.table ? "page-table-page" : "data-page", "%zu of %zu pages not back with the allocator after close(); first: %s page %zu of %s", S->alloc.live, S->alloc.total,
           kv.second.table ? "page-table" : "data", kv.second.k, describe(*kv.second.e, b, sizeof b));
}

void check_fds() {
  for (SinkFile* f : S->files) {
    for (size_t i = 0; i + 1 < f->fds.size(); i++) {
      if (!sink_closed(f->fds[i])) fail("fd", "old-fd-not-closed", "fd %d of file object %d was reported as rotated out but never closed", f->fds[i], f->idx);
      if (sink_data(f->fds[i]).size() != f->size_at_rotation[i])
        fail("fd", "write-after-rotation", "fd %d of file object %d received %zu bytes after it was rotated out", f->fds[i], f->idx, sink_data(f->fds[i]).size() - f->size_at_rotation[i]);
    }
    if (sink_closed(f->fds.back())) fail("fd", "current-fd-closed", "the appender closed fd %d of file object %d, which is still the current descriptor", f->fds.back(), f->idx);
  }
}

// The closer is blocked in its futex wait although the slot it waits for has
// reached the version it waits for (rule 1: "blocked although the condition holds").
bool close_blocked_on_ready_slot() {
  auto& q = S->app._queue;
  if (q._next_push_index.load(std::memory_order_relaxed) != S->close_ticket + 1) return false;
  size_t slot = S->close_ticket & q._slot_mask;
  uint32_t word = q._slots.futex(slot)._futex.value().load(std::memory_order_relaxed);
  return (uint16_t)word == q.push_version_for_index(S->close_ticket) && word > UINT16_MAX;
}

void check_writer_alive(int loggers_not_done, const char* when) {
  if (others_alive() >= loggers_not_done + 1) return;
  size_t pending = 0;
  for (EntryRec* e : S->entries) if (e->kind == K_WRITE && e->state == ST_HANDED && e->len > 0 && !entry_in_sink(*e)) pending++;
  // an early exit that loses nothing and leaves nobody behind is not observable through the property
  if (pending == 0 && loggers_not_done == 0) { probe("writer_exit_without_loss"); return; }
  fail("writer-exit", S->mode == 2 ? "empty-entry" : "before-close",
       "the appender's writer thread has exited %s although close() was not called (%zu handed-in entries unwritten, %d logging threads still working)", when, pending, loggers_not_done);
}

void run(const Plan& p) {
  S = new State();
  State& s = *S;
  s.mode = (int)std::max<int64_t>(0, std::min<int64_t>(p.get("mode", 0), 3));
  s.fault_mode = s.mode == 1;
  s.ps = norm_ps(p.get("page_size", 128));
  s.tcap = (s.ps - sizeof(LogEntry::PageTable)) / sizeof(char*);
  s.alloc.ps = s.ps;
  s.qcap = (size_t)std::max<int64_t>(1, std::min<int64_t>(p.get("qcap", 4), 8));
  int nfiles = (int)std::max<int64_t>(1, std::min<int64_t>(p.get("nfiles", 1), 2));
  int rot_file = (int)std::max<int64_t>(0, std::min<int64_t>(p.get("rot_file", 0), nfiles - 1));
  int rot_every = (int)std::max<int64_t>(0, std::min<int64_t>(p.get("rot_every", 0), 1000));
  int fault_kind = s.fault_mode ? (int)std::max<int64_t>(1, std::min<int64_t>(p.get("fault_kind", 1), 4)) : 0;
  int fault_every = (int)std::max<int64_t>(1, std::min<int64_t>(p.get("fault_every", 1), 100));
  // entries from the plan
  size_t nthreads = std::min<size_t>(p.threads.size(), 8);
  s.bufs.resize(nthreads, nullptr);
  for (size_t t = 1; t < nthreads; t++) {
    if (p.threads[t].empty()) continue;
    s.nlog++;
    s.bufs[t] = new LogStreamBuffer();
    int seq = 0;
    for (auto& op : p.threads[t]) {
      if (s.entries.size() >= 120) skip("too-many-entries");
      EntryRec* e = new EntryRec();
      e->uid = (int)s.entries.size(); e->thread = (int)t; e->seq = seq++; e->opid = op.id;
      e->kind = op.kind == K_DISCARD ? K_DISCARD : K_WRITE;
      int64_t len = std::min<int64_t>(op.a, (int64_t)MAX_LEN);
      if (len < 1) len = s.mode == 2 ? 0 : 1;
      e->len = (size_t)len;
      e->style = (uint64_t)op.b;
      e->file = (int)(op.c & 1) % nfiles;
      e->fresh_buf = (op.c >> 4) & 1;
      e->via_stream = ((op.c >> 5) & 1) && e->kind == K_WRITE && e->len >= 2 && e->len <= 200000;
      fill_pattern(*e);
      s.entries.push_back(e);
      s.by_op[op.id] = e;
    }
  }
  for (int i = 0; i < nfiles; i++) {
    SinkFile* f = new SinkFile();
    f->idx = i;
    f->rot_every = i == rot_file ? rot_every : 0;
    f->fault_kind = fault_kind; f->fault_every = fault_every;
    if (fault_kind == 4) f->neg_every = fault_every + 1;
    f->open_next();
    s.files.push_back(f);
  }
  s.app.set_page_allocator(s.alloc);
  s.app.set_queue_capacity(s.qcap);
  if (s.app.initialize() != 0) fail("api", "initialize", "initialize() failed");
  s.streams.resize(nthreads);
  for (size_t t = 1; t < nthreads; t++)
    if (s.bufs[t])
      for (SinkFile* f : s.files) s.streams[t].push_back(babylon::AsyncLogStream::creator(s.app, *f, [](babylon::AsyncLogStream&) {})());
  const int64_t tail_us = std::max<int64_t>(0, std::min<int64_t>(p.get("tail_us", 0), 1000));
  hx::Workers w;
  {
    const Plan* pp = &p;
    w.start(p, [pp, tail_us](int t, const Op& op) {
      if ((size_t)t >= S->bufs.size() || !S->bufs[(size_t)t]) return;
      do_entry(t, op);
      if (&op == &pp->threads[(size_t)t].back()) {
        S->loggers_done.fetch_add(1, std::memory_order_release);  // rule 11: the hand-off to the closing thread synchronises
        if (tail_us) ::usleep((useconds_t)tail_us);
      }
    }, 1);
  }
  // phase 1: monitor until every write()/discard() has returned
  while (s.loggers_done.load(std::memory_order_acquire) < s.nlog) {
    wait_quiescent();
    int done = s.loggers_done.load(std::memory_order_acquire);
    check_writer_alive(s.nlog - done, "while logging threads are still writing");
    if (done >= s.nlog) break;
    sleep_ns(50000);
  }
  bool concurrent_close = p.get("close_variant", 0) != 0 && s.mode != 2;
  if (!concurrent_close) {
    w.join();
    if (others_alive() != 1) check_writer_alive(0, "after all logging threads finished");
  }
  if (s.mode == 2) {
    // probe mode: let the writer reach whatever is queued, so that the verdict
    // does not depend on how far it got when close() is called
    while (others_alive() == 1 && s.app.pending_size() > 0) ::usleep(100);
    for (int i = 0; i < 3 && others_alive() == 1; i++) ::usleep(1000);  // let the writer finish the round it is in
    if (others_alive() == 0) check_writer_alive(0, "after all logging threads finished");
  }
  // Default mix: do not call close() while the slot its stop marker will use is
  // still being recycled by the writer (reads private queue state; avoids the
  // close()-hang finding, which is probed by mode 3 with close_guard = 0).
  if (p.get("close_guard", 1) != 0) {
    auto& q = s.app._queue;
    for (;;) {
      size_t idx = q._next_push_index.load(std::memory_order_relaxed);
      if (q._slots.futex(idx & q._slot_mask).version(std::memory_order_acquire) == q.push_version_for_index(idx)) break;
      probe("close_guard_waited");
      if (others_alive() == 0) check_writer_alive(0, "before close()");
      ::usleep(20);
    }
  }
  // phase 2: close() on its own thread, thread 0 watches
  s.close_ticket = s.app._queue._next_push_index.load(std::memory_order_relaxed);
  s.close_called = true;
  std::thread closer([] {
    OpScope sc(100000);
    set_crash_site("close");
    S->close_rc = S->app.close();
    set_crash_site(nullptr);
    S->close_returned = true;
  });
  int suspicious = 0;
  while (!s.close_returned) {
    wait_quiescent();
    if (s.close_returned) break;
    if (close_blocked_on_ready_slot()) {
      if (++suspicious >= 2)
        fail("close-hang", "futex-wait-without-wake", "close() is blocked forever: its stop-marker push (ticket %zu, queue capacity %zu) went to sleep on a slot the writer thread had not yet recycled; the writer's try_pop_n<false,false> then advanced the slot version without a wake",
             s.close_ticket, s.app._queue.capacity());
    } else suspicious = 0;
    sleep_ns(100000);
  }
  closer.join();
  if (s.close_rc != 0) fail("api", "close", "close() returned %d", s.close_rc);
  if (concurrent_close) { probe("close_while_loggers_alive"); w.join(); }
  if (s.app._backoff_us >= 20) probe("writer_backoff_slept");
  if (s.app._queue._next_push_index.load(std::memory_order_relaxed) > s.app._queue.capacity()) probe("queue_ring_reused");
  if (s.files.size() > 1 && s.app._destinations.size() > 1) probe("two_destinations");
  // oracles
  if (!s.fault_mode) { check_sinks(); check_fds(); }
  check_ledger();
  // secondary: close() is documented to shut the writer thread down
  if (others_alive() != 0)
    fail("close-early", "writer-still-running", "close() returned but %d appender thread(s) are still running", others_alive());
  for (EntryRec* e : s.entries) if (e->kind == K_DISCARD) { probe("discarded_entries"); break; }
  probe("entries", s.entries.size());
}

const char* const kShrink[] = {"qcap", "nfiles", "rot_every", "tail_us", nullptr};

}  // namespace

const Harness sim::g_harness = {"logging", kNames, gen, run, kShrink, 0};
