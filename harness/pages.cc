// Harness "pages": C17 — page allocators and object pool: resources conserved,
// never shared, never lost.   DESIGN.md §3 C17.
//
// what 0  stacks of CountingPageAllocator / BatchPageAllocator /
//         CachedPageAllocator (or a PageHeap) over a recording upstream
//         PageAllocator; 2–4 threads, single and batched allocate/deallocate
//         (batch > cache capacity included), pages handed between threads
//         through a mutex-protected mailbox, two phases of threads.
// what 1  ObjectPool strict mode (n injected objects, blocking pop, try_pop,
//         return through the smart pointer's deleter or push()).
// what 2  ObjectPool auto-create mode (creator, recycler, overflow).
#include <babylon/concurrent/object_pool.h>
#include <babylon/reusable/page_allocator.h>

#include <string.h>

#include <algorithm>
#include <map>
#include <memory>
#include <mutex>
#include <thread>
#include <vector>

#include "common.h"

using namespace sim;

namespace {

enum Kind { K_ALLOC1, K_ALLOCN, K_FREE1, K_FREEN, K_TOUCH, K_GIVE, K_TAKE, K_POP, K_TRYPOP, K_RET, K_PUSHBACK, K_REASSIGN };
const char* const kNames[] = {"allocate", "allocate_n", "deallocate", "deallocate_n", "touch", "give", "take",
                              "pop", "try_pop", "return", "push_back", "reassign", nullptr};

constexpr size_t PSZ = 64;  // page size of the recording upstream (small: every byte has an HB cell)
constexpr int MAXT = 64;

enum PState { IN_STACK = 0, HELD = 1, GONE = 2 };
struct PageRec { int state; int holder; uint64_t seed; };

struct State;
State* S;

struct RecUpstream : public babylon::PageAllocator {
  uint64_t obtained = 0, returned = 0;
  size_t page_size() const noexcept override { return PSZ; }
  using PageAllocator::allocate;
  using PageAllocator::deallocate;
  void allocate(void** pages, size_t num) noexcept override;
  void deallocate(void** pages, size_t num) noexcept override;
};

struct PObj {
  uint64_t magic;
  int id;
  int owner;  // 0 = in the pool / in flight, t + 1 = held by thread t
  uint64_t payload[3];
  PObj();
  ~PObj();
};
constexpr uint64_t PMAGIC = 0x900100b1ec7ULL;
typedef babylon::ObjectPool<PObj> Pool;
typedef std::unique_ptr<PObj, Pool::Deleter> Handle;
struct ObjRec { PObj* p; int created; int destroyed; int recycled; int expected_recycles; };

struct State {
  int what = 0;
  // page allocators
  RecUpstream rec;
  babylon::CachedPageAllocator* cache = nullptr;
  babylon::BatchPageAllocator* batch = nullptr;
  babylon::CountingPageAllocator* counting = nullptr;
  babylon::PageHeap* heap = nullptr;
  babylon::PageAllocator* top = nullptr;
  size_t cap = 0;  // real capacity of the cache queue
  std::map<uintptr_t, PageRec> pages;
  std::vector<void*> held[MAXT];
  std::vector<void*> mailbox;
  std::mutex mbox_mu;
  uint64_t seq[MAXT] = {0};
  uint64_t requested = 0;  // pages requested through allocate (cache hit summary)
  int cur_n[MAXT] = {0};   // size of the allocator call the thread is inside (0 = none)
  bool cur_alloc[MAXT] = {false};
  bool destroying = false;
  // object pool
  Pool* pool = nullptr;
  size_t n = 0;  // strict: injected objects; auto: capacity
  bool recycler = false;
  std::vector<ObjRec> objs;
  // handles are kept behind a pointer: vector::erase would move-assign them
  // (see K_REASSIGN for why that is a separate, explicit operation)
  std::vector<std::unique_ptr<Handle>> handles[MAXT];
  int64_t outstanding = 0;
  int64_t live_objs = 0;
  int tl_recycles[MAXT] = {0};
  PObj* tl_last[MAXT] = {nullptr};
  bool in_return[MAXT] = {false};
  std::vector<std::thread> th;
};

__attribute__((no_sanitize("thread"))) void raw_fill(void* p, int c, size_t n) { memset(p, c, n); }

int me() { return tid() & (MAXT - 1); }

// ---------------------------------------------------------------------------
// recording upstream
void RecUpstream::allocate(void** out, size_t num) noexcept {
  sim::yield_point();  // a real upstream synchronises inside
  int t = me();
  if ((S->cache || S->heap) && !S->batch && S->cur_n[t] > 0 && S->cur_alloc[t] && (size_t)S->cur_n[t] <= S->cap) probe("compensating_push_ran");
  if ((S->cache || S->heap) && !S->batch && S->cur_n[t] > 0 && S->cur_alloc[t] && (size_t)S->cur_n[t] > S->cap) probe("beyond_capacity_allocate");
  for (size_t i = 0; i < num; i++) {
    void* p = ::operator new(PSZ, std::align_val_t(PSZ));
    raw_fill(p, 0xC9, PSZ);
    S->pages[(uintptr_t)p] = PageRec{IN_STACK, -1, 0};
    hb_register(p, PSZ, "page");
    obtained++;
    out[i] = p;
  }
}

void RecUpstream::deallocate(void** in, size_t num) noexcept {
  sim::yield_point();
  int t = me();
  if (!S->destroying && (S->cache || S->heap) && !S->batch && S->cur_n[t] > 0 && !S->cur_alloc[t] && (size_t)S->cur_n[t] <= S->cap) probe("compensating_pop_ran");
  for (size_t i = 0; i < num; i++) {
    void* p = in[i];
    auto it = S->pages.find((uintptr_t)p);
    if (it == S->pages.end()) fail("bad-page", "upstream-deallocate", "%p was returned upstream but was never obtained from upstream", p);
    PageRec& r = it->second;
    if (r.state == GONE) fail("returned-twice", "upstream-deallocate", "page %p was returned upstream a second time", p);
    if (r.state == HELD) fail("returned-while-held", "upstream-deallocate", "page %p was returned upstream by T%d while caller T%d still holds it", p, tid(), r.holder);
    r.state = GONE;
    hb_unregister(p);
    returned++;
    ::operator delete(p, std::align_val_t(PSZ));
  }
}

// ---------------------------------------------------------------------------
// caller side of pages
void write_page(void* p, uint64_t seed) {
  uint64_t* w = (uint64_t*)p;
  for (size_t i = 0; i < PSZ / 8; i++) w[i] = seed ^ (i * 0x9e3779b97f4a7c15ULL);
}
void check_page(void* p, uint64_t seed, const char* when) {
  const uint64_t* w = (const uint64_t*)p;
  for (size_t i = 0; i < PSZ / 8; i++)
    if (w[i] != (seed ^ (i * 0x9e3779b97f4a7c15ULL)))
      fail("exclusive", "page-content", "page %p held by T%d changed under its holder (%s): word %zu is %#llx, written %#llx", p, tid(), when, i, (unsigned long long)w[i], (unsigned long long)(seed ^ (i * 0x9e3779b97f4a7c15ULL)));
}

void got_page(int t, void* p, const char* site) {
  if (!p) fail("null-page", site, "%s returned a null page", site);
  auto it = S->pages.find((uintptr_t)p);
  if (it == S->pages.end()) fail("invented", site, "%s returned %p, which was never obtained from upstream", site, p);
  PageRec& r = it->second;
  if (r.state == GONE) fail("dangling", site, "%s handed out page %p, which has already been returned upstream", site, p);
  if (r.state == HELD) fail("duplicate", site, "%s handed page %p to T%d while %s holds it", site, p, t, r.holder == t ? "the same caller already" : r.holder == -2 ? "the mailbox" : "another caller");
  r.state = HELD; r.holder = t;
  r.seed = ((uint64_t)(t + 1) << 32) | ++S->seq[t];
  write_page(p, r.seed);
  S->held[t].push_back(p);
}

// verify the holder's pattern and take the page out of the caller's hands (before the call that gives it back)
void release_page(int t, void* p) {
  PageRec& r = S->pages[(uintptr_t)p];
  if (r.state != HELD || r.holder != t) fail("harness", "release-page", "harness bookkeeping broken");
  check_page(p, r.seed, "before deallocate");
  r.state = IN_STACK; r.holder = -1;
}

void call_allocate(int t, size_t n, bool single) {
  void* buf[8] = {nullptr};
  n = std::max<size_t>(1, std::min<size_t>(n, 6));
  if (S->held[t].size() + n > 14) return;
  S->cur_n[t] = (int)n; S->cur_alloc[t] = true;
  S->requested += n;
  if (single) { set_crash_site("allocate"); buf[0] = S->top->allocate(); n = 1; }
  else { set_crash_site("allocate_n"); S->top->allocate(buf, n); }
  set_crash_site(nullptr);
  S->cur_n[t] = 0;
  for (size_t i = 0; i < n; i++) got_page(t, buf[i], single ? "allocate" : "allocate_n");
}

void call_deallocate(int t, size_t n, bool single, int64_t pick) {
  auto& h = S->held[t];
  if (h.empty()) return;
  void* buf[8];
  n = std::max<size_t>(1, std::min<size_t>(std::min<size_t>(n, 6), h.size()));
  if (single) n = 1;
  for (size_t i = 0; i < n; i++) {
    size_t k = (size_t)((uint64_t)(pick + (int64_t)i * 7) % h.size());
    buf[i] = h[k];
    h.erase(h.begin() + (long)k);
    release_page(t, buf[i]);
  }
  S->cur_n[t] = (int)n; S->cur_alloc[t] = false;
  if (single) { set_crash_site("deallocate"); S->top->deallocate(buf[0]); }
  else { set_crash_site("deallocate_n"); S->top->deallocate(buf, n); }
  set_crash_site(nullptr);
  S->cur_n[t] = 0;
}

size_t cached_now() {
  size_t c = 0;
  if (S->cache) c += S->cache->free_page_num();
  if (S->heap) c += S->heap->free_page_num();
  if (S->batch) {
    // pages prefetched into the per-thread buffers (private state, read only)
    S->batch->_cache.for_each([&](babylon::BatchPageAllocator::Slot* it, babylon::BatchPageAllocator::Slot* end) {
      for (; it != end; ++it)
        if (it->next_page < it->buffer.end()) c += (size_t)(it->buffer.end() - it->next_page);
    });
  }
  return c;
}

void check_conservation(const char* site) {
  size_t held = S->mailbox.size();
  for (auto& h : S->held) held += h.size();
  size_t cached = cached_now();
  uint64_t net = S->rec.obtained - S->rec.returned;
  if (net != held + cached)
    fail("conservation", site, "obtained from upstream %llu - returned upstream %llu = %llu, but callers hold %zu pages and %zu are cached", (unsigned long long)S->rec.obtained, (unsigned long long)S->rec.returned, (unsigned long long)net, held, cached);
  // every page the harness believes to be in the stack is accounted for by that number
  size_t in_stack = 0;
  for (auto& kv : S->pages) if (kv.second.state == IN_STACK) in_stack++;
  if (in_stack != cached)
    fail("conservation", site, "%zu pages are neither held by a caller nor returned upstream, but the allocators report %zu cached pages", in_stack, cached);
  if (S->counting && S->counting->allocated_page_num() != held)
    fail("counting", site, "CountingPageAllocator::allocated_page_num() = %zu but callers hold %zu pages", S->counting->allocated_page_num(), held);
  if (S->heap && S->heap->allocate_page_num() != held)
    fail("counting", site, "PageHeap::allocate_page_num() = %zu but callers hold %zu pages", S->heap->allocate_page_num(), held);
  if (S->cache && !S->batch) {
    auto sum = S->cache->cache_hit_summary();
    if ((uint64_t)sum.num != S->requested || sum.sum < 0 || (uint64_t)sum.sum > S->requested)
      fail("counting", "cache-hit-summary", "cache_hit_summary() = {hits %lld, total %llu} after %llu pages were requested", (long long)sum.sum, (unsigned long long)sum.num, (unsigned long long)S->requested);
  }
  if (S->cache && S->cache->free_page_num() > S->cache->free_page_capacity())
    fail("conservation", "cache-over-capacity", "cache reports %zu free pages with capacity %zu", S->cache->free_page_num(), S->cache->free_page_capacity());
}

void page_op(int t, const Op& op) {
  switch (op.kind) {
    case K_ALLOC1: call_allocate(t, 1, true); break;
    case K_ALLOCN: call_allocate(t, (size_t)std::max<int64_t>(1, op.a), false); break;
    case K_FREE1: call_deallocate(t, 1, true, op.b); break;
    case K_FREEN: call_deallocate(t, (size_t)std::max<int64_t>(1, op.a), false, op.b); break;
    case K_TOUCH:
      for (void* p : S->held[t]) {
        PageRec& r = S->pages[(uintptr_t)p];
        check_page(p, r.seed, "while held");
        sim::yield_point();
        r.seed = ((uint64_t)(t + 1) << 32) | ++S->seq[t];
        write_page(p, r.seed);
      }
      break;
    case K_GIVE: {
      auto& h = S->held[t];
      if (h.empty()) break;
      size_t k = (size_t)((uint64_t)op.b % h.size());
      void* p = h[k];
      h.erase(h.begin() + (long)k);
      PageRec& r = S->pages[(uintptr_t)p];
      check_page(p, r.seed, "before hand-over");
      // a real client hands a page to another thread through synchronisation
      std::lock_guard<std::mutex> l(S->mbox_mu);
      r.holder = -2;
      S->mailbox.push_back(p);
      break;
    }
    case K_TAKE: {
      void* p = nullptr;
      {
        std::lock_guard<std::mutex> l(S->mbox_mu);
        if (S->mailbox.empty() || S->held[t].size() > 12) break;
        p = S->mailbox.back();
        S->mailbox.pop_back();
      }
      PageRec& r = S->pages[(uintptr_t)p];
      check_page(p, r.seed, "after hand-over");
      r.holder = t;
      r.seed = ((uint64_t)(t + 1) << 32) | ++S->seq[t];
      write_page(p, r.seed);
      S->held[t].push_back(p);
      probe("page_handed_between_threads");
      break;
    }
  }
}

// ---------------------------------------------------------------------------
// object pool
PObj::PObj() {
  id = (int)S->objs.size();
  magic = PMAGIC ^ (uint64_t)id;
  owner = 0;
  for (auto& w : payload) w = 0;
  S->objs.push_back(ObjRec{this, 1, 0, 0, 0});
  S->live_objs++;
  hb_register(this, sizeof(PObj), "pool-object");
}
PObj::~PObj() {
  if (id < 0 || (size_t)id >= S->objs.size() || magic != (PMAGIC ^ (uint64_t)id)) fail("double-destroy", "pool-object", "an object that is not alive (magic %#llx) was destroyed", (unsigned long long)magic);
  ObjRec& r = S->objs[(size_t)id];
  if (++r.destroyed > 1) fail("double-destroy", "pool-object", "object %d destroyed twice", id);
  if (owner != 0) fail("destroyed-while-held", "pool-object", "object %d destroyed while T%d holds it", id, owner - 1);
  if (S->recycler && r.recycled != r.expected_recycles)
    fail("recycler", "not-run", "object %d was destroyed after being handed back %d times, but the recycler ran %d times for it (the documentation promises clean-up before an overflowing object is destroyed)", id, r.expected_recycles, r.recycled);
  if (S->in_return[me()]) probe("overflow_destroyed");
  magic = 0xdeadULL;
  S->live_objs--;
  hb_unregister(this);
}

void recycle_fn(PObj& o) {
  int t = me();
  if (o.id < 0 || (size_t)o.id >= S->objs.size() || o.magic != (PMAGIC ^ (uint64_t)o.id)) fail("recycler", "dead-object", "recycler called on an object that is not alive");
  if (o.owner != 0) fail("recycler", "object-in-use", "recycler called on object %d while T%d holds it", o.id, o.owner - 1);
  S->objs[(size_t)o.id].recycled++;
  S->tl_recycles[t]++;
  S->tl_last[t] = &o;
}

void got_object(int t, Handle&& h, const char* site) {
  PObj* o = h.get();
  if (o->id < 0 || (size_t)o->id >= S->objs.size() || S->objs[(size_t)o->id].p != o || o->magic != (PMAGIC ^ (uint64_t)o->id))
    fail("invented", site, "%s returned %p, which is not a live object of this pool", site, (void*)o);
  if (o->owner != 0) fail("duplicate", site, "%s handed object %d to T%d while T%d holds it", site, o->id, t, o->owner - 1);
  o->owner = t + 1;
  S->outstanding++;
  if (S->what == 1 && S->outstanding > (int64_t)S->n)
    fail("over-capacity", site, "%lld objects are outstanding from a strict pool that was given %zu", (long long)S->outstanding, S->n);
  uint64_t v = ((uint64_t)(t + 1) << 32) | ++S->seq[t];
  for (size_t i = 0; i < 3; i++) o->payload[i] = v + i;
  S->handles[t].push_back(std::unique_ptr<Handle>(new Handle(std::move(h))));
}

void check_payload(int t, PObj* o, const char* when) {
  if (o->owner != t + 1) fail("exclusive", "pool-object", "object %d held by T%d has owner flag %d (%s)", o->id, t, o->owner, when);
  uint64_t v = o->payload[0];
  if ((v >> 32) != (uint64_t)(t + 1) || o->payload[1] != v + 1 || o->payload[2] != v + 2)
    fail("exclusive", "pool-object", "payload of object %d held by T%d changed under its holder (%s)", o->id, t, when);
}

// hand an object back; how: 0 deleter (reset), 1 explicit push(handle)
void return_object(int t, size_t k, int how) {
  auto& hs = S->handles[t];
  Handle h(std::move(*hs[k]));
  hs.erase(hs.begin() + (long)k);
  PObj* o = h.get();
  check_payload(t, o, "before return");
  int id = o->id;
  o->owner = 0;
  S->outstanding--;
  S->objs[(size_t)id].expected_recycles++;
  S->tl_recycles[t] = 0; S->tl_last[t] = nullptr;
  S->in_return[t] = true;
  if (how == 1) { set_crash_site("push"); S->pool->push(std::move(h)); }
  else { set_crash_site("deleter"); h.reset(); }
  set_crash_site(nullptr);
  S->in_return[t] = false;
  if (S->recycler) {
    if (S->tl_recycles[t] == 0) fail("recycler", "not-run", "object %d was handed back to the pool but the recycler did not run for it", id);
    if (S->tl_recycles[t] > 1 || S->tl_last[t] != o) fail("recycler", "run-twice", "handing back object %d ran the recycler %d times", id, S->tl_recycles[t]);
  }
}

void return_all(int t) {
  while (!S->handles[t].empty()) return_object(t, S->handles[t].size() - 1, 0);
}

void pool_op(int t, const Op& op) {
  auto& hs = S->handles[t];
  switch (op.kind) {
    case K_POP: {
      // strict mode: a caller that blocks for an object must not sit on one (client-side deadlock otherwise)
      if (S->what == 1) return_all(t);
      if (hs.size() >= 3) break;
      if (S->pool->free_object_number() == 0) probe(S->what == 1 ? "pop_on_empty_strict_pool" : "pop_on_empty_auto_pool");
      set_crash_site("pop");
      Handle h = S->pool->pop();
      set_crash_site(nullptr);
      if (!h) fail("null-pop", "pop", "pop() returned an empty pointer");
      got_object(t, std::move(h), "pop");
      break;
    }
    case K_TRYPOP: {
      if (hs.size() >= 3) break;
      set_crash_site("try_pop");
      Handle h = S->pool->try_pop();
      set_crash_site(nullptr);
      if (h) got_object(t, std::move(h), "try_pop"); else probe("try_pop_empty");
      break;
    }
    case K_RET:
      if (!hs.empty()) return_object(t, (size_t)((uint64_t)op.a % hs.size()), 0);
      break;
    case K_PUSHBACK:
      if (!hs.empty()) return_object(t, (size_t)((uint64_t)op.a % hs.size()), 1);
      break;
    case K_TOUCH:
      for (auto& h : hs) {
        check_payload(t, h->get(), "while held");
        sim::yield_point();
        uint64_t v = ((uint64_t)(t + 1) << 32) | ++S->seq[t];
        for (size_t i = 0; i < 3; i++) (*h)->payload[i] = v + i;
      }
      break;
    case K_REASSIGN: {
      // `handle = pool.try_pop();` over a handle that still owns an object: the
      // old object goes back through the deleter, then the deleter is move-assigned
      if (hs.empty()) break;
      size_t k = (size_t)((uint64_t)op.a % hs.size());
      PObj* o = hs[k]->get();
      check_payload(t, o, "before return");
      int id = o->id;
      o->owner = 0;
      S->outstanding--;
      S->objs[(size_t)id].expected_recycles++;
      S->tl_recycles[t] = 0;
      S->in_return[t] = true;
      set_crash_site("handle-move-assign");
      Handle n = S->pool->try_pop();
      bool had = (bool)n;
      PObj* no = n.get();
      *hs[k] = std::move(n);
      set_crash_site(nullptr);
      S->in_return[t] = false;
      if (S->recycler && S->tl_recycles[t] != 1) fail("recycler", S->tl_recycles[t] ? "run-twice" : "not-run", "re-assigning a handle handed object %d back but the recycler ran %d times", id, S->tl_recycles[t]);
      if (hs[k]->get() != no) fail("api", "handle-move-assign", "move-assigned handle does not own the object it was assigned");
      Handle moved(std::move(*hs[k]));
      hs.erase(hs.begin() + (long)k);
      if (had) got_object(t, std::move(moved), "try_pop");
      probe("handle_reassigned");
      break;
    }
  }
}

// ---------------------------------------------------------------------------
void run_phase(const Plan& p, int phase) {
  for (size_t t = 1; t < p.threads.size() && t < MAXT; t++) {
    if (p.threads[t].empty() || p.threads[t][0].c != phase) continue;
    const Plan* pp = &p;
    S->th.emplace_back([pp, t]() {
      for (auto& op : pp->threads[t]) {
        OpScope scope(op.id);
        if (S->what == 0) page_op((int)t, op); else pool_op((int)t, op);
      }
      // the pool's clients give everything back before they leave
      if (S->what != 0) return_all((int)t);
    });
  }
  for (auto& t : S->th) t.join();
  S->th.clear();
}

void run_pages(const Plan& p) {
  State& s = *S;
  babylon::PageAllocator* lower = &s.rec;
  int64_t cap = std::max<int64_t>(0, std::min<int64_t>(p.get("cache", 1), 4));
  int64_t bs = std::max<int64_t>(0, std::min<int64_t>(p.get("batch", 0), 4));
  bool counting = p.get("counting", 0) != 0, heap = p.get("heap", 0) != 0;
  if (heap) {
    s.heap = new babylon::PageHeap();
    s.heap->set_free_page_capacity((size_t)std::max<int64_t>(1, cap));
    // PageHeap's base allocator is fixed to new/delete; its cached stage is
    // pointed at the recording upstream instead (set-up only, before any use)
    s.heap->_cached_allocator.set_upstream(s.rec);
    s.cap = s.heap->free_page_capacity();
    s.top = s.heap;
  } else {
    if (!cap && !bs && !counting) cap = 1;
    if (cap) {
      s.cache = new babylon::CachedPageAllocator();
      s.cache->set_upstream(*lower);
      s.cache->set_free_page_capacity((size_t)cap);
      s.cap = s.cache->free_page_capacity();
      lower = s.cache;
    }
    if (bs) {
      s.batch = new babylon::BatchPageAllocator();
      s.batch->set_upstream(*lower);
      s.batch->set_batch_size((size_t)bs);
      lower = s.batch;
    }
    if (counting) {
      s.counting = new babylon::CountingPageAllocator();
      s.counting->set_upstream(*lower);
      lower = s.counting;
    }
    s.top = lower;
  }
  if (s.top->page_size() != PSZ) fail("api", "page_size", "page_size() = %zu through the stack, upstream has %zu", s.top->page_size(), PSZ);
  // burn-in (rare shape): the main thread alone cycles one page through the
  // cache until every slot of its queue is a few tickets away from the 16-bit
  // wrap of the slot version; the concurrent phases then cross the wrap in
  // whatever fill state the plan produces
  int64_t burn = std::max<int64_t>(0, std::min<int64_t>(p.get("burn", 0), 70000));
  if (burn && s.cache && !s.batch && !s.counting && !heap) {
    call_allocate(0, 1, true);
    for (int64_t i = 0; i < burn && !s.held[0].empty(); i++) {
      call_deallocate(0, 1, true, 0);
      call_allocate(0, 1, true);
    }
    while (!s.held[0].empty()) call_deallocate(0, 1, true, 0);
    // leave the cache empty or full, as drawn
    if (p.get("burn_drain", 0)) { for (size_t i = 0; i < s.cap; i++) call_allocate(0, 1, true); s.mailbox.insert(s.mailbox.end(), s.held[0].begin(), s.held[0].end()); for (void* pg : s.held[0]) s.pages[(uintptr_t)pg].holder = -2; s.held[0].clear(); }
    check_conservation("after-burn-in");
    probe("version_wrap_burn_in");
  }
  for (int phase = 0; phase < 2; phase++) {
    run_phase(p, phase);
    check_conservation(phase == 0 ? "quiescence-1" : "quiescence-2");
  }
  // the main thread gives back what is left (pages of exited threads, mailbox)
  int t0 = 0;
  for (void* pg : s.mailbox) { s.pages[(uintptr_t)pg].holder = t0; s.held[t0].push_back(pg); }
  s.mailbox.clear();
  for (int t = 1; t < MAXT; t++) {
    for (void* pg : s.held[t]) { PageRec& r = s.pages[(uintptr_t)pg]; check_page(pg, r.seed, "at the end"); r.holder = t0; s.held[t0].push_back(pg); }
    s.held[t].clear();
  }
  int64_t i = 0;
  while (!s.held[t0].empty()) { OpScope sc(100000 + (int)i); call_deallocate(t0, (size_t)(1 + i % 3), (i % 4) == 0, i); i++; }
  check_conservation("after-return");
  // destruction returns every cached / prefetched page upstream
  s.destroying = true;
  size_t cached = cached_now();
  if (cached) probe("destroyed_with_cached_pages");
  set_crash_site("destructor");
  delete s.counting;
  delete s.batch;
  delete s.cache;
  delete s.heap;
  set_crash_site(nullptr);
  if (s.rec.obtained != s.rec.returned)
    fail("leak", "destruction", "after destroying the allocators %llu pages obtained from upstream were never returned (%zu were cached before destruction)", (unsigned long long)(s.rec.obtained - s.rec.returned), cached);
  if (s.rec.obtained) probe("upstream_pages", s.rec.obtained);
}

void run_pool(const Plan& p) {
  State& s = *S;
  s.n = (size_t)std::max<int64_t>(1, std::min<int64_t>(p.get("n", 2), 4));
  s.recycler = p.get("recycler", 1) != 0;
  s.pool = new Pool();
  s.pool->reserve_and_clear(s.n);
  if (s.recycler) s.pool->set_recycler(recycle_fn);
  if (s.what == 2) {
    s.pool->set_creator([]() { probe("creator_ran"); return std::unique_ptr<PObj>(new PObj()); });
  } else {
    for (size_t i = 0; i < s.n; i++) {
      PObj* o = new PObj();
      s.objs[(size_t)o->id].expected_recycles++;  // the recycler also runs on injection
      s.pool->push(std::unique_ptr<PObj>(o));
    }
    if (s.pool->free_object_number() != s.n) fail("lost", "inject", "free_object_number() = %zu after injecting %zu objects", s.pool->free_object_number(), s.n);
  }
  // burn-in (rare shape): cycle one object through the pool until the slot
  // versions of its queue are a few tickets below the 16-bit wrap
  int64_t burn = std::max<int64_t>(0, std::min<int64_t>(p.get("burn", 0), 70000));
  for (int64_t i = 0; i < burn; i++) {
    Handle h = s.pool->pop();
    if (!h) fail("null-pop", "pop", "pop() returned an empty pointer");
    got_object(0, std::move(h), "pop");
    return_object(0, 0, (int)(i & 1));
  }
  if (burn) probe("version_wrap_burn_in");
  sim::drain();
  for (int phase = 0; phase < 2; phase++) {
    run_phase(p, phase);
    // quiescence: nothing is held
    if (s.outstanding != 0) fail("harness", "outstanding", "harness bookkeeping broken");
    size_t free_now = s.pool->free_object_number();
    if (s.what == 1 && free_now != s.n)
      fail("lost", "strict-pool", "all %zu injected objects were handed back but free_object_number() = %zu", s.n, free_now);
    if ((int64_t)free_now != s.live_objs)
      fail(free_now < (size_t)s.live_objs ? "leak" : "lost", "quiescence", "%lld objects are alive (created and not destroyed), nobody holds one, but the pool reports %zu free objects", (long long)s.live_objs, free_now);
  }
  // sequential epilogue on the main thread
  int t0 = 0;
  if (s.what == 1) {
    for (size_t i = 0; i < s.n; i++) {
      Handle h = s.pool->try_pop();
      if (!h) fail("lost", "strict-pool", "try_pop() on a quiescent pool holding %zu objects failed at the %zu-th call", s.n, i + 1);
      got_object(t0, std::move(h), "try_pop");
    }
    Handle extra = s.pool->try_pop();
    if (extra) fail("invented", "strict-pool", "try_pop() delivered an object beyond the %zu injected", s.n);
    return_all(t0);
  } else {
    size_t before = s.pool->free_object_number();
    for (size_t i = 0; i < s.n + 2; i++) {
      Handle h = s.pool->pop();
      if (!h) fail("null-pop", "pop", "pop() returned an empty pointer");
      got_object(t0, std::move(h), "pop");
    }
    while (!s.handles[t0].empty()) {
      size_t f = s.pool->free_object_number();
      int id = (*s.handles[t0].back())->id;
      return_object(t0, s.handles[t0].size() - 1, (int)(s.handles[t0].size() & 1));
      bool destroyed = s.objs[(size_t)id].destroyed != 0;
      if (f >= s.n && !destroyed) fail("overflow-kept", "auto-pool", "an object handed back while the pool already held %zu objects (capacity %zu) was kept", f, s.n);
      if (f < s.n && destroyed) fail("lost", "auto-pool", "an object handed back while the pool held %zu objects (capacity %zu) was destroyed", f, s.n);
    }
    size_t after = s.pool->free_object_number();
    if (after > std::max(before, s.n)) fail("overflow-kept", "auto-pool", "pool grew to %zu free objects (capacity %zu, %zu before)", after, s.n, before);
  }
  if ((int64_t)s.pool->free_object_number() != s.live_objs)
    fail("leak", "end", "%lld objects alive but the pool holds %zu", (long long)s.live_objs, s.pool->free_object_number());
  set_crash_site("destructor");
  delete s.pool;
  set_crash_site(nullptr);
  if (s.live_objs != 0) fail("leak", "destruction", "%lld pool objects were never destroyed", (long long)s.live_objs);
  for (auto& o : s.objs) if (o.destroyed != 1) fail("leak", "destruction", "object %d destroyed %d times", (int)(&o - &s.objs[0]), o.destroyed);
  probe("pool_objects", s.objs.size());
}

void run(const Plan& p) {
  S = new State();
  S->what = (int)std::max<int64_t>(0, std::min<int64_t>(p.get("what", 0), 2));
  if (S->what == 0) run_pages(p); else run_pool(p);
}

// ---------------------------------------------------------------------------
void gen(Rng& r, Plan& p, const GenParams& gp) {
  int what = gp.mode >= 0 ? gp.mode % 3 : (int)(r.below(10) < 5 ? 0 : r.below(5) < 3 ? 1 : 2);
  gen_common(r, p, SB_HALF, what == 1 && r.chance(1, 3), 2500);
  p.cfg["what"] = what;
  p.cfg["max_idle_jumps"] = 4000;
  int nthreads = (int)r.range(2, 4);
  int second = r.chance(1, 2) ? (int)r.range(1, 2) : 0;  // threads of the second phase
  p.threads.resize((size_t)(nthreads + second + 1));
  int opid = 0;
  auto add = [&](int t, int kind, int64_t a, int64_t b, int64_t c) { Op o; o.kind = kind; o.a = a; o.b = b; o.c = c; o.id = opid++; p.threads[(size_t)t].push_back(o); };
  if (what == 0) {
    bool heap = r.chance(1, 6);
    p.cfg["heap"] = heap;
    p.cfg["cache"] = heap ? r.range(1, 4) : r.chance(4, 5) ? r.range(1, 4) : 0;
    p.cfg["batch"] = !heap && r.chance(1, 3) ? r.range(1, 4) : 0;
    p.cfg["counting"] = !heap && r.chance(1, 3);
    if (!heap && r.chance(1, gp.thorough ? 60 : 120)) {
      // version-wrap shape: small cache alone, burn-in to just below the wrap
      int64_t cap = r.range(1, 2);
      p.cfg["cache"] = cap; p.cfg["batch"] = 0; p.cfg["counting"] = 0;
      p.cfg["burn"] = 32768 * cap - (int64_t)r.below((uint64_t)(2 * cap + 3));
      p.cfg["burn_drain"] = r.chance(1, 3);
      p.cfg["max_steps"] = 40000000;
    }
    for (int t = 1; t <= nthreads + second; t++) {
      int phase = t > nthreads;
      int nops = (int)r.range(3, gp.thorough ? 10 : 8);
      bool taker = r.chance(1, 2);
      for (int i = 0; i < nops; i++) {
        uint64_t x = r.below(100);
        bool alloc_bias = i < nops / 2;
        if (x < (alloc_bias ? 25u : 12u)) add(t, K_ALLOC1, 1, 0, phase);
        else if (x < (alloc_bias ? 55u : 28u)) add(t, K_ALLOCN, r.range(1, 6), 0, phase);
        else if (x < (alloc_bias ? 63u : 48u)) add(t, K_FREE1, 1, (int64_t)r.below(16), phase);
        else if (x < (alloc_bias ? 78u : 78u)) add(t, K_FREEN, r.range(1, 6), (int64_t)r.below(16), phase);
        else if (x < 86) add(t, K_TOUCH, 0, 0, phase);
        else if (taker) add(t, K_TAKE, 0, 0, phase);
        else add(t, K_GIVE, 0, (int64_t)r.below(16), phase);
      }
    }
  } else {
    p.cfg["n"] = r.range(1, 3);
    p.cfg["recycler"] = r.chance(3, 4);
    if (r.chance(1, gp.thorough ? 60 : 120)) {
      int64_t n = r.range(1, 2);
      p.cfg["n"] = n;
      p.cfg["burn"] = 32768 * n - (int64_t)r.below((uint64_t)(2 * n + 3));
      p.cfg["max_steps"] = 40000000;
    }
    for (int t = 1; t <= nthreads + second; t++) {
      int phase = t > nthreads;
      int nops = (int)r.range(3, gp.thorough ? 10 : 8);
      for (int i = 0; i < nops; i++) {
        uint64_t x = r.below(100);
        if (x < 35) add(t, K_POP, 0, 0, phase);
        else if (x < 50) add(t, K_TRYPOP, 0, 0, phase);
        else if (x < 72) add(t, K_RET, (int64_t)r.below(4), 0, phase);
        else if (x < 82) add(t, K_PUSHBACK, (int64_t)r.below(4), 0, phase);
        else if (x < 92) add(t, K_TOUCH, 0, 0, phase);
        else add(t, K_REASSIGN, (int64_t)r.below(4), 0, phase);
      }
    }
  }
}

const char* const kShrink[] = {"cache", "batch", "n", nullptr};

}  // namespace

const Harness sim::g_harness = {"pages", kNames, gen, run, kShrink, 0};
