// Harness "queue": ConcurrentBoundedQueue — C01 (safety) and C02 (liveness).
// DESIGN.md §3 C01/C02.
#include <babylon/concurrent/bounded_queue.h>

#include <algorithm>
#include <map>
#include <set>
#include <vector>

#include "common.h"

using namespace sim;

namespace {

struct Cell {
  uint64_t v = 0;
  uint64_t chk[3] = {0, 0, 0};
  uint64_t owner = 0;
};
typedef babylon::ConcurrentBoundedQueue<Cell> Queue;

enum Kind {
  K_PUSH, K_TRY_PUSH, K_PUSH_N, K_TRY_PUSH_N, K_CPUSH_N, K_PUSH_V, K_PUSH_IT,
  K_POP, K_TRY_POP, K_POP_N, K_TRY_POP_N, K_CPOP_N, K_POP_V, K_POP_IT, K_XPOP, K_SIZE,
};
const char* const kNames[] = {"push", "try_push", "push_n", "try_push_n", "cpush_n", "push_value", "push_iter",
                              "pop", "try_pop", "pop_n", "try_pop_n", "cpop_n", "pop_value", "pop_iter", "xpop_until", "size", nullptr};
inline bool is_push_kind(int k) { return k <= K_PUSH_IT; }
inline bool is_blocking(int k) { return k == K_PUSH || k == K_PUSH_N || k == K_PUSH_V || k == K_PUSH_IT || k == K_POP || k == K_POP_N || k == K_POP_V || k == K_POP_IT; }

struct Rec {
  int tid; int kind; int opid;
  bool push;
  uint64_t inv = 0, ret = 0;
  uint32_t ret_clock = 0;            // thread epoch at return (for happens-before queries)
  std::vector<int> hb_before_inv;    // ids (index in recs) of ops that happened-before this op's invocation
  bool strict_order = false;
  bool done = false;
  size_t requested = 0;
  size_t got = 0;          // return value for try ops
  bool failed = false;     // try op returned false / short
  std::vector<uint64_t> vals;
};

struct State {
  Queue q;
  size_t cap = 1;
  bool pushC, pushW, pushK, popC, popW, popK;
  std::vector<Rec*> recs;
  std::map<uint64_t, int> pushed;   // value -> 1 when handed in
  std::map<uint64_t, int> popped;   // value -> count delivered
  uint64_t seq[64] = {0};
  uint64_t npushed = 0, npopped = 0;
};
State* S;
bool g_thread_done[64];

uint64_t fresh(int tid) { return ((uint64_t)(tid + 1) << 32) | ++S->seq[tid]; }

void fill(Cell& c, uint64_t v, Rec* r) {
  if (c.owner != 0) fail("exclusive", "producer-callback", "slot handed to producer T%d while owner flag is %llu", tid(), (unsigned long long)c.owner);
  c.owner = (uint64_t)tid() + 1;
  c.v = v;
  sim::yield_point();
  for (int i = 0; i < 3; i++) c.chk[i] = hx::mixv(v, (uint64_t)i);
  if (c.owner != (uint64_t)tid() + 1) fail("exclusive", "producer-callback", "owner flag changed during producer callback");
  c.owner = 0;
  if (S->pushed.count(v)) fail("duplicate", "harness", "harness produced value twice");
  S->pushed[v] = 1;
  S->npushed++;
  r->vals.push_back(v);
}

void take(Cell& c, Rec* r) {
  if (c.owner != 0) fail("exclusive", "consumer-callback", "slot handed to consumer T%d while owner flag is %llu", tid(), (unsigned long long)c.owner);
  c.owner = 100 + (uint64_t)tid();
  uint64_t v = c.v;
  sim::yield_point();
  for (int i = 0; i < 3; i++)
    if (c.chk[i] != hx::mixv(v, (uint64_t)i)) fail("torn", "consumer-callback", "consumer saw value %#llx with stale/partial companion field %d", (unsigned long long)v, i);
  if (c.owner != 100 + (uint64_t)tid()) fail("exclusive", "consumer-callback", "owner flag changed during consumer callback");
  c.owner = 0;
  if (!S->pushed.count(v)) fail("invented", "consumer-callback", "consumer received value %#llx that no producer handed in", (unsigned long long)v);
  if (S->popped[v]++ > 0) fail("duplicate", "consumer-callback", "value %#llx delivered twice", (unsigned long long)v);
  S->npopped++;
  r->vals.push_back(v);
}

// value-overload variants cannot run callbacks; account afterwards
void account_push_value(const Cell& c, Rec* r) {
  S->pushed[c.v] = 1; S->npushed++; r->vals.push_back(c.v);
}
void account_pop_value(const Cell& c, Rec* r) {
  uint64_t v = c.v;
  for (int i = 0; i < 3; i++)
    if (c.chk[i] != hx::mixv(v, (uint64_t)i)) fail("torn", "pop-value", "popped value %#llx with stale/partial companion field %d", (unsigned long long)v, i);
  if (!S->pushed.count(v)) fail("invented", "pop-value", "popped value %#llx that no producer handed in", (unsigned long long)v);
  if (S->popped[v]++ > 0) fail("duplicate", "pop-value", "value %#llx delivered twice", (unsigned long long)v);
  S->npopped++;
  r->vals.push_back(v);
}
Cell make_cell(uint64_t v) {
  Cell c; c.v = v;
  for (int i = 0; i < 3; i++) c.chk[i] = hx::mixv(v, (uint64_t)i);
  return c;
}

Rec* new_rec(int t, int kind, int opid, bool push, size_t req) {
  Rec* r = new Rec();
  r->tid = t; r->kind = kind; r->opid = opid; r->push = push; r->requested = req;
  r->inv = stamp();
  // which finished operations are ordered before this one? Under SC runs the
  // global event order decides; with store buffering only happens-before does
  // (a returned operation's stores may still be invisible to us).
  r->strict_order = sim::config().storebuf != 0;
  if (r->strict_order)
    for (size_t i = 0; i < S->recs.size(); i++)
      if (S->recs[i]->done && sim::happened_before_me(S->recs[i]->tid, S->recs[i]->ret_clock)) r->hb_before_inv.push_back((int)i);
  S->recs.push_back(r);
  return r;
}
void end_rec(Rec* r) { r->ret = stamp(); r->ret_clock = sim::my_clock(); r->done = true; }
bool ordered_before(Rec* o, Rec* t) {
  if (!(o->done && o->ret < t->inv)) return false;
  if (!t->strict_order) return true;
  for (int i : t->hb_before_inv) if (S->recs[(size_t)i] == o) return true;
  return false;
}

void do_op(int t, int kind, size_t n, int64_t arg, int opid) {
  Queue& q = S->q;
  if (n < 1) n = 1;
  if (n > S->cap) n = S->cap;
  using It = Queue::Iterator;
  switch (kind) {
    case K_PUSH: {
      Rec* r = new_rec(t, kind, opid, true, 1);
      hx::with_flags(S->pushC, S->pushW, S->pushK, [&](auto c, auto w, auto k) {
        q.push<decltype(c)::value, decltype(w)::value, decltype(k)::value>([&](Cell& x) { fill(x, fresh(t), r); });
      });
      end_rec(r);
      break;
    }
    case K_PUSH_V: {
      Rec* r = new_rec(t, kind, opid, true, 1);
      Cell cell = make_cell(fresh(t));
      account_push_value(cell, r);
      hx::with_flags(S->pushC, S->pushW, S->pushK, [&](auto c, auto w, auto k) {
        q.push<decltype(c)::value, decltype(w)::value, decltype(k)::value>(cell);
      });
      end_rec(r);
      break;
    }
    case K_TRY_PUSH: {
      Rec* r = new_rec(t, kind, opid, true, 1);
      bool ok = false;
      hx::with_flags2(S->pushC, S->pushK, [&](auto c, auto k) {
        ok = q.try_push<decltype(c)::value, decltype(k)::value>([&](Cell& x) { fill(x, fresh(t), r); });
      });
      r->got = ok; r->failed = !ok;
      if (ok != (r->vals.size() == 1)) fail("api", "try_push", "try_push returned %d but callback ran %zu times", ok, r->vals.size());
      end_rec(r);
      break;
    }
    case K_PUSH_N: {
      Rec* r = new_rec(t, kind, opid, true, n);
      hx::with_flags(S->pushC, S->pushW, S->pushK, [&](auto c, auto w, auto k) {
        q.push_n<decltype(c)::value, decltype(w)::value, decltype(k)::value>([&](It b, It e) { for (; b != e; ++b) fill(*b, fresh(t), r); }, n);
      });
      if (r->vals.size() != n) fail("api", "push_n", "push_n(%zu) ran its callback over %zu slots", n, r->vals.size());
      end_rec(r);
      break;
    }
    case K_PUSH_IT: {
      Rec* r = new_rec(t, kind, opid, true, n);
      std::vector<Cell> cells;
      for (size_t i = 0; i < n; i++) { cells.push_back(make_cell(fresh(t))); account_push_value(cells.back(), r); }
      hx::with_flags(S->pushC, S->pushW, S->pushK, [&](auto c, auto w, auto k) {
        q.push_n<decltype(c)::value, decltype(w)::value, decltype(k)::value>(cells.begin(), cells.end());
      });
      end_rec(r);
      break;
    }
    case K_TRY_PUSH_N: {
      Rec* r = new_rec(t, kind, opid, true, n);
      size_t got = 0;
      hx::with_flags2(S->pushC, S->pushK, [&](auto c, auto k) {
        got = q.try_push_n<decltype(c)::value, decltype(k)::value>([&](It b, It e) { for (; b != e; ++b) fill(*b, fresh(t), r); }, n);
      });
      r->got = got; r->failed = got < n;
      if (got != r->vals.size() || got > n) fail("api", "try_push_n", "try_push_n(%zu) returned %zu but filled %zu", n, got, r->vals.size());
      end_rec(r);
      break;
    }
    case K_CPUSH_N: {
      Rec* r = new_rec(t, kind, opid, true, n);
      Rec* rr = new_rec(t, kind, opid, false, 0);
      q.push_n([&](It b, It e) { for (; b != e; ++b) fill(*b, fresh(t), r); },
               [&](It b, It e) { probe("compensating_pop_ran"); for (; b != e; ++b) take(*b, rr); }, n);
      if (r->vals.size() != n) fail("api", "cpush_n", "compensating push_n(%zu) filled %zu", n, r->vals.size());
      end_rec(r); end_rec(rr);
      break;
    }
    case K_POP: {
      Rec* r = new_rec(t, kind, opid, false, 1);
      hx::with_flags(S->popC, S->popW, S->popK, [&](auto c, auto w, auto k) {
        q.pop<decltype(c)::value, decltype(w)::value, decltype(k)::value>([&](Cell& x) { take(x, r); });
      });
      end_rec(r);
      break;
    }
    case K_POP_V: {
      Rec* r = new_rec(t, kind, opid, false, 1);
      Cell cell;
      hx::with_flags(S->popC, S->popW, S->popK, [&](auto c, auto w, auto k) {
        q.pop<decltype(c)::value, decltype(w)::value, decltype(k)::value>(cell);
      });
      account_pop_value(cell, r);
      end_rec(r);
      break;
    }
    case K_TRY_POP: {
      Rec* r = new_rec(t, kind, opid, false, 1);
      bool ok = false;
      hx::with_flags2(S->popC, S->popK, [&](auto c, auto k) {
        ok = q.try_pop<decltype(c)::value, decltype(k)::value>([&](Cell& x) { take(x, r); });
      });
      r->got = ok; r->failed = !ok;
      if (ok != (r->vals.size() == 1)) fail("api", "try_pop", "try_pop returned %d but callback ran %zu times", ok, r->vals.size());
      end_rec(r);
      break;
    }
    case K_POP_N: {
      Rec* r = new_rec(t, kind, opid, false, n);
      hx::with_flags(S->popC, S->popW, S->popK, [&](auto c, auto w, auto k) {
        q.pop_n<decltype(c)::value, decltype(w)::value, decltype(k)::value>([&](It b, It e) { for (; b != e; ++b) take(*b, r); }, n);
      });
      if (r->vals.size() != n) fail("api", "pop_n", "pop_n(%zu) delivered %zu", n, r->vals.size());
      end_rec(r);
      break;
    }
    case K_POP_IT: {
      Rec* r = new_rec(t, kind, opid, false, n);
      std::vector<Cell> cells(n);
      hx::with_flags(S->popC, S->popW, S->popK, [&](auto c, auto w, auto k) {
        q.pop_n<decltype(c)::value, decltype(w)::value, decltype(k)::value>(cells.begin(), cells.end());
      });
      for (auto& c : cells) account_pop_value(c, r);
      end_rec(r);
      break;
    }
    case K_TRY_POP_N: {
      Rec* r = new_rec(t, kind, opid, false, n);
      size_t got = 0;
      hx::with_flags2(S->popC, S->popK, [&](auto c, auto k) {
        got = q.try_pop_n<decltype(c)::value, decltype(k)::value>([&](It b, It e) { for (; b != e; ++b) take(*b, r); }, n);
      });
      r->got = got; r->failed = got < n;
      if (got != r->vals.size() || got > n) fail("api", "try_pop_n", "try_pop_n(%zu) returned %zu but delivered %zu", n, got, r->vals.size());
      end_rec(r);
      break;
    }
    case K_CPOP_N: {
      Rec* r = new_rec(t, kind, opid, false, n);
      Rec* rr = new_rec(t, kind, opid, true, 0);
      q.pop_n([&](It b, It e) { for (; b != e; ++b) take(*b, r); },
              [&](It b, It e) { probe("compensating_push_ran"); for (; b != e; ++b) fill(*b, fresh(t), rr); }, n);
      if (r->vals.size() != n) fail("api", "cpop_n", "compensating pop_n(%zu) delivered %zu", n, r->vals.size());
      end_rec(r); end_rec(rr);
      break;
    }
    case K_XPOP: {
      Rec* r = new_rec(t, kind, opid, false, n);
      int64_t us = arg;
      struct timespec ts;
      ts.tv_sec = us / 1000000; ts.tv_nsec = (us % 1000000) * 1000;
      // elements whose push had completed (and that were not yet popped) when the call began
      size_t avail = 0;
      {
        uint64_t done_push = 0, done_pop = 0;
        bool push_in_progress = false;
        for (Rec* o : S->recs) {
          if (o == r) continue;
          if (ordered_before(o, r)) { if (o->push) done_push += o->vals.size(); else done_pop += o->vals.size(); }
          else if (o->push) push_in_progress = true;
        }
        // an unfinished push with an earlier ticket legitimately hides later finished ones
        avail = (!push_in_progress && done_push > done_pop) ? (size_t)(done_push - done_pop) : 0;
      }
      int64_t t0 = now_ns();
      int64_t blocked0 = my_blocked_ns();
      watch_deadline(t0 + us * 1000);
      size_t got = 0;
      hx::with_flags2(false, S->popK, [&](auto, auto k) {
        got = q.try_pop_n_exclusively_until<decltype(k)::value>([&](It b, It e) { for (; b != e; ++b) take(*b, r); }, n, &ts);
      });
      uint64_t late = points_since_deadline();
      watch_deadline(-1);
      // every wait inside the call gets the REMAINING time, so the call can never
      // have slept (blocked until runnable again) for more than its timeout in total
      int64_t slept = my_blocked_ns() - blocked0;
      if (slept > us * 1000 + 2000) fail("deadline", "xpop-slept-longer-than-timeout", "timed exclusive pop with a %lldus timeout spent %lldns blocked in waits (an interrupted wait was restarted with the full timeout?)", (long long)us, (long long)slept);
      r->got = got; r->failed = false;  // shortness judged here, not by the generic try rule
      if (got != r->vals.size() || got > n) fail("api", "xpop", "try_pop_n_exclusively_until(%zu) returned %zu but delivered %zu", n, got, r->vals.size());
      if (got < std::min(n, avail)) fail("short", "xpop", "timed exclusive pop of %zu returned %zu although %zu elements were completely pushed before the call", n, got, avail);
      if (late > 200 + 40 * n) fail("deadline", "xpop", "timed exclusive pop still running %llu own steps after its %lldus deadline passed", (unsigned long long)late, (long long)us);
      if (late > 0) probe("xpop_deadline_expired");
      end_rec(r);
      break;
    }
    case K_SIZE: {
      size_t s = q.size();
      if (s > S->npushed + 8 * S->cap) fail("api", "size", "size() returned %zu", s);
      break;
    }
  }
}

void gen(Rng& r, Plan& p, const GenParams& gp) {
  bool c02 = gp.property && std::string(gp.property) == "C02";
  bool faults = gp.mode == 1 || (gp.mode < 0 && r.chance(1, 3));
  gen_common(r, p, SB_HALF, faults, 1500);
  static const int caps[] = {1, 1, 2, 2, 3, 4, 8};
  int cap_min = c02 ? caps[r.below(4)] : caps[r.below(7)];
  p.cfg["cap"] = cap_min;
  size_t cap = 1;
  while (cap < (size_t)cap_min) cap *= 2;
  // discipline: 0 MPMC, 1 single producer, 2 single consumer, 3 SPSC
  int disc = (int)r.below(10);
  disc = disc < 6 ? 0 : disc < 7 ? 1 : disc < 9 ? 2 : 3;
  p.cfg["disc"] = disc;
  bool pushW = r.chance(c02 ? 4 : 1, c02 ? 5 : 2), popW = r.chance(c02 ? 4 : 1, c02 ? 5 : 2);
  bool comp = disc == 0 && !c02 && r.chance(1, 4);
  if (comp) pushW = popW = false;
  if (c02 && !pushW && !popW) popW = true;
  bool pushK = popW ? true : r.chance(1, 2);
  bool popK = pushW ? true : r.chance(1, 2);
  p.cfg["pushW"] = pushW; p.cfg["popW"] = popW; p.cfg["pushK"] = pushK; p.cfg["popK"] = popK;
  p.cfg["pushC"] = !(disc == 1 || disc == 3);
  p.cfg["popC"] = !(disc == 2 || disc == 3);
  p.cfg["comp"] = comp;
  static const int64_t ep[] = {0, 0, 0, 3, 32766, 32767, 65534, 65535};
  p.cfg["epoch0"] = ep[r.below(8)];
  p.cfg["end_clear"] = r.chance(1, 5);
  p.cfg["clear_wake"] = r.chance(1, 6) ? (int64_t)r.range(1, 2) : 0;
  p.cfg["max_idle_jumps"] = 3000;
  if (!c02 && r.chance(1, 10)) {
    // targeted shape: one non-concurrent producer whose try_push_n batches wrap
    // the ring while two consumers finish out of order (a consumer still sits in
    // a tail slot when the head slots are free again)
    disc = 1; p.cfg["disc"] = 1; p.cfg["pushC"] = 0; p.cfg["popC"] = 1; p.cfg["comp"] = 0;
    p.cfg["pushW"] = 0; p.cfg["popW"] = r.chance(1, 2); p.cfg["pushK"] = 1; p.cfg["popK"] = r.chance(1, 2);
    int64_t cp = r.chance(1, 2) ? 2 : 4;
    p.cfg["cap"] = cp; p.cfg["epoch0"] = 0; p.cfg["sp_thread"] = 1; p.cfg["sc_thread"] = -1;
    p.threads.resize(4);
    int opid = 0;
    auto add = [&](int t, int kind, int64_t n) { Op o; o.kind = kind; o.a = n; o.id = opid++; p.threads[(size_t)t].push_back(o); };
    int lead = (int)r.range(1, cp + 1);
    int64_t pushed = 0;
    for (int i = 0; i < lead; i++) { add(1, K_PUSH, 1); pushed++; }
    int ntry = (int)r.range(2, 4);
    for (int i = 0; i < ntry; i++) add(1, K_TRY_PUSH_N, cp);
    // consumers only demand what the blocking pushes guarantee
    int64_t demand = 0;
    for (int t = 2; t <= 3; t++) { int k = (int)r.range(0, 2); for (int i = 0; i < k && demand < pushed; i++) { add(t, K_POP, 1); demand++; } add(t, K_TRY_POP, 1); add(t, K_TRY_POP, 1); }
    return;
  }
  int nthreads = disc == 3 ? 2 : (int)r.range(2, gp.thorough ? 5 : 4);
  int maxops = gp.thorough ? 8 : 6;
  p.threads.resize((size_t)nthreads + 1);  // thread 0 = main (no ops)
  int opid = 0;
  auto add = [&](int t, int kind, int64_t n, int64_t arg = 0) { Op o; o.kind = kind; o.a = n; o.b = arg; o.id = opid++; p.threads[(size_t)t].push_back(o); };
  auto batch = [&]() -> int64_t { return (int64_t)r.range(1, (int64_t)cap); };
  if (disc == 0) {
    for (int t = 1; t <= nthreads; t++) {
      int nops = (int)r.range(1, maxops);
      // bias: in C02 mode consumers first so that they really sleep
      bool consumer_bias = c02 ? (t % 2 == 1) : r.chance(1, 2);
      for (int i = 0; i < nops; i++) {
        bool push = r.chance(consumer_bias ? 1 : 3, 4);
        int k;
        if (push) { static const int ks[] = {K_PUSH, K_PUSH, K_TRY_PUSH, K_PUSH_N, K_PUSH_N, K_TRY_PUSH_N, K_PUSH_V, K_PUSH_IT}; k = ks[r.below(8)]; if (comp && r.chance(1, 3)) k = K_CPUSH_N; }
        else { static const int ks[] = {K_POP, K_POP, K_TRY_POP, K_POP_N, K_POP_N, K_TRY_POP_N, K_POP_V, K_POP_IT}; k = ks[r.below(8)]; if (comp && r.chance(1, 3)) k = K_CPOP_N; }
        if (c02 && (k == K_TRY_PUSH || k == K_TRY_POP) && r.chance(1, 2)) k = push ? K_PUSH : K_POP;
        if (r.chance(1, 25)) k = K_SIZE;
        add(t, k, batch());
      }
    }
  } else {
    // G = guaranteed (blocking) pushes, Cb = blocking pops, Pt/Ct = try demands
    int producers = (disc == 1 || disc == 3) ? 1 : std::max(1, nthreads - 1);
    int consumers = (disc == 2 || disc == 3) ? 1 : std::max(1, nthreads - producers);
    if (disc == 1) { producers = 1; consumers = nthreads - 1; }
    if (disc == 2) { consumers = 1; producers = nthreads - 1; }
    // producer threads 1..producers, consumer threads after
    p.cfg["sp_thread"] = (disc == 1 || disc == 3) ? 1 : -1;
    p.cfg["sc_thread"] = (disc == 2 || disc == 3) ? producers + 1 : -1;
    int64_t G = 0, Pt = 0, Cb = 0, Ct = 0;
    for (int t = 1; t <= producers; t++) {
      int nops = (int)r.range(1, maxops);
      for (int i = 0; i < nops; i++) {
        static const int ks[] = {K_PUSH, K_PUSH_N, K_PUSH_N, K_TRY_PUSH, K_TRY_PUSH_N, K_TRY_PUSH_N, K_TRY_PUSH_N, K_PUSH_V, K_PUSH_IT};
        int k = ks[r.below(9)];
        int64_t n = (k == K_PUSH || k == K_TRY_PUSH || k == K_PUSH_V) ? 1 : batch();
        // non-concurrent try_push_n with a batch that wraps the ring while a consumer still sits in a tail slot
        if (k == K_TRY_PUSH_N && r.chance(1, 2)) n = (int64_t)cap;
        bool blocking = is_blocking(k);
        // single-consumer side cannot be helped by main: keep producers satisfiable
        if (blocking) G += n; else Pt += n;
        add(t, k, n);
      }
    }
    for (int t = producers + 1; t <= producers + consumers; t++) {
      int nops = (int)r.range(1, maxops);
      for (int i = 0; i < nops; i++) {
        static const int ks[] = {K_POP, K_POP_N, K_POP_N, K_TRY_POP, K_TRY_POP_N, K_TRY_POP_N, K_POP_V, K_POP_IT, K_XPOP, K_XPOP};
        int k = ks[r.below(10)];
        if (k == K_XPOP && !(disc == 2 || disc == 3)) k = K_TRY_POP_N;
        int64_t n = (k == K_POP || k == K_TRY_POP || k == K_POP_V) ? 1 : batch();
        bool blocking = is_blocking(k);
        if (disc == 1 || disc == 3) {
          // the single producer cannot be helped by main: total pop demand must be covered by guaranteed pushes
          if (Cb + Ct + n > G) { if (i == 0 && Cb + Ct + 1 <= G) n = 1; else continue; }
        }
        if (blocking) Cb += n; else Ct += n;
        static const int64_t touts[] = {0, 1, 100, 5000, 2000000};
        add(t, k, n, k == K_XPOP ? touts[r.below(5)] : 0);
      }
    }
    // single consumer / SPSC: producers can only be unblocked by the consumer's guaranteed pops
    if (disc == 2 || disc == 3) {
      // need G + Pt - cap <= Cb  (else extend the consumer with blocking pops if allowed)
      int ct = producers + 1;
      while (G + Pt - (int64_t)cap > Cb) {
        if ((disc == 3) && Cb + Ct + 1 > G) break;
        add(ct, K_POP, 1); Cb += 1;
      }
      if (G + Pt - (int64_t)cap > Cb) {
        // cannot satisfy: drop try pushes then blocking pushes from the back
        for (int t = producers; t >= 1 && G + Pt - (int64_t)cap > Cb; t--) {
          auto& v = p.threads[(size_t)t];
          while (!v.empty() && G + Pt - (int64_t)cap > Cb) {
            Op o = v.back(); v.pop_back();
            if (is_blocking(o.kind)) G -= o.a; else Pt -= o.a;
          }
        }
      }
    }
  }
}

void check_history() {
  // FIFO rule
  std::map<uint64_t, std::pair<Rec*, size_t>> pusher, popper;
  for (Rec* r : S->recs)
    for (size_t i = 0; i < r->vals.size(); i++) (r->push ? pusher : popper)[r->vals[i]] = {r, i};
  std::vector<Rec*> pushes;
  for (Rec* r : S->recs) if (r->push && !r->vals.empty()) pushes.push_back(r);
  for (Rec* p1 : pushes)
    for (Rec* p2 : pushes) {
      if (p1 == p2 || !(p1->done && p1->ret < p2->inv)) continue;
      for (uint64_t v1 : p1->vals)
        for (uint64_t v2 : p2->vals) {
          auto c1 = popper.find(v1), c2 = popper.find(v2);
          if (c2 == popper.end()) continue;
          if (c1 == popper.end()) continue;  // v1 never popped (drained by clear): nothing to compare
          Rec *r1 = c1->second.first, *r2 = c2->second.first;
          if (r1 == r2) {
            if (c2->second.second < c1->second.second)
              fail("fifo", "within-batch", "value %#llx (pushed by an operation that returned before the push of %#llx began) was delivered after it inside one %s", (unsigned long long)v1, (unsigned long long)v2, kNames[r1->kind]);
          } else if (r2->done && r2->ret < r1->inv) {
            fail("fifo", "ordered-pops", "value %#llx was pushed by an operation that returned before the push of %#llx began, but was popped by %s(op %d) which started after %s(op %d) that delivered the later value had returned",
                 (unsigned long long)v1, (unsigned long long)v2, kNames[r1->kind], r1->opid, kNames[r2->kind], r2->opid);
          }
        }
    }
  // try_ legitimacy
  for (Rec* t : S->recs) {
    if (!t->failed || !t->done) continue;
    bool overlapped = false;
    int64_t occ = 0;
    for (Rec* o : S->recs) {
      if (o == t || (o->opid == t->opid && o->tid == t->tid)) continue;
      if (o->kind == K_SIZE) continue;
      bool before = ordered_before(o, t), after = o->inv > t->ret;
      if (!before && !after) { overlapped = true; break; }
      if (before) occ += o->push ? (int64_t)o->vals.size() : -(int64_t)o->vals.size();
    }
    if (overlapped) continue;
    probe("try_failed_unoverlapped");
    if (t->push) {
      if (occ + (int64_t)t->got != (int64_t)S->cap)
        fail("spurious-fail", kNames[t->kind], "%s(%zu) stored only %zu although the queue held %lld of %zu elements and no other operation overlapped the call", kNames[t->kind], t->requested, t->got, (long long)occ, S->cap);
    } else {
      if (occ != (int64_t)t->got)
        fail("spurious-fail", kNames[t->kind], "%s(%zu) delivered only %zu although the queue held %lld elements and no other operation overlapped the call", kNames[t->kind], t->requested, t->got, (long long)occ);
    }
  }
}

void run(const Plan& p) {
  S = new State();
  State& s = *S;
  s.pushC = p.get("pushC", 1); s.pushW = p.get("pushW", 1); s.pushK = p.get("pushK", 1);
  s.popC = p.get("popC", 1); s.popW = p.get("popW", 1); s.popK = p.get("popK", 1);
  int disc = (int)p.get("disc", 0);
  s.cap = s.q.reserve_and_clear((size_t)std::max<int64_t>(1, p.get("cap", 1)));
  // history prefix: pretend the ring has already been cycled epoch0 times
  uint64_t e0 = (uint64_t)p.get("epoch0", 0);
  if (e0) {
    s.q._next_push_index.store(e0 * s.cap, std::memory_order_relaxed);
    s.q._next_pop_index.store(e0 * s.cap, std::memory_order_relaxed);
    for (size_t i = 0; i < s.cap; i++) s.q._slots.futex(i).set_version((uint16_t)(e0 << 1), std::memory_order_relaxed);
  }
  sim::drain();
  for (size_t i = 0; i < s.cap; i++) hb_register(&s.q._slots.value(i), sizeof(Cell), "queue-slot-payload");
  const uint64_t base = e0 * s.cap;
  hx::Workers w;
  for (size_t t = 0; t < p.threads.size() && t < 64; t++) g_thread_done[t] = p.threads[t].empty();
  {
    const Plan* pp = &p;
    w.start(p, [pp](int t, const Op& op) {
      do_op(t, op.kind, (size_t)op.a, op.b, op.id);
      if (&op == &pp->threads[(size_t)t].back()) g_thread_done[t] = true;
    }, 1);
  }
  int sp = (int)p.get("sp_thread", -1), sc = (int)p.get("sc_thread", -1);
  // balancer (see DESIGN §2.2): supply exactly what blocked tickets still need
  bool can_push = s.pushC, can_pop = s.popC;
  (void)disc;
  int idle_rounds = 0;
  int mop = 100000;
  while (others_alive() > 0) {
    wait_quiescent();
    if (others_alive() == 0) break;
    uint64_t A = s.q._next_push_index.load(std::memory_order_relaxed) - base;
    uint64_t B = s.q._next_pop_index.load(std::memory_order_relaxed) - base;
    tracef("balancer: A=%llu B=%llu cap=%zu alive=%d", (unsigned long long)A, (unsigned long long)B, s.cap, others_alive());
    if (B > A && can_push) {
      { OpScope sc(mop++); do_op(0, K_TRY_PUSH, 1, 0, mop); }
      if (S->recs.back()->failed) sleep_ns(1000000);
      idle_rounds = 0;
    } else if (A > B + s.cap && can_pop) {
      { OpScope sc(mop++); do_op(0, K_TRY_POP, 1, 0, mop); }
      if (S->recs.back()->failed) sleep_ns(1000000);
      idle_rounds = 0;
    } else {
      bool need = (B > A) || (A > B + s.cap);
      if (!need && others_blocked_forever() && ++idle_rounds >= 2)
        fail("deadlock", "blocked-with-balanced-tickets", "all remaining threads are blocked forever although push tickets (%llu) and pop tickets (%llu) are balanced within capacity %zu: a waiter was never woken", (unsigned long long)A, (unsigned long long)B, s.cap);
      if (need && ((B > A && !can_push && (sp < 0 || sp >= 64 || g_thread_done[sp])) || (A > B + s.cap && !can_pop && (sc < 0 || sc >= 64 || g_thread_done[sc]))))
        skip("unsatisfiable-plan");
      if (need && others_blocked_forever()) {
        // generator guarantees this cannot happen (non-concurrent side needs help)
        skip("unsatisfiable-plan");
      }
      sleep_ns(2000000);
    }
  }
  w.join();
  // drain
  uint64_t A = s.q._next_push_index.load(std::memory_order_relaxed) - base;
  uint64_t B = s.q._next_pop_index.load(std::memory_order_relaxed) - base;
  if (B > A) fail("balance", "end", "more pop tickets (%llu) than push tickets (%llu) after all operations returned", (unsigned long long)B, (unsigned long long)A);
  if (s.npushed - s.npopped != A - B) fail("lost", "end", "%llu values handed in, %llu delivered, but the queue indexes say %llu remain", (unsigned long long)s.npushed, (unsigned long long)s.npopped, (unsigned long long)(A - B));
  if (p.get("end_clear", 0)) {
    s.q.clear();
  } else {
    for (uint64_t i = 0; i < A - B; i++) {
      OpScope sc(mop++);
      do_op(0, K_TRY_POP, 1, 0, mop);
      if (S->recs.back()->failed) fail("lost", "drain", "queue reported empty while %llu pushed values were never delivered", (unsigned long long)(s.npushed - s.npopped));
    }
    if (s.npushed != s.npopped) fail("lost", "end", "%llu values handed in but %llu delivered", (unsigned long long)s.npushed, (unsigned long long)s.npopped);
  }
  {
    OpScope sc(mop++);
    do_op(0, K_TRY_POP, 1, 0, mop);
    if (!S->recs.back()->failed) fail("invented", "drain", "queue delivered a value after everything was consumed");
    S->recs.back()->failed = false;
  }
  if (s.q.size() != 0) fail("api", "size", "size() = %zu on an empty queue", s.q.size());
  check_history();
  // clear() against producers that sleep on a full queue (the queue is empty and
  // quiescent at this point): clear() must wake them, their values must arrive
  if (p.get("clear_wake", 0) && s.pushC && s.popC) {
    int np = (int)std::max<int64_t>(1, std::min<int64_t>(p.get("clear_wake", 1), 2));
    if ((size_t)np > s.cap) np = (int)s.cap;  // clear() frees cap slots: more sleepers than that would wait for a consumer nobody provides
    for (size_t i = 0; i < s.cap; i++)
      if (!s.q.try_push<true, true>([&](Cell& x) { x = make_cell(0xC1EA000000ULL + i); })) fail("spurious-fail", "try_push", "try_push on a queue with free slots failed while filling it before clear()");
    std::vector<std::thread> prod;
    for (int k = 0; k < np; k++)
      prod.emplace_back([k] { S->q.push<true, true, true>([&](Cell& x) { x = make_cell(0xC1EB000000ULL + (uint64_t)k); }); });
    wait_quiescent();  // the producers found the queue full: asleep in futex_wait
    set_crash_site("clear-with-sleeping-producers");
    s.q.clear();
    for (auto& t : prod) t.join();  // a producer that is never woken is a deadlock verdict here
    set_crash_site(nullptr);
    std::set<uint64_t> got;
    for (int k = 0; k < np; k++) {
      Cell c; bool ok = s.q.try_pop<true, true>([&](Cell& x) { c = x; });
      if (!ok) fail("lost", "after-clear", "a blocking push that slept through clear() returned, but its value is not in the queue");
      if (c.v < 0xC1EB000000ULL || c.v >= 0xC1EB000000ULL + (uint64_t)np || c.chk[0] != hx::mixv(c.v, 0) || !got.insert(c.v).second)
        fail("invented", "after-clear", "after clear() the queue delivered %#llx, not one of the values pushed afterwards", (unsigned long long)c.v);
    }
    if (s.q.try_pop<true, true>([&](Cell&) {})) fail("invented", "after-clear", "clear() left elements behind");
    probe("clear_woke_sleeping_producers");
  }
  for (auto& r : s.recs) if (r->kind == K_XPOP) probe("xpop_ops");
  if (s.q._next_push_index.load(std::memory_order_relaxed) - base >= 2 * s.cap) probe("ring_reused");
}

const char* const kShrink[] = {"cap", nullptr};

}  // namespace

const Harness sim::g_harness = {"queue", kNames, gen, run, kShrink, 0};
