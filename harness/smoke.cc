// Harness "smoke": self-test of the simulator's own seams (not a property
// check): mutex/condvar, static-local guards, thread exit with babylon TLS
// destructors, clocks, sleeps, detached threads, store buffers, HB detector.
#include <babylon/concurrent/counter.h>
#include <babylon/concurrent/id_allocator.h>

#include <atomic>
#include <chrono>
#include <condition_variable>
#include <mutex>
#include <thread>

#include "common.h"

using namespace sim;

namespace {
const char* const kNames[] = {"mutex_cv", "static_init", "adder_gens", "dekker", "mp_relaxed", "mp_release", "sleepers", "detached", "busy_hang", nullptr};

struct Lazy { uint64_t a[8]; Lazy() { for (int i = 0; i < 8; i++) { a[i] = 42 + (uint64_t)i; sim::yield_point(); } } };
Lazy& lazy() { static Lazy l; return l; }

void gen(Rng& r, Plan& p, const GenParams& gp) {
  gen_common(r, p, SB_HALF, r.chance(1, 2), 500);
  p.threads.resize(1);
  Op o; static const int kinds[] = {0, 1, 2, 3, 5, 6, 7};  // 4 (must end in class race) only with --mode 4
  o.kind = gp.mode >= 0 ? gp.mode : kinds[r.below(7)]; o.a = (int64_t)r.range(2, 4); o.id = 0;
  p.threads[0].push_back(o);
}

void run(const Plan& p) {
  if (p.threads.empty() || p.threads[0].empty()) return;
  const Op& op = p.threads[0][0];
  int n = (int)std::max<int64_t>(2, std::min<int64_t>(op.a, 5));
  OpScope sc(op.id);
  switch (op.kind) {
    case 8: {  // --mode 8 only: must end in class hang (self-test of the CPU-time hang detector)
      volatile uint64_t x = 1;
      for (;;) x = x * 6364136223846793005ULL + 1;
    }
    case 0: {  // producer/consumer over mutex+cv
      std::mutex m; std::condition_variable cv; int items = 0, taken = 0;
      std::vector<std::thread> th;
      for (int i = 0; i < n; i++) th.emplace_back([&] { std::unique_lock<std::mutex> l(m); cv.wait(l, [&] { return items > 0; }); items--; taken++; });
      for (int i = 0; i < n; i++) { { std::lock_guard<std::mutex> l(m); items++; } cv.notify_one(); }
      for (auto& t : th) t.join();
      if (taken != n || items != 0) fail("smoke", "mutex_cv", "taken=%d items=%d", taken, items);
      break;
    }
    case 1: {  // static local initialisation raced by n threads
      std::vector<std::thread> th;
      for (int i = 0; i < n; i++) th.emplace_back([&] { Lazy& l = lazy(); for (int j = 0; j < 8; j++) if (l.a[j] != 42 + (uint64_t)j) fail("smoke", "static_init", "saw uninitialised static"); });
      for (auto& t : th) t.join();
      break;
    }
    case 2: {  // generations of threads using babylon thread-locals
      babylon::ConcurrentAdder adder;
      int64_t expect = 0;
      for (int g = 0; g < 3; g++) {
        std::vector<std::thread> th;
        for (int i = 0; i < n; i++) { th.emplace_back([&adder, i] { adder << (i + 1); adder << 10; }); expect += i + 11; }
        for (auto& t : th) t.join();
        if (adder.value() != expect) fail("smoke", "adder", "adder=%lld expected %lld after generation %d", (long long)adder.value(), (long long)expect, g);
      }
      break;
    }
    case 3: {  // Dekker with seq_cst fences must never let both in
      std::atomic<int> x{0}, y{0}; int r1 = -1, r2 = -1;
      std::thread a([&] { x.store(1, std::memory_order_relaxed); std::atomic_thread_fence(std::memory_order_seq_cst); r1 = y.load(std::memory_order_relaxed); });
      std::thread b([&] { y.store(1, std::memory_order_relaxed); std::atomic_thread_fence(std::memory_order_seq_cst); r2 = x.load(std::memory_order_relaxed); });
      a.join(); b.join();
      if (r1 == 0 && r2 == 0) fail("smoke", "dekker", "both threads read 0 despite seq_cst fences");
      break;
    }
    case 4: {  // message passing with relaxed flag: the HB detector must see a race when the reader proceeds
      uint64_t* data = new uint64_t(0); std::atomic<int>* flag = new std::atomic<int>(0);
      hb_register(data, 8, "smoke-data");
      bool saw = false;
      std::thread a([&] { *data = 7; flag->store(1, std::memory_order_relaxed); });
      std::thread b([&] { if (flag->load(std::memory_order_relaxed)) { saw = true; probe("mp_reader_saw_flag"); volatile uint64_t v = *data; (void)v; } });
      a.join(); b.join();
      if (saw) fail("smoke", "mp_relaxed_not_flagged", "relaxed message passing was not reported as race");
      hb_unregister(data);
      break;
    }
    case 5: {  // release/acquire message passing: never a race, always the value
      uint64_t* data = new uint64_t(0); std::atomic<int>* flag = new std::atomic<int>(0);
      hb_register(data, 8, "smoke-data-ra");
      std::thread a([&] { *data = 7; flag->store(1, std::memory_order_release); });
      std::thread b([&] { if (flag->load(std::memory_order_acquire)) { if (*data != 7) fail("smoke", "mp_release", "stale data"); } });
      a.join(); b.join();
      hb_unregister(data);
      break;
    }
    case 6: {  // sleeps and clocks in virtual time
      auto t0 = std::chrono::steady_clock::now();
      int64_t v0 = now_ns();
      std::vector<std::thread> th;
      for (int i = 0; i < n; i++) th.emplace_back([i] { std::this_thread::sleep_for(std::chrono::seconds(10 * (i + 1))); });
      for (auto& t : th) t.join();
      auto dt = std::chrono::duration_cast<std::chrono::seconds>(std::chrono::steady_clock::now() - t0).count();
      if (dt < 10 * n || now_ns() - v0 < 10000000000LL * n) fail("smoke", "sleep", "virtual sleep too short: %lld s", (long long)dt);
      break;
    }
    case 7: {  // detached threads finishing on their own
      std::atomic<int>* done = new std::atomic<int>(0);
      for (int i = 0; i < n; i++) std::thread([done] { ::usleep(100); done->fetch_add(1); }).detach();
      while (done->load() < n) ::usleep(1000);
      while (others_alive() > 0) ::usleep(1000);
      break;
    }
  }
}
}  // namespace

const Harness sim::g_harness = {"smoke", kNames, gen, run, nullptr, 0};
