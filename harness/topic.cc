// Harness "topic": ConcurrentTransientTopic — C15.
// DESIGN.md §3 C15.
//
// One run = 1..3 publish/close/clear cycles on one topic. In every cycle the
// main thread bulk-publishes a prefix (positions the index just below a
// 128-slot block boundary), then 1..3 publisher threads publish single items
// and batches while 1..3 consumer threads (started before, together with or
// after the publishers) drain the topic with batch sizes 1..5. close() is
// called either by the main thread as soon as the last publisher reports done
// or by the publisher thread that finishes last, i.e. it races with the
// wake-ups of the last publication.
#include <babylon/concurrent/transient_topic.h>

#include <errno.h>

#include <algorithm>
#include <atomic>
#include <string>
#include <vector>

#include "common.h"

using namespace sim;

namespace {

struct PubCtx;
struct Cell;
void assign_hook(Cell& dst, const Cell& src, PubCtx* pc);
PubCtx* g_armed[64];  // per simulated thread: publish(value) in flight

struct Cell {
  uint64_t v = 0;
  uint64_t chk[3] = {0, 0, 0};
  uint64_t owner = 0;
  Cell() = default;
  Cell(const Cell&) = default;
  // publish(value) assigns inside babylon; this is the only place where the
  // harness can see which slot the value lands in
  Cell& operator=(const Cell& o) {
    PubCtx* pc = g_armed[sim::tid() & 63];
    if (pc) assign_hook(*this, o, pc);
    else { v = o.v; for (int i = 0; i < 3; i++) chk[i] = o.chk[i]; owner = o.owner; }
    return *this;
  }
};

// Same scheduling interface as the default one; only counts how often the
// futex paths are really taken (probes). Everything is forwarded unchanged.
struct ProbeSched : public babylon::SchedInterface {
  inline static int futex_wait(uint32_t* futex, uint32_t val, const struct ::timespec* timeout) noexcept {
    probe("futex_wait_calls");
    int rc = babylon::SchedInterface::futex_wait(futex, val, timeout);
    if (rc != 0 && errno == EAGAIN) probe("futex_wait_value_changed_before_sleep");
    return rc;
  }
  inline static int futex_wake_all(uint32_t* futex) noexcept {
    int n = babylon::SchedInterface::futex_wake_all(futex);
    probe("futex_wake_all_calls");
    if (n > 0) probe("futex_wake_all_woke_sleeper");
    return n;
  }
};

typedef babylon::ConcurrentTransientTopic<Cell, ProbeSched> Topic;
typedef Topic::Slot Slot;
constexpr size_t BLOCK = 128;

enum Kind { K_PUB, K_PUB_N, K_CONSUME_EARLY, K_CONSUME, K_CONSUME_LATE };
const char* const kNames[] = {"publish", "publish_n", "consume_early", "consume", "consume_late", nullptr};
inline bool is_pub(int k) { return k == K_PUB || k == K_PUB_N; }

constexpr size_t MAXN = 1024;  // upper bound on items per cycle
constexpr int MAXCYC = 3;

struct Expect { bool set = false; uint64_t v = 0; int by = -1; };

struct State {
  Topic topic;
  int cycle = 0;
  bool conc = true;
  size_t N = 0;                  // items of the current cycle once every publisher is done
  size_t prefix = 0;             // of which: bulk prefix published by the main thread
  std::vector<Expect> expected;  // by index, current cycle
  size_t nfilled = 0;
  uint64_t seq[64] = {0};
  long last_idx[64];             // per thread: highest index it published in this cycle
  std::atomic<int> pubs_left{0};
  bool close_returned = false;
  std::vector<const void*> registered_blocks;
  std::vector<size_t*> progress;  // live consumers' progress counters
};
State* S;

uint64_t fresh(int t) { return ((uint64_t)(S->cycle + 1) << 48) | ((uint64_t)(t + 1) << 32) | ++S->seq[t & 63]; }

// Raw (non-atomic: no scheduling point, no happens-before edge) view of the
// topic's current block table.
Topic::SlotVector::BlockTable* raw_table() {
  return *reinterpret_cast<Topic::SlotVector::BlockTable* const*>(&S->topic._slots._block_table);
}
// publication index of a payload address (-1 if it is not a slot of the topic)
long index_of(const Cell* p) {
  auto* tab = raw_table();
  const Slot* s = reinterpret_cast<const Slot*>(p);
  for (size_t b = 0; b < tab->size; b++) {
    const Slot* blk = tab->blocks[b];
    if (s >= blk && s < blk + BLOCK) {
      if ((const void*)&s->value != (const void*)p) return -1;
      return (long)(b * BLOCK + (size_t)(s - blk));
    }
  }
  return -1;
}

// watchpoint on the slot vector's table pointer: hand every new block's
// storage to the happens-before race detector as soon as it is reachable
void on_table_change(void*, const void*, uint64_t, uint64_t newv) {
  auto* tab = reinterpret_cast<Topic::SlotVector::BlockTable*>(newv);
  if (!tab) return;
  for (size_t b = 0; b < tab->size; b++) {
    const void* blk = tab->blocks[b];
    if (std::find(S->registered_blocks.begin(), S->registered_blocks.end(), blk) != S->registered_blocks.end()) continue;
    S->registered_blocks.push_back(blk);
    hb_register(blk, BLOCK * sizeof(Slot), "topic-slot-payload");
  }
}

// ---- publisher side --------------------------------------------------------
struct PubCtx { int t = 0; long first = -1, next = -1; size_t filled = 0, calls = 0; const char* api = "publish_n"; };

void fill(Cell& c, PubCtx& pc, uint64_t v) {
  long idx = index_of(&c);
  if (idx < 0) fail("api", pc.api, "publisher T%d was handed an address that is not a slot of the topic", pc.t);
  if ((size_t)idx >= MAXN) skip("index-beyond-harness-bound");
  if (pc.next >= 0 && idx != pc.next) fail("order", "publish_n-range", "publish_n handed out non-contiguous indices: %ld after %ld", idx, pc.next - 1);
  if (pc.first < 0) pc.first = idx;
  pc.next = idx + 1;
  Expect& e = S->expected[(size_t)idx];
  if (e.set) fail("shared-slot", pc.api, "slot %ld handed to publisher T%d although T%d already published into it in this cycle", idx, pc.t, e.by);
  if (c.owner != 0) fail("shared-slot", pc.api, "slot %ld handed to publisher T%d while T%llu is still writing it", idx, pc.t, (unsigned long long)c.owner - 1);
  c.owner = (uint64_t)pc.t + 1;
  c.v = v;
  if ((idx & 3) == 1) sim::yield_point();
  for (int i = 0; i < 3; i++) c.chk[i] = hx::mixv(v, (uint64_t)i);
  if (c.owner != (uint64_t)pc.t + 1) fail("shared-slot", pc.api, "owner flag of slot %ld changed while T%d was writing it", idx, pc.t);
  c.owner = 0;
  e.set = true; e.v = v; e.by = pc.t;
  S->nfilled++;
  pc.filled++;
}
void assign_hook(Cell& dst, const Cell& src, PubCtx* pc) { fill(dst, *pc, src.v); }

void do_publish(int t, size_t k, bool single) {
  Topic& q = S->topic;
  PubCtx pc; pc.t = t;
  if (single) {
    pc.api = "publish";
    Cell c; c.v = fresh(t);
    g_armed[sim::tid() & 63] = &pc;
    if (S->conc) q.publish(c); else q.publish<false>(c);
    g_armed[sim::tid() & 63] = nullptr;
    if (pc.filled != 1) fail("api", "publish", "publish(value) assigned the value %zu times", pc.filled);
    k = 1;
  } else {
    auto cb = [&](Topic::Iterator b, Topic::Iterator e) {
      pc.calls++;
      if (!(b < e)) fail("api", "publish_n", "publish_n callback invoked with an empty or reversed range");
      for (; b != e; ++b) fill(*b, pc, fresh(t));
    };
    if (S->conc) q.publish_n(k, cb); else q.publish_n<false>(k, cb);
    if (pc.filled != k) fail("api", "publish_n", "publish_n(%zu) ran its callback over %zu slots", k, pc.filled);
    if (pc.calls > 1) probe(t == 0 ? "prefix_publish_n_crossed_block_boundary" : "worker_publish_n_crossed_block_boundary");
  }
  long& last = S->last_idx[t & 63];
  if (last >= 0 && pc.first <= last)
    fail("order", "per-thread", "T%d's later publication got index %ld, not above its earlier publication's %ld", t, pc.first, last);
  last = pc.first + (long)k - 1;
}

void do_close(int linger) {
  for (size_t* p : S->progress) if (*p < S->N) { probe("close_while_consumer_still_behind"); break; }
  S->topic.close();
  // the closing thread goes on with unrelated work for a while before it tells
  // anybody that close() has returned (its relaxed stores may still be buffered)
  for (int i = 0; i < linger; i++) sim::yield_point();
  sim::drain();  // guide rule 11: "close() returned" is handed to the main thread through a plain flag
  S->close_returned = true;
}

// ---- consumer side ---------------------------------------------------------
void verify(const Cell* p, size_t k, int t) {
  long idx = index_of(p);
  if (idx != (long)k) fail("order", "consume", "consumer T%d expected item %zu next but was handed slot %ld", t, k, idx);
  if (k >= S->N) fail("invented", "consume", "consumer T%d was handed item %zu although only %zu items are published in this cycle", t, k, S->N);
  const Expect& e = S->expected[k];
  if (!e.set) fail("unpublished", "consume", "consumer T%d was handed slot %zu before any publisher filled it in this cycle", t, k);
  if (p->owner != 0) fail("unpublished", "consume", "consumer T%d was handed slot %zu while publisher T%llu is still writing it", t, k, (unsigned long long)p->owner - 1);
  uint64_t v = p->v;
  if ((k % 5) == 2) sim::yield_point();
  for (int i = 0; i < 3; i++)
    if (p->chk[i] != hx::mixv(v, (uint64_t)i)) fail("torn", "consume", "consumer T%d read item %zu = %#llx with stale/partial companion field %d", t, k, (unsigned long long)v, i);
  if (e.v != v) fail("stale", "consume", "consumer T%d read %#llx from slot %zu, publisher T%d wrote %#llx", t, (unsigned long long)v, k, e.by, (unsigned long long)e.v);
}

// subscribe and drain until the end marker. a = first batch size (1..5),
// stride = how the batch size varies from call to call, skipmode: 0 = take
// the bulk prefix as one big range, k>0 = fast-forward to k items before the
// end of the bulk prefix.
// CST: through the const interface (ConstConsumer of a const topic, const ranges)
template <bool CST>
void do_consume_impl(int t, int64_t a, int64_t stride, int64_t skipmode, size_t prefix) {
  typename std::conditional<CST, const Topic&, Topic&>::type q = S->topic;
  auto cons = q.subscribe();
  if (CST) probe("const_consumer");
  size_t got = 0;
  if (skipmode > 0 && prefix > (size_t)skipmode) {
    // Legal history prefix without paying for it: put this consumer object
    // into the state it has after consuming the first `got` items. All of
    // them were published by the main thread before this thread was created.
    // Only private state of this consumer object is touched.
    got = prefix - (size_t)skipmode;
    cons._next_consume_index = got;
  }
  S->progress.push_back(&got);
  a = std::max<int64_t>(1, std::min<int64_t>(a, 5));
  stride = std::max<int64_t>(0, std::min<int64_t>(stride, 4));
  for (int call = 0;; call++) {
    size_t n = 1 + (size_t)((a - 1 + stride * call) % 5);
    if (call == 0 && skipmode <= 0 && prefix > 8) n = prefix - 3;  // swallow the bulk prefix in one range
    if (n == 1 && (call & 1) == 0) {
      auto* p = cons.consume();
      if (!p) break;
      verify(p, got, t);
      got++;
    } else {
      const auto r = cons.consume(n);
      size_t m = r.size();
      if (m > n) fail("api", "consume_n", "consume(%zu) returned a range of %zu", n, m);
      if (m > 0 && got / BLOCK != (got + m - 1) / BLOCK) probe("consume_range_crossed_block_boundary");
      for (size_t i = 0; i < m; i++) verify(&r[i], got + i, t);
      got += m;
      if (m < n) { if (m > 0) probe("end_marker_as_short_range"); break; }
    }
  }
  // the end marker: only after everything was delivered ...
  if (got != S->N) fail("early-end", "consume", "consumer T%d got the end marker after %zu of %zu items", t, got, S->N);
  // ... and it stays: another consume must again report the end, delivering nothing
  if ((a + stride) & 1) {
    if (cons.consume() != nullptr) fail("invented", "consume-after-end", "consume() delivered an item after the end marker");
  } else {
    if (cons.consume(3).size() != 0) fail("invented", "consume-after-end", "consume(3) delivered items after the end marker");
  }
  for (size_t i = 0; i < S->progress.size(); i++) if (S->progress[i] == &got) { S->progress.erase(S->progress.begin() + (long)i); break; }
}

void do_consume(int t, int64_t a, int64_t stride, int64_t skipmode, size_t prefix) {
  if (((a * 7 + stride * 3 + t) % 3) == 0) do_consume_impl<true>(t, a, stride, skipmode, prefix);
  else do_consume_impl<false>(t, a, stride, skipmode, prefix);
}

inline int op_cycle(const Op& o) { return (int)((o.b >> 8) & 0xff); }
inline int64_t op_stride(const Op& o) { return o.b & 0xff; }
inline size_t op_k(const Op& o) { return o.kind == K_PUB ? 1 : (size_t)std::max<int64_t>(1, std::min<int64_t>(o.a, 16)); }

void gen(Rng& r, Plan& p, const GenParams& gp) {
  bool faults = gp.mode == 1 || (gp.mode < 0 && r.chance(1, 3));
  gen_common(r, p, SB_HALF, faults, 2500);
  int cycles = r.chance(1, 2) ? 1 : (int)r.range(2, 3);
  p.cfg["cycles"] = cycles;
  p.cfg["close_by"] = (int64_t)r.below(2);  // 0 main as soon as the publishers report done, 1 the publisher that finishes last
  static const int64_t lg[] = {0, 2, 6, 12};
  p.cfg["close_linger"] = lg[r.below(4)];
  p.cfg["reserve"] = r.chance(1, 4) ? (int64_t)r.range(1, 300) : 0;
  p.cfg["clear_last"] = r.chance(1, 2);
  static const int64_t pf[] = {0, 0, 0, 1, 120, 124, 125, 126, 127, 128, 250, 254, 255};
  for (int c = 0; c < MAXCYC; c++) {
    char key[16]; snprintf(key, sizeof key, "prefix%d", c);
    p.cfg[key] = pf[r.below(13)];
  }
  int npub = (int)r.range(1, 3), ncons = (int)r.range(1, 3);
  p.cfg["conc"] = (npub == 1 && r.chance(1, 3)) ? 0 : 1;
  p.threads.resize((size_t)(1 + npub + ncons));
  int opid = 0;
  auto add = [&](int t, int kind, int64_t a, int64_t stride, int64_t c, int cyc) {
    Op o; o.kind = kind; o.a = a; o.b = stride | ((int64_t)cyc << 8); o.c = c; o.id = opid++;
    p.threads[(size_t)t].push_back(o);
  };
  int maxops = gp.thorough ? 5 : 3;
  for (int c = 0; c < cycles; c++) {
    for (int t = 1; t <= npub; t++) {
      if (c > 0 && r.chance(1, 4)) continue;
      int nops = (int)r.range(1, maxops);
      for (int i = 0; i < nops; i++) {
        if (r.chance(1, 2)) add(t, K_PUB, 1, 0, 0, c);
        else add(t, K_PUB_N, (int64_t)r.range(1, r.chance(1, 4) ? 12 : 5), 0, 0, c);
      }
      // a publisher may turn consumer once it has published everything
      if (r.chance(1, 6)) add(t, K_CONSUME, (int64_t)r.range(1, 5), (int64_t)r.range(0, 4), (int64_t)r.range(1, 7), c);
    }
    for (int t = npub + 1; t <= npub + ncons; t++) {
      if (c > 0 && r.chance(1, 4)) continue;
      static const int ks[] = {K_CONSUME_EARLY, K_CONSUME_EARLY, K_CONSUME, K_CONSUME, K_CONSUME, K_CONSUME_LATE};
      add(t, ks[r.below(6)], (int64_t)r.range(1, 5), (int64_t)r.range(0, 4), r.chance(1, 5) ? 0 : (int64_t)r.range(1, 7), c);
    }
  }
}

void run(const Plan& p) {
  S = new State();
  State& s = *S;
  for (auto& x : g_armed) x = nullptr;
  int cycles = (int)std::max<int64_t>(1, std::min<int64_t>(p.get("cycles", 1), MAXCYC));
  int close_by = (int)p.get("close_by", 0);
  int linger = (int)std::max<int64_t>(0, std::min<int64_t>(p.get("close_linger", 0), 32));
  sim::watch(&s.topic._slots._block_table, sizeof(void*), on_table_change, nullptr);
  // Topic::reserve(n) is declared and documented but has no definition in
  // transient_topic.hpp (link error), so the harness reserves on the slot
  // vector directly, which is all reserve() could do.
  if (p.get("reserve", 0) > 0) s.topic._slots.reserve((size_t)std::min<int64_t>(p.get("reserve", 0), 400));
  int mop = 100000;
  for (int cy = 0; cy < cycles; cy++) {
    s.cycle = cy;
    s.expected.assign(MAXN, Expect());
    s.nfilled = 0;
    s.close_returned = false;
    for (auto& x : s.last_idx) x = -1;
    char key[16]; snprintf(key, sizeof key, "prefix%d", cy);
    size_t prefix = (size_t)std::max<int64_t>(0, std::min<int64_t>(p.get(key, 0), 300));
    s.prefix = prefix;
    // who does what in this cycle
    std::vector<int> pubs, early, during, late;
    size_t total = prefix;
    for (size_t t = 1; t < p.threads.size() && t < 64; t++) {
      bool has_pub = false; int first_cons_kind = -1;
      for (auto& o : p.threads[t]) {
        if (op_cycle(o) != cy) continue;
        if (is_pub(o.kind)) { has_pub = true; total += op_k(o); }
        else if (first_cons_kind < 0) first_cons_kind = o.kind;
      }
      if (has_pub) pubs.push_back((int)t);
      else if (first_cons_kind >= 0) (first_cons_kind == K_CONSUME_EARLY ? early : first_cons_kind == K_CONSUME_LATE ? late : during).push_back((int)t);
    }
    if (total + 8 >= MAXN) skip("too-many-items");
    s.N = total;
    // publish<false> is only legal without concurrent publishers (a shrunk plan stays legal)
    s.conc = p.get("conc", 1) != 0 || pubs.size() > 1;
    s.pubs_left.store((int)pubs.size(), std::memory_order_relaxed);
    // bulk prefix by the main thread
    if (prefix > 0) { OpScope sc(mop++); do_publish(0, prefix, false); }
    if (prefix % BLOCK >= 120) probe("index_just_below_block_boundary");

    const Plan* pp = &p;
    auto body = [pp, cy, close_by, prefix, linger](int t) {
      // publishing operations first (a consume operation blocks until close)
      bool was_pub = false;
      for (auto& o : pp->threads[(size_t)t]) {
        if (op_cycle(o) != cy || !is_pub(o.kind)) continue;
        was_pub = true;
        OpScope sc(o.id);
        do_publish(t, op_k(o), o.kind == K_PUB);
      }
      if (was_pub) {
        int left = S->pubs_left.fetch_sub(1, std::memory_order_acq_rel) - 1;
        if (left == 0 && close_by == 1) { OpScope sc(200000 + cy); do_close(linger); }
      }
      for (auto& o : pp->threads[(size_t)t]) {
        if (op_cycle(o) != cy || is_pub(o.kind)) continue;
        OpScope sc(o.id);
        do_consume(t, o.a, op_stride(o), o.c, prefix);
      }
    };
    std::vector<std::thread> th;
    for (int t : early) th.emplace_back(body, t);
    if (!early.empty()) {
      wait_quiescent();
      if (others_alive() > 0 && others_blocked_forever()) probe("early_consumer_asleep_before_first_publication");
    }
    for (int t : pubs) th.emplace_back(body, t);
    for (int t : during) th.emplace_back(body, t);
    if (close_by != 1 || pubs.empty()) {
      // close as soon as the last publisher reports done (polling, no quiescence)
      while (s.pubs_left.load(std::memory_order_acquire) > 0) sleep_ns(300);
      OpScope sc(mop++);
      do_close(linger);
    }
    bool late_started = false;
    for (;;) {
      wait_quiescent();
      if (s.close_returned && !late_started) {
        late_started = true;
        for (int t : late) th.emplace_back(body, t);
        if (!late.empty()) { probe("late_consumer_after_close"); continue; }
      }
      if (others_alive() == 0) break;
      if (others_blocked_forever()) {
        std::string where;
        for (size_t* g : s.progress) { char b[32]; snprintf(b, sizeof b, " %zu", *g); where += b; }
        if (s.close_returned)
          fail("deadlock", "consumer-asleep-after-close", "close() has returned and all %zu items are published, but %d thread(s) sleep forever; consumer progress:%s (a waiter was never woken)", s.N, others_alive(), where.c_str());
        fail("deadlock", "publisher-blocked", "%d thread(s) blocked forever before close() was reached; consumer progress:%s", others_alive(), where.c_str());
      }
      sleep_ns(100000);
    }
    for (auto& t : th) t.join();
    // everything that was to be published is there, exactly once
    if (s.nfilled != s.N) fail("lost", "end-of-cycle", "%zu slots filled, %zu items were published", s.nfilled, s.N);
    for (size_t i = 0; i < s.N; i++) if (!s.expected[i].set) fail("lost", "end-of-cycle", "index %zu of %zu was never handed to a publisher (hole)", i, s.N);
    size_t endidx = s.topic._next_event_index.load(std::memory_order_relaxed);
    if (endidx != s.N) fail("lost", "end-of-cycle", "index counter is %zu after %zu publications", endidx, s.N);
    // main's own consumer: the whole sequence from 0
    { OpScope sc(mop++); do_consume(0, 5, cy + 1, 0, 0); }
    if (cy > 0) probe("cycle_after_clear_completed");
    if (s.N > BLOCK) probe("items_span_two_blocks");
    if (cy + 1 < cycles || p.get("clear_last", 0)) {
      OpScope sc(mop++);
      s.topic.clear();
      sim::drain();
      if (s.topic._next_event_index.load(std::memory_order_relaxed) != 0) fail("clear", "index", "index counter not reset by clear()");
      auto* tab = raw_table();
      for (size_t i = 0; i < tab->size * BLOCK; i++) {
        uint32_t w = *reinterpret_cast<const uint32_t*>(&tab->blocks[i / BLOCK][i % BLOCK].futex);
        if (w != 0) fail("clear", "slot-status", "slot %zu has status word %#x after clear()", i, w);
      }
    }
  }
}

const char* const kShrink[] = {"cycles", "prefix0", "prefix1", "prefix2", "reserve", nullptr};

}  // namespace

const Harness sim::g_harness = {"topic", kNames, gen, run, kShrink, 0};
