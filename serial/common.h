// C11 stream-fault harness: common definitions (PRNG, evaluation spec, shared-memory layout).
#pragma once
#include <atomic>
#include <cstdarg>
#include <cstdint>
#include <cstdio>
#include <cstring>
#include <string>
#include <vector>

namespace vs {

// ----------------------------------------------------------------------------------------------
// PRNG: everything in a batch derives from mix(VERIF_SEED, case index).
inline uint64_t splitmix(uint64_t& s) {
  uint64_t z = (s += 0x9e3779b97f4a7c15ull);
  z = (z ^ (z >> 30)) * 0xbf58476d1ce4e5b9ull;
  z = (z ^ (z >> 27)) * 0x94d049bb133111ebull;
  return z ^ (z >> 31);
}
inline uint64_t mix(uint64_t a, uint64_t b) {
  uint64_t s = a ^ 0x6a09e667f3bcc909ull;
  uint64_t x = splitmix(s);
  s ^= b * 0xd6e8feb86659fd93ull + 0x2545f4914f6cdd1dull;
  return splitmix(s) ^ (x << 1);
}
struct Rng {
  uint64_t s;
  explicit Rng(uint64_t seed) : s(seed) {}
  uint64_t next() { return splitmix(s); }
  // uniform in [0, n)
  uint64_t below(uint64_t n) { return n ? next() % n : 0; }
  int range(int lo, int hi) { return lo + (int)below((uint64_t)(hi - lo + 1)); }  // inclusive
  bool chance(int num, int den) { return below((uint64_t)den) < (uint64_t)num; }
};

inline std::string hex_encode(const std::string& b) {
  static const char* d = "0123456789abcdef";
  std::string o;
  o.reserve(b.size() * 2);
  for (unsigned char c : b) {
    o.push_back(d[c >> 4]);
    o.push_back(d[c & 15]);
  }
  return o;
}
inline bool hex_decode(const std::string& h, std::string& out) {
  out.clear();
  if (h == "-") return true;
  if (h.size() % 2) return false;
  auto v = [](char c) -> int {
    if (c >= '0' && c <= '9') return c - '0';
    if (c >= 'a' && c <= 'f') return c - 'a' + 10;
    if (c >= 'A' && c <= 'F') return c - 'A' + 10;
    return -1;
  };
  for (size_t i = 0; i < h.size(); i += 2) {
    int a = v(h[i]), b = v(h[i + 1]);
    if (a < 0 || b < 0) return false;
    out.push_back((char)(a * 16 + b));
  }
  return true;
}

inline std::string sfmt(const char* fmt, ...) {
  char buf[2048];
  va_list ap;
  va_start(ap, fmt);
  vsnprintf(buf, sizeof buf, fmt, ap);
  va_end(ap);
  return buf;
}

// "bool babylon::SerializeTraits<std::vector<vs::Mid, std::allocator<vs::Mid> >, void>::deserialize(...)"
//   -> "SerializeTraits<vector>::deserialize"   (stable, short name of a babylon function for violation sites)
// detail: keep one more level of the first template argument ("SerializeTraits<vector<float>>::deserialize")
inline std::string short_function(const std::string& f, bool detail = false) {
  std::string o;
  int depth = 0;
  for (size_t i = 0; i < f.size(); ++i) {
    char c = f[i];
    if (c == '<') {
      if (depth == 0 && o.size() >= 15 && o.compare(o.size() - 15, 15, "SerializeTraits") == 0) {
        auto clean = [](std::string head) {
          for (const char* pre : {"::", "std::", "__cxx11::", "vs::", "vserial::", "const "})
            if (head.rfind(pre, 0) == 0) head = head.substr(strlen(pre));
          std::string h2;
          for (char d : head)
            if (d != ' ') h2.push_back(d);
          return h2;
        };
        size_t j = i + 1;
        while (j < f.size() && f[j] != '<' && f[j] != ',' && f[j] != '>') ++j;
        std::string arg = clean(f.substr(i + 1, j - i - 1));
        if (detail && j < f.size() && f[j] == '<') {
          size_t k = j + 1;
          while (k < f.size() && f[k] != '<' && f[k] != ',' && f[k] != '>') ++k;
          arg += "<" + clean(f.substr(j + 1, k - j - 1)) + ">";
        }
        o += "<" + arg + ">";
      }
      ++depth;
    } else if (c == '>') {
      --depth;
    } else if (c == '(' && depth == 0) {
      if (f.compare(i, 11, "(anonymous ") == 0) {
        o += "(anon)";
        while (i < f.size() && f[i] != ')') ++i;
        continue;
      }
      break;
    } else if (depth == 0) {
      o.push_back(c);
    }
  }
  size_t sp = o.rfind(' ');
  if (sp != std::string::npos) o = o.substr(sp + 1);
  if (o.rfind("babylon::", 0) == 0) o = o.substr(9);
  return o;
}
inline bool is_babylon_function(const std::string& f) {
  // qualified name starts after the last depth-0 space before the argument list (a return type may precede it)
  int depth = 0;
  size_t start = 0;
  for (size_t i = 0; i < f.size(); ++i) {
    char c = f[i];
    if (c == '<') ++depth;
    else if (c == '>') --depth;
    else if (c == '(' && depth == 0) break;
    else if (c == ' ' && depth == 0) start = i + 1;
  }
  return f.compare(start, 9, "babylon::") == 0;
}

// ----------------------------------------------------------------------------------------------
// Presentation of the bytes to the parser.
enum PresKind : int {
  PK_CODED_ARRAY = 0,  // harness-owned CodedInputStream over an exactly sized heap array
  PK_API_ARRAY = 1,    // Serialization::parse_from_array
  PK_API_STRING = 2,   // Serialization::parse_from_string
  PK_STREAM = 3,       // CodedInputStream over the harness ZeroCopyInputStream
};
struct Pres {
  int kind = PK_CODED_ARRAY;
  int chunk = 1;            // PK_STREAM: 1,2,3,7 fixed; 0 = random sizes drawn from chunk_seed; -1 = one chunk
  uint64_t chunk_seed = 0;
  int zero_chunks = 0;      // PK_STREAM: intersperse legal zero-sized buffers
  int limit = -1;           // >= 0: enclose the parse in PushLimit(limit); bytes behind the limit are not input
  int fail_at = -1;         // PK_STREAM: Next() fails for good once this many bytes were handed out
};
// index of the presentation class used in the distinctness key
constexpr int N_PRES_CLASS = 14;
inline int pres_class(const Pres& p) {
  switch (p.kind) {
    case PK_CODED_ARRAY: return p.limit >= 0 ? 1 : 0;
    case PK_API_ARRAY: return 2;
    case PK_API_STRING: return 3;
    default: {
      int c = p.chunk == 1 ? 0 : p.chunk == 2 ? 1 : p.chunk == 3 ? 2 : p.chunk == 7 ? 3 : 4;
      return 4 + c * 2 + (p.limit >= 0 ? 1 : 0);
    }
  }
}
inline const char* pres_class_name(int c) {
  static const char* n[N_PRES_CLASS] = {"coded-array", "coded-array+limit", "parse_from_array", "parse_from_string",
                                        "stream/1", "stream/1+limit", "stream/2", "stream/2+limit", "stream/3",
                                        "stream/3+limit", "stream/7", "stream/7+limit", "stream/random",
                                        "stream/random+limit"};
  return n[c];
}
// coarse presentation name used in violation sites
inline const char* pres_site(const Pres& p) {
  switch (p.kind) {
    case PK_CODED_ARRAY: return p.limit >= 0 ? "array+limit" : "array";
    case PK_API_ARRAY: return "parse_from_array";
    case PK_API_STRING: return "parse_from_string";
    default: return p.limit >= 0 ? "stream+limit" : "stream";
  }
}

// Fault kinds of oracle 2 (FK_NONE = fault-free evaluation of oracle 1).
enum FaultKind : int {
  FK_NONE = 0,
  FK_TRUNC_ALL,      // every prefix of an encoding <= 256 bytes
  FK_TRUNC_DRAWN,    // drawn prefixes of a longer encoding
  FK_FLIP,           // 1..3 bytes changed
  FK_INFLATE_LEN,    // a length prefix made somewhat larger than what is there
  FK_HUGE_LEN,       // a length prefix / count made huge (2^31-1 .. 2^64-1)
  FK_SWAP_WIRETYPE,  // wire type bits of a tag replaced
  FK_DEEPEN,         // wrapped in up to 150 length-delimited layers
  FK_NEXT_FAIL,      // Next() fails mid-message (bytes intact)
  FK_SPLICE,         // slice deleted / duplicated / inserted
  FK_RANDOM,         // purely random bytes
  N_FAULT_KINDS
};
inline const char* fault_name(int k) {
  static const char* n[N_FAULT_KINDS] = {"none", "truncate_all_prefixes", "truncate_drawn", "flip_bytes", "inflate_length",
                                         "huge_length", "swap_wire_type", "deepen_nesting", "next_fails", "splice",
                                         "random_bytes"};
  return (k >= 0 && k < N_FAULT_KINDS) ? n[k] : "?";
}
inline int fault_by_name(const std::string& s) {
  for (int i = 0; i < N_FAULT_KINDS; ++i)
    if (s == fault_name(i)) return i;
  return -1;
}
constexpr int N_POS_BUCKETS = 8;

// One evaluation = one parse attempt (mode H) or one value pushed through all oracle-1 clauses (mode R).
struct EvalSpec {
  char mode = 'H';
  std::string type;  // registry name (no spaces)
  // R: the value is regenerated from (vseed, budget); bytes are informational
  uint64_t vseed = 0;
  int budget = 0;
  // H:
  Pres pres;
  int fault_kind = FK_NONE;
  int fault_pos = 0;
  std::string bytes;
  std::string fault_desc;  // human readable, not part of the text form
};

std::string spec_to_text(const EvalSpec& e);
bool spec_from_text(const std::string& s, EvalSpec& e);

struct Outcome {
  bool violated = false;
  std::string cls, site, msg;
  std::string sig() const { return cls + "|" + site; }
};

// ----------------------------------------------------------------------------------------------
// Shared memory between the parent and the worker pool.
constexpr int MAX_JOBS = 64;
constexpr int MAX_TYPES = 128;
constexpr size_t SLOT_SPEC_MAX = 40960;
constexpr size_t BITMAP_BITS = (size_t)MAX_TYPES * N_PRES_CLASS * N_FAULT_KINDS * N_POS_BUCKETS;

struct Slot {
  std::atomic<uint64_t> cur_index;   // case index about to be / being executed
  std::atomic<uint64_t> progress;    // bumped before every evaluation (watchdog)
  std::atomic<uint32_t> spec_len;    // text form of the evaluation about to run
  char spec[SLOT_SPEC_MAX];
  std::atomic<uint64_t> huge_alloc_bytes;  // largest single allocation request seen during the current evaluation
};
struct Shared {
  std::atomic<uint64_t> cases, evaluations, evals_roundtrip, evals_hostile, parse_ok, parse_fail, fixpoint_checked,
      reached, exhaustive_trunc_encodings, compat_records, huge_alloc_count, huge_alloc_max, step_bound_hits,
      max_input_len, ub_reports;
  std::atomic<uint64_t> fault_generated[N_FAULT_KINDS];
  std::atomic<uint64_t> fault_reached[N_FAULT_KINDS];
  std::atomic<uint64_t> bitmap[BITMAP_BITS / 64 + 1];
  Slot slots[MAX_JOBS];
};

}  // namespace vs
