// Oracle engine of the C11 stream-fault harness.
#include "engine.h"

#include <algorithm>
#include <cstdarg>
#include <cstdlib>

#include "stream.h"
#include "wire.h"

namespace vs {

sigjmp_buf g_escape_jmp;
bool g_escape_armed = false;
char g_escape_site[256] = "unknown";
char g_escape_msg[512] = "";

// ------------------------------------------------------------------------------------------------ registry
std::vector<TypeOps>& registry() {
  static std::vector<TypeOps> r;
  return r;
}
const TypeOps* find_type(const std::string& name) {
  for (auto& t : registry())
    if (t.name == name) return &t;
  return nullptr;
}
int type_index(const std::string& name) {
  auto& r = registry();
  for (size_t i = 0; i < r.size(); ++i)
    if (r[i].name == name) return (int)i;
  return -1;
}

// ------------------------------------------------------------------------------------------------ failure state
// An evaluation yields a list of outcomes: at most one oracle failure (the first) plus any UBSan reports seen on the
// way (class `ub`; they do not end the evaluation, so that what a batch worker sees does not depend on which UB
// locations UBSan has already reported in that process).
static std::vector<Outcome>* g_res = nullptr;
static bool g_failed = false;
static size_t failure_count() { return g_res ? g_res->size() : 0; }
void fail(const char* cls, const std::string& site, const char* fmt, ...) {
  if (!g_res || g_res->size() >= 12) return;
  for (auto& x : *g_res)
    if (x.cls == cls && x.site == site) {  // one outcome per signature
      g_failed = true;
      return;
    }
  char buf[1500];
  va_list ap;
  va_start(ap, fmt);
  vsnprintf(buf, sizeof buf, fmt, ap);
  va_end(ap);
  Outcome o;
  o.violated = true;
  o.cls = cls;
  o.site = site;
  o.msg = buf;
  g_res->push_back(o);
  g_failed = true;
}
bool failed() { return g_failed; }
struct EvalScope {
  explicit EvalScope(std::vector<Outcome>* r) {
    g_res = r;
    g_failed = false;
  }
  ~EvalScope() {
    g_res = nullptr;
    g_failed = false;
  }
};

EngineEnv& env() {
  static EngineEnv e;
  return e;
}
Shared& stats() {
  static Shared* dummy = nullptr;
  if (env().shared) return *env().shared;
  if (!dummy) dummy = static_cast<Shared*>(calloc(1, sizeof(Shared)));
  return *dummy;
}

static EvalSpec g_current;  // the spec published last
static void check_ub() {
  std::string site, msg;
  while (ub_take(site, msg)) {
    stats().ub_reports++;
    Outcome o;
    o.violated = true;
    o.cls = "ub";
    o.site = site;
    o.msg = msg;
    if (env().ub_sink) {
      env().ub_sink(g_current, o);
      continue;
    }
    if (!g_res) continue;
    bool dup = false;
    for (auto& x : *g_res)
      if (x.cls == "ub" && x.site == site) dup = true;
    if (!dup) g_res->push_back(o);
  }
}

// ------------------------------------------------------------------------------------------------ spec <-> text
std::string spec_to_text(const EvalSpec& e) {
  if (e.mode == 'R') return sfmt("R %s %llu %d", e.type.c_str(), (unsigned long long)e.vseed, e.budget);
  std::string s = sfmt("H %s %d %d %llu %d %d %d %s %d ", e.type.c_str(), e.pres.kind, e.pres.chunk,
                       (unsigned long long)e.pres.chunk_seed, e.pres.zero_chunks, e.pres.limit, e.pres.fail_at,
                       fault_name(e.fault_kind), e.fault_pos);
  s += e.bytes.empty() ? std::string("-") : hex_encode(e.bytes);
  return s;
}
bool spec_from_text(const std::string& s, EvalSpec& e) {
  std::vector<std::string> tok;
  size_t i = 0;
  while (i < s.size()) {
    while (i < s.size() && (s[i] == ' ' || s[i] == '\n')) ++i;
    size_t j = i;
    while (j < s.size() && s[j] != ' ' && s[j] != '\n') ++j;
    if (j > i) tok.push_back(s.substr(i, j - i));
    i = j;
  }
  if (tok.empty()) return false;
  if (tok[0] == "R" && tok.size() == 4) {
    e.mode = 'R';
    e.type = tok[1];
    e.vseed = strtoull(tok[2].c_str(), nullptr, 10);
    e.budget = atoi(tok[3].c_str());
    return true;
  }
  if (tok[0] == "H" && tok.size() == 11) {
    e.mode = 'H';
    e.type = tok[1];
    e.pres.kind = atoi(tok[2].c_str());
    e.pres.chunk = atoi(tok[3].c_str());
    e.pres.chunk_seed = strtoull(tok[4].c_str(), nullptr, 10);
    e.pres.zero_chunks = atoi(tok[5].c_str());
    e.pres.limit = atoi(tok[6].c_str());
    e.pres.fail_at = atoi(tok[7].c_str());
    e.fault_kind = fault_by_name(tok[8]);
    e.fault_pos = atoi(tok[9].c_str());
    if (e.fault_kind < 0) return false;
    return hex_decode(tok[10], e.bytes);
  }
  return false;
}

void publish(const EvalSpec& e) {
  alloc_guard_reset(true);
  g_current = e;
  Slot* sl = env().slot;
  if (!sl) return;
  std::string t = spec_to_text(e);
  if (t.size() >= SLOT_SPEC_MAX) t.resize(SLOT_SPEC_MAX - 1);
  sl->spec_len.store(0, std::memory_order_relaxed);
  memcpy(sl->spec, t.data(), t.size());
  sl->spec_len.store((uint32_t)t.size(), std::memory_order_release);
  sl->progress.fetch_add(1, std::memory_order_relaxed);
}

// ------------------------------------------------------------------------------------------------ parsing
// All SUT parsing goes through here. The call is made between sigsetjmp and a possible siglongjmp from
//   (1) the harness stream when the parser spins on an exhausted stream, or
//   (2) the std::terminate handler (an exception escaping babylon's noexcept API: what production sees as abort()).
// Nothing with a destructor lives in this frame across the call; what the abandoned frames owned is leaked.
ParseReport do_parse(const TypeOps& t, const std::string& bytes, const Pres& pres, void* obj) {
  ParseReport pr;
  char* buf = nullptr;
  std::string* copy = nullptr;
  FaultyInput* in = nullptr;
  CodedInputStream* cis = nullptr;
  if (pres.kind == PK_API_ARRAY || pres.kind == PK_CODED_ARRAY) {
    buf = static_cast<char*>(malloc(bytes.size()));  // exactly sized: ASan sees any over-read
    if (!bytes.empty()) memcpy(buf, bytes.data(), bytes.size());
  }
  if (pres.kind == PK_API_STRING) copy = new std::string(bytes.data(), bytes.size());
  if (pres.kind == PK_CODED_ARRAY) cis = new CodedInputStream(reinterpret_cast<const uint8_t*>(buf), (int)bytes.size());
  if (pres.kind == PK_STREAM) {
    in = new FaultyInput(bytes, pres);
    cis = new CodedInputStream(in);
  }
  int why = sigsetjmp(g_escape_jmp, 0);
  if (why == 0) {
    alloc_guard_parse_begin();
    g_escape_armed = true;
    switch (pres.kind) {
      case PK_API_ARRAY: pr.ok = t.parse_array(buf, bytes.size(), obj); break;
      case PK_API_STRING: pr.ok = t.parse_string(*copy, obj); break;
      default: {
        CodedInputStream::Limit lim = 0;
        if (pres.limit >= 0) lim = cis->PushLimit(pres.limit);
        pr.ok = t.parse_coded(*cis, obj);
        pr.consumed = cis->CurrentPosition();
        if (pres.limit >= 0) cis->PopLimit(lim);
        break;
      }
    }
    g_escape_armed = false;
    delete cis;  // stream-backed: backs up into `in`
  } else {
    g_escape_armed = false;
    pr.ok = false;
    if (why == 1) {
      pr.spin = true;
      pr.escape_site = g_escape_site;
      stats().step_bound_hits++;
    } else if (why == 3) {
      pr.runaway = true;
      pr.escape_site = g_escape_site;
      pr.escape_msg = g_escape_msg;
    } else {
      pr.terminated = true;
      pr.escape_site = g_escape_site;
      pr.escape_msg = g_escape_msg;
    }
    // the position inside the abandoned CodedInputStream is unknown: what the stream handed out bounds it from above
    pr.consumed = in ? (long)in->high_water : -1;
    if (pres.limit >= 0 && pr.consumed > pres.limit) pr.consumed = pres.limit;
    // `cis` is abandoned (its destructor would touch a stream we no longer trust)
  }
  if (in) {
    pr.bad_backup = in->bad_backup;
    pr.high_water = in->high_water;
    pr.next_calls = in->next_calls;
    delete in;
  }
  delete copy;
  free(buf);
  return pr;
}

void note_eval(const TypeOps& t, const Pres& pres, int fault_kind, int bucket, bool reached, bool roundtrip,
               bool parse_ok) {
  Shared& s = stats();
  s.evaluations++;
  (roundtrip ? s.evals_roundtrip : s.evals_hostile)++;
  (parse_ok ? s.parse_ok : s.parse_fail)++;
  if (!reached) return;
  s.reached++;
  s.fault_reached[fault_kind]++;
  int ti = type_index(t.name);
  if (ti < 0 || ti >= MAX_TYPES) return;
  if (bucket < 0) bucket = 0;
  if (bucket >= N_POS_BUCKETS) bucket = N_POS_BUCKETS - 1;
  size_t bit = (((size_t)ti * N_PRES_CLASS + (size_t)pres_class(pres)) * N_FAULT_KINDS + (size_t)fault_kind) *
                   N_POS_BUCKETS + (size_t)bucket;
  s.bitmap[bit / 64].fetch_or(1ull << (bit % 64), std::memory_order_relaxed);
}

static int depth_for(int budget) { return budget >= 16 ? 3 : budget >= 4 ? 2 : budget >= 1 ? 1 : 0; }

// The value of a case: regenerated identically by oracle 1, by the base of oracle 2 and by replays.
// A FRESH object per attempt: babylon's generated aggregates carry mutable size caches, so an object that was sized
// in an earlier state is not the same thing as a fresh one (that history dependence is checked by its own clause).
static void* make_value(const TypeOps& t, uint64_t vseed, int budget, int* used_budget = nullptr) {
  int n = budget;
  for (;;) {
    void* v = t.create();
    Rng r(vseed);
    t.gen(r, v, n, depth_for(n));
    if (n == 0 || t.calc(v) <= 4096) {
      if (used_budget) *used_budget = n;
      return v;
    }
    t.destroy(v);
    n /= 2;
  }
}

static std::string garbage(Rng& r, const std::string& payload) {
  std::string g;
  size_t n = 1 + r.below(12);
  bool plausible = !payload.empty() && r.chance(1, 2);
  for (size_t i = 0; i < n; ++i) g.push_back(plausible ? payload[i % payload.size()] : (char)r.next());
  return g;
}

std::vector<Pres> roundtrip_presentations(Rng& r, size_t len, std::string& trailing) {
  std::vector<Pres> v;
  Pres p;
  p.kind = PK_CODED_ARRAY;
  v.push_back(p);
  p.limit = (int)len;
  v.push_back(p);
  p = Pres();
  p.kind = PK_API_ARRAY;
  v.push_back(p);
  p.kind = PK_API_STRING;
  v.push_back(p);
  static const int chunks[] = {1, 2, 3, 7, 0, 0, -1};
  for (int ci = 0; ci < 7; ++ci) {
    for (int lim = 0; lim < 2; ++lim) {
      Pres q;
      q.kind = PK_STREAM;
      q.chunk = chunks[ci];
      q.chunk_seed = r.next();
      q.zero_chunks = ci == 5;
      q.limit = lim ? (int)len : -1;
      v.push_back(q);
    }
  }
  (void)trailing;
  return v;
}

// ------------------------------------------------------------------------------------------------ oracle 2 core
static void fixpoint(const TypeOps& t, const void* obj) {
  stats().fixpoint_checked++;
  std::string s1;
  size_t n = t.calc(obj);
  if (!t.ser_string(obj, s1)) {
    fail("fixpoint", t.family + "/reserialize-failed", "%s: a successfully parsed value cannot be serialized", t.name.c_str());
    return;
  }
  if (n != s1.size()) {
    fail("fixpoint", t.family + "/size", "%s: calculate_serialized_size=%zu but %zu bytes produced for a parsed value",
         t.name.c_str(), n, s1.size());
    return;
  }
  void* o2 = t.create();
  char* buf = static_cast<char*>(malloc(s1.size()));
  if (!s1.empty()) memcpy(buf, s1.data(), s1.size());
  bool ok = t.parse_array(buf, s1.size(), o2);
  free(buf);
  if (!ok) {
    fail("fixpoint", t.family + "/reparse-failed", "%s: re-serialization (%zu bytes: %s) of a successfully parsed value does not parse",
         t.name.c_str(), s1.size(), hex_encode(s1.substr(0, 64)).c_str());
  } else if (!t.eq(obj, o2)) {
    fail("fixpoint", t.family + "/not-equal", "%s: parse(serialize(v)) != v for a successfully parsed v; differs at '%s'",
         t.name.c_str(), t.diff(obj, o2).c_str());
  }
  t.destroy(o2);
}

static std::vector<Outcome> run_hostile(const EvalSpec& e) {
  std::vector<Outcome> out;
  EvalScope scope(&out);
  const TypeOps* tp = find_type(e.type);
  if (!tp) {
    fail("infra", "unknown-type", "type %s not registered", e.type.c_str());
    return out;
  }
  const TypeOps& t = *tp;
  Shared& s = stats();
  s.fault_generated[e.fault_kind]++;
  if (e.bytes.size() > s.max_input_len.load(std::memory_order_relaxed)) s.max_input_len = e.bytes.size();
  void* obj = t.create();
  ParseReport pr = do_parse(t, e.bytes, e.pres, obj);
  if (e.pres.limit >= 0 && pr.consumed > e.pres.limit)
    fail("overread", t.family + "/" + pres_site(e.pres), "%s: parser consumed %ld bytes although the enclosing limit is %d",
         t.name.c_str(), pr.consumed, e.pres.limit);
  if (pr.bad_backup) fail("stream-contract", t.family + "/backup", "%s: BackUp() beyond the last buffer", t.name.c_str());
  if (pr.terminated)
    fail("abort", "terminate@" + pr.escape_site, "%s: std::terminate() called inside the noexcept parse API (%s); %zu-byte input, %s", t.name.c_str(),
         pr.escape_msg.c_str(), e.bytes.size(), pres_class_name(pres_class(e.pres)));
  if (pr.runaway)
    fail("hang", "alloc-runaway@" + pr.escape_site, "%s: the parse of a %zu-byte input (%s) keeps allocating without consuming input (%s): it does not terminate",
         t.name.c_str(), e.bytes.size(), pres_class_name(pres_class(e.pres)), pr.escape_msg.c_str());
  if (pr.spin)
    fail("hang", "stream-spin@" + pr.escape_site, "%s: the parser keeps asking the exhausted stream for more data (%llu Next() calls for a %zu-byte input, %s) "
         "while making no progress: it does not terminate (and grows its result without bound)", t.name.c_str(),
         (unsigned long long)pr.next_calls, e.bytes.size(), pres_class_name(pres_class(e.pres)));
  if (pr.ok && !failed()) fixpoint(t, obj);
  long consumed = pr.consumed;
  if (consumed < 0 && !failed()) {
    // API presentations hide the stream: measure how far the same parse gets on a stream we own
    void* o2 = t.create();
    Pres p2;
    p2.kind = PK_CODED_ARRAY;
    consumed = do_parse(t, e.bytes, p2, o2).consumed;
    t.destroy(o2);
  }
  bool reached;
  switch (e.fault_kind) {
    case FK_TRUNC_ALL:
    case FK_TRUNC_DRAWN:
    case FK_NEXT_FAIL: reached = consumed >= e.fault_pos; break;
    case FK_RANDOM: reached = consumed > 0; break;
    default: reached = consumed > e.fault_pos; break;
  }
  size_t len = e.pres.limit >= 0 ? (size_t)e.pres.limit : e.bytes.size();
  int bucket = len ? (int)((size_t)e.fault_pos * N_POS_BUCKETS / (len + 1)) : 0;
  check_ub();
  uint64_t huge = huge_alloc_take();
  if (huge) {
    s.huge_alloc_count++;
    uint64_t m = s.huge_alloc_max.load(std::memory_order_relaxed);
    while (huge > m && !s.huge_alloc_max.compare_exchange_weak(m, huge)) {
    }
  }
  note_eval(t, e.pres, e.fault_kind, bucket, reached, false, pr.ok);
  t.destroy(obj);
  return out;
}

// ------------------------------------------------------------------------------------------------ oracle 1 core
static std::vector<Outcome> run_roundtrip(const EvalSpec& e) {
  std::vector<Outcome> out;
  EvalScope scope(&out);
  const TypeOps* tp = find_type(e.type);
  if (!tp) {
    fail("infra", "unknown-type", "type %s not registered", e.type.c_str());
    return out;
  }
  const TypeOps& t = *tp;
  const std::string& fam = t.family;
  int used_budget = e.budget;
  void* v = make_value(t, e.vseed, e.budget, &used_budget);
  Rng r(e.vseed ^ 0xabcdef);
  std::string s;
  do {
    // clause: predicted size == bytes produced
    size_t n = t.calc(v);
    if (!t.ser_string(v, s)) {
      fail("roundtrip", fam + "/serialize-failed", "%s: serialize_to_string returned false", t.name.c_str());
      break;
    }
    if (n != s.size()) {
      fail("size", fam + "/calculate_serialized_size", "%s: calculate_serialized_size=%zu but serialize_to_string produced %zu bytes",
           t.name.c_str(), n, s.size());
      break;
    }
    check_ub();
    if (failed()) break;
    // clause: the bytes do not depend on whether anybody asked for the size first: an
    // identical value built afresh (no size cache filled in yet) is serialized directly
    for (int how = 0; how < 2; how++) {
      // (not make_value(): that one measures the value to bound its size, which fills the caches)
      void* fresh = t.create();
      { Rng fr(e.vseed); t.gen(fr, fresh, used_budget, depth_for(used_budget)); }
      std::string s3;
      bool ok;
      if (how == 0) ok = t.ser_string(fresh, s3);
      else {
        ChunkedOutput co(0, r.next());
        { CodedOutputStream cos(&co); ok = t.ser_coded(fresh, cos); }
        co.flush();
        s3 = co.out;
      }
      t.destroy(fresh);
      if (!ok || s3 != s) {
        fail("roundtrip", fam + "/serialize-unsized", "%s: %s on a freshly built value whose size was never computed %s (%zu bytes, %zu after calculate_serialized_size)",
             t.name.c_str(), how == 0 ? "serialize_to_string" : "serialize_to_coded_stream", ok ? "produced different bytes" : "failed", s3.size(), s.size());
        break;
      }
    }
    if (failed()) break;
    // clause: serialization is a function of the value (second pass, cached sizes recomputed)
    {
      std::string s2;
      if (!t.ser_string(v, s2) || s2 != s) {
        fail("roundtrip", fam + "/serialize-unstable", "%s: serializing the same value twice gives different bytes", t.name.c_str());
        break;
      }
    }
    // clause: stream-backed output with small buffers produces the same bytes
    static const int ochunks[] = {1, 3, 0};
    for (int oc : ochunks) {
      ChunkedOutput co(oc, r.next());
      bool ok;
      {
        CodedOutputStream cos(&co);
        ok = t.ser_coded(v, cos);
      }
      co.flush();
      if (!ok || co.out != s || co.bad_backup) {
        fail("roundtrip", fam + "/serialize-stream", "%s: serialize_to_coded_stream over %d-byte buffers %s (%zu vs %zu bytes)",
             t.name.c_str(), oc, ok ? "produced different bytes" : "failed", co.out.size(), s.size());
        break;
      }
    }
    if (failed()) break;
    // clause: serialize_to_array_with_cached_size into an exactly sized buffer
    if (!s.empty()) {
      size_t n2 = t.calc(v);
      char* buf = static_cast<char*>(malloc(n2));
      bool ok = t.ser_array_cached(v, buf, n2);
      bool same = ok && n2 == s.size() && memcmp(buf, s.data(), n2) == 0;
      free(buf);
      if (!same) {
        fail("roundtrip", fam + "/serialize-array", "%s: serialize_to_array_with_cached_size %s", t.name.c_str(),
             ok ? "produced different bytes" : "failed");
        break;
      }
    }
    // (print_to_string is not part of the property statement and is deliberately not exercised here)
    check_ub();
    if (failed()) break;
    // clause: every presentation parses into a fresh object equal to the value, consuming exactly the encoding
    std::string trailing;
    std::vector<Pres> pres = roundtrip_presentations(r, s.size(), trailing);
    for (const Pres& p : pres) {
      std::string data = s;
      if (p.limit >= 0) data += garbage(r, s);
      void* o = t.create();
      size_t failures_before = failure_count();
      ParseReport pr = do_parse(t, data, p, o);
      std::string site = fam + "/" + pres_site(p);
      if (pr.terminated) {
        fail("abort", "terminate@" + pr.escape_site, "%s: std::terminate() called inside the noexcept parse API (%s) while parsing its own %zu-byte encoding, %s",
             t.name.c_str(), pr.escape_msg.c_str(), s.size(), pres_class_name(pres_class(p)));
      } else if (pr.spin || pr.runaway) {
        fail("hang", (pr.spin ? "stream-spin@" : "alloc-runaway@") + pr.escape_site, "%s: parser does not terminate on its own %zu-byte encoding, %s", t.name.c_str(),
             s.size(), pres_class_name(pres_class(p)));
      } else if (!pr.ok) {
        fail("roundtrip", site + "/parse-failed", "%s: parse of its own %zu-byte encoding failed (%s)", t.name.c_str(), s.size(),
             pres_class_name(pres_class(p)));
      } else if (!t.eq(v, o)) {
        fail("roundtrip", site + "/not-equal", "%s: parse(serialize(v)) != v (%s, %zu bytes); differs at '%s'", t.name.c_str(),
             pres_class_name(pres_class(p)), s.size(), t.diff(v, o).c_str());
      } else if (pr.consumed >= 0 && (size_t)pr.consumed != s.size()) {
        fail("roundtrip", site + "/position", "%s: parse consumed %ld of %zu bytes (%s)", t.name.c_str(), pr.consumed, s.size(),
             pres_class_name(pres_class(p)));
      }
      if (pr.bad_backup) fail("stream-contract", fam + "/backup", "%s: BackUp() beyond the last buffer", t.name.c_str());
      check_ub();
      // a failure under one presentation does not hide the others (a known finding must not mask the rest)
      note_eval(t, p, FK_NONE, 0, pr.ok && failure_count() == failures_before && !s.empty(), true, pr.ok);
      t.destroy(o);
    }
    if (t.extra) {
      t.extra(r, v, e.budget);
      check_ub();
    }
    // clause: serialization is a function of the value, not of what the object held when it was sized before.
    // The object v (sized and serialized above) is overwritten with a second value B; a fresh object w gets the same B.
    {
      uint64_t seed2 = e.vseed ^ 0x9e3779b97f4a7c15ull;
      int b2 = r.chance(1, 2) ? 0 : used_budget / 2;
      Rng ra(seed2), rb(seed2);
      void* w = t.create();
      t.gen(ra, v, b2, depth_for(b2));
      t.gen(rb, w, b2, depth_for(b2));
      std::string sv, sw;
      size_t nv = t.calc(v);
      bool okv = t.ser_string(v, sv);
      size_t nw = t.calc(w);
      bool okw = t.ser_string(w, sw);
      if (!okv || !okw) {
        fail("roundtrip", fam + "/reused-object/serialize-failed", "%s: serialize_to_string failed on a re-assigned object", t.name.c_str());
      } else if (nv != sv.size()) {
        fail("size", "reused-object", "%s: an object that was serialized before and then assigned a new value: calculate_serialized_size=%zu but %zu bytes "
             "produced (a fresh object with the same value: %zu bytes): %s", t.name.c_str(), nv, sv.size(), sw.size(), hex_encode(sv.substr(0, 64)).c_str());
      } else if (nw != sw.size() || sv.size() != sw.size()) {
        fail("size", "reused-object", "%s: re-assigned object encodes to %zu bytes, a fresh object with the same value to %zu (predicted %zu)",
             t.name.c_str(), sv.size(), sw.size(), nw);
      } else {
        void* o = t.create();
        Pres pa;
        pa.kind = PK_API_ARRAY;
        ParseReport pr = do_parse(t, sv, pa, o);
        if (!pr.ok) fail("roundtrip", fam + "/reused-object/parse-failed", "%s: encoding of a re-assigned object does not parse", t.name.c_str());
        else if (!t.eq(w, o)) fail("roundtrip", fam + "/reused-object/not-equal", "%s: encoding of a re-assigned object parses to a different value; differs at '%s'",
                                   t.name.c_str(), t.diff(w, o).c_str());
        note_eval(t, pa, FK_NONE, 0, pr.ok && !sv.empty(), true, pr.ok);
        t.destroy(o);
      }
      t.destroy(w);
      check_ub();
    }

  } while (false);
  check_ub();
  t.destroy(v);
  huge_alloc_take();
  return out;
}

std::vector<Outcome> run_spec(const EvalSpec& e) { return e.mode == 'R' ? run_roundtrip(e) : run_hostile(e); }

// hex of the encoding a spec is about (for R specs the value is regenerated), plus babylon's debug print of it
std::string describe_spec(const EvalSpec& e, std::string& printed) {
  const TypeOps* t = find_type(e.type);
  if (!t) return "";
  if (e.mode != 'R') return hex_encode(e.bytes);
  void* v = make_value(*t, e.vseed, e.budget);
  std::string s;
  t->ser_string(v, s);
  t->print(v, printed);
  t->destroy(v);
  ub_clear();
  return hex_encode(s);
}

// ------------------------------------------------------------------------------------------------ fault application
struct Faulted {
  std::string bytes;
  int pos = 0;
  std::string desc;
};

static size_t pick_offset(Rng& r, const std::vector<size_t>& cands, size_t len) {
  if (!cands.empty() && r.chance(3, 4)) return cands[r.below(cands.size())];
  return len ? r.below(len) : 0;
}
// replace the varint at `pos` (or a single byte when there is none) by `nv`
static std::string replace_varint(const std::string& b, size_t pos, uint64_t nv, uint64_t* old = nullptr) {
  uint64_t ov = 0;
  size_t n = get_varint(b, pos, ov);
  if (!n) {
    n = pos < b.size() ? 1 : 0;
    ov = pos < b.size() ? (unsigned char)b[pos] : 0;
  }
  if (old) *old = ov;
  std::string o = b.substr(0, pos);
  put_varint(o, nv);
  o += b.substr(pos + n);
  return o;
}

static void apply_fault(Rng& r, const TypeOps& t, const std::string& B, int kind, std::vector<Faulted>& out) {
  std::vector<size_t> tags, lens;
  if (kind == FK_INFLATE_LEN || kind == FK_HUGE_LEN || kind == FK_SWAP_WIRETYPE || kind == FK_SPLICE)
    walk_structure(B, 0, B.size(), 0, tags, lens);
  Faulted f;
  switch (kind) {
    case FK_FLIP: {
      if (B.empty()) return;
      f.bytes = B;
      int k = 1 + (int)r.below(3);
      size_t first = B.size();
      for (int i = 0; i < k; ++i) {
        size_t p = r.below(B.size());
        unsigned char c = (unsigned char)f.bytes[p];
        switch (r.below(4)) {
          case 0: c ^= (unsigned char)(1u << r.below(8)); break;
          case 1: c ^= 0x80; break;  // varint continuation bit
          case 2: c = (unsigned char)r.next(); break;
          default: c = (unsigned char)(r.chance(1, 2) ? 0xff : 0x00); break;
        }
        if (c == (unsigned char)B[p]) c ^= 1;
        f.bytes[p] = (char)c;
        first = std::min(first, p);
      }
      f.pos = (int)first;
      f.desc = sfmt("%d byte(s) changed, first at offset %zu", k, first);
      out.push_back(f);
      break;
    }
    case FK_INFLATE_LEN: {
      if (B.empty()) return;
      size_t p = pick_offset(r, lens, B.size());
      uint64_t ov = 0;
      get_varint(B, p, ov);
      uint64_t add;
      switch (r.below(4)) {
        case 0: add = 1; break;
        case 1: add = 2 + r.below(6); break;
        case 2: add = B.size() - p; break;  // just past the end of the enclosing data
        default: add = 1 + r.below(300); break;
      }
      f.bytes = replace_varint(B, p, ov + add);
      f.pos = (int)p;
      f.desc = sfmt("length varint at offset %zu: %llu -> %llu", p, (unsigned long long)ov, (unsigned long long)(ov + add));
      out.push_back(f);
      break;
    }
    case FK_HUGE_LEN: {
      if (B.empty()) return;
      size_t p = pick_offset(r, lens, B.size());
      uint64_t ov = 0;
      get_varint(B, p, ov);
      static const uint64_t huge[] = {0x7fffffffull, 0x80000000ull, 0xffffffffull, 0x7ffffff0ull, 0x100000000ull,
                                      0x8000000000000000ull, 0xffffffffffffffffull, 0x7fffffffffffffffull, 0x3fffffffull,
                                      0x10000000ull};
      uint64_t nv = huge[r.below(sizeof huge / sizeof huge[0])];
      if (nv == 0x100000000ull) nv += ov;  // wraps back to the original length when truncated to 32 bits
      f.bytes = replace_varint(B, p, nv);
      f.pos = (int)p;
      f.desc = sfmt("length varint at offset %zu: %llu -> %llu", p, (unsigned long long)ov, (unsigned long long)nv);
      if (r.chance(1, 5)) {
        // not a number at all: a varint that never ends within the 10 bytes a 64-bit value may take
        size_t n = get_varint(B, p, ov);
        if (!n) n = 1;
        f.bytes = B.substr(0, p) + std::string(10 + r.below(3), '\xff') + std::string(1, (char)r.below(128)) + B.substr(p + n);
        f.desc = sfmt("length varint at offset %zu replaced by an over-long (malformed) varint", p);
      }
      out.push_back(f);
      break;
    }
    case FK_SWAP_WIRETYPE: {
      if (B.empty()) return;
      size_t p = pick_offset(r, tags, B.size());
      uint64_t ov = 0;
      get_varint(B, p, ov);
      uint64_t w = r.below(8);
      if (w == (ov & 7)) w = (w + 1) & 7;
      uint64_t nv = (ov & ~7ull) | w;
      f.bytes = replace_varint(B, p, nv);
      f.pos = (int)p;
      f.desc = sfmt("tag at offset %zu: field %llu wire type %llu -> %llu", p, (unsigned long long)(ov >> 3),
                    (unsigned long long)(ov & 7), (unsigned long long)w);
      out.push_back(f);
      break;
    }
    case FK_DEEPEN: {
      static const int depths[] = {2, 3, 5, 8, 13, 20, 32, 64, 99, 100, 101, 150};
      int d = depths[r.below(sizeof depths / sizeof depths[0])];
      uint32_t field = !t.nest_fields.empty() && r.chance(4, 5) ? t.nest_fields[r.below(t.nest_fields.size())]
                                                                  : 1 + (uint32_t)r.below(30);
      std::string cur = B;
      size_t prefix = 0;
      for (int i = 0; i < d && cur.size() < 7000; ++i) {
        std::string w;
        put_varint(w, ((uint64_t)field << 3) | 2);
        put_varint(w, cur.size());
        prefix += w.size();
        cur = w + cur;
      }
      f.bytes = cur;
      f.pos = (int)prefix;
      f.desc = sfmt("wrapped in %d length-delimited layers of field %u", d, field);
      out.push_back(f);
      break;
    }
    case FK_SPLICE: {
      std::string nb = B;
      size_t p = B.empty() ? 0 : r.below(B.size());
      std::vector<Record> recs;
      int op = (int)r.below(4);
      if (op == 0 && !B.empty()) {  // delete a slice
        size_t n = 1 + r.below(std::min<size_t>(16, B.size() - p));
        nb.erase(p, n);
        f.desc = sfmt("%zu bytes deleted at offset %zu", n, p);
      } else if (op == 1 && !B.empty()) {  // duplicate a slice in place
        size_t n = 1 + r.below(std::min<size_t>(32, B.size() - p));
        nb.insert(p, B.substr(p, n));
        f.desc = sfmt("%zu bytes at offset %zu duplicated", n, p);
      } else if (op == 2 && split_records(B, 0, B.size(), recs) && !recs.empty()) {  // repeat a whole field
        const Record& rc = recs[r.below(recs.size())];
        p = rc.tag_pos;
        int times = 1 + (int)r.below(4);
        for (int i = 0; i < times; ++i) nb.insert(rc.end, B.substr(rc.tag_pos, rc.end - rc.tag_pos));
        f.desc = sfmt("field %u (record at offset %zu) repeated %d more times", rc.field, p, times);
      } else {  // insert random bytes
        size_t n = 1 + r.below(12);
        std::string ins;
        for (size_t i = 0; i < n; ++i) ins.push_back((char)r.next());
        nb.insert(p, ins);
        f.desc = sfmt("%zu random bytes inserted at offset %zu", n, p);
      }
      if (nb == B) return;
      f.bytes = nb;
      f.pos = (int)p;
      out.push_back(f);
      break;
    }
    case FK_RANDOM: {
      size_t n = r.below(65);
      int style = (int)r.below(4);
      for (size_t i = 0; i < n; ++i) {
        if (style == 3) f.bytes.push_back((char)(r.chance(1, 8) ? r.next() : 0xff));  // runs of continuation bytes
        else if (style == 0) f.bytes.push_back((char)r.next());
        else if (style == 1) f.bytes.push_back((char)(r.chance(1, 3) ? 0x80 | r.below(128) : r.below(128)));
        else f.bytes.push_back((char)(i % 3 == 0 ? ((1 + r.below(12)) << 3 | r.below(6)) : r.below(40)));
      }
      f.pos = 0;
      f.desc = sfmt("%zu random bytes (style %d)", n, style);
      out.push_back(f);
      break;
    }
    default: break;
  }
}

static Pres draw_pres(Rng& r, bool force_stream) {
  Pres p;
  uint64_t k = force_stream ? 99 : r.below(100);
  if (k < 22) p.kind = PK_CODED_ARRAY;
  else if (k < 32) p.kind = PK_API_ARRAY;
  else if (k < 42) p.kind = PK_API_STRING;
  else {
    p.kind = PK_STREAM;
    static const int chunks[] = {1, 2, 3, 7, 0, 0};
    p.chunk = chunks[r.below(6)];
    p.chunk_seed = r.next();
    p.zero_chunks = p.chunk == 0 && r.chance(1, 3);
  }
  return p;
}

// ------------------------------------------------------------------------------------------------ case generation
void run_case(uint64_t seed, uint64_t index, const ViolationSink& sink, std::vector<EvalSpec>* dry) {
  Rng r(mix(seed, index));
  auto& reg = registry();
  // the field-numbered structs carry the protobuf differential: give them a fixed share of the cases
  size_t ti = r.below(reg.size());
  uint64_t share = r.below(100);
  if (share < 8 && type_index("CompatObj") >= 0) ti = (size_t)type_index("CompatObj");
  else if (share < 11 && type_index("CompatSub") >= 0) ti = (size_t)type_index("CompatSub");
  const TypeOps& t = reg[ti];
  static const int bq[] = {0, 1, 1, 2, 2, 3, 4, 4, 6, 8, 12, 16, 24, 32, 48, 64};
  int budget = bq[r.below(env().thorough ? 16 : 12)];
  uint64_t vseed = r.next();
  auto emit = [&](const EvalSpec& e) {
    if (dry) {
      dry->push_back(e);
      return;
    }
    publish(e);
    for (auto& o : run_spec(e)) sink(e, o);
  };
  EvalSpec rs;
  rs.mode = 'R';
  rs.type = t.name;
  rs.vseed = vseed;
  rs.budget = budget;
  if (!dry) stats().cases++;
  if (r.chance(1, 5)) {
    emit(rs);
    return;
  }
  // ---- oracle 2: a valid encoding as the base of the faults ----
  std::string B;
  bool base_suspicious = false;
  {
    if (!dry) publish(rs);
    std::vector<Outcome> os;
    EvalScope scope(&os);
    void* v = make_value(t, vseed, budget);
    size_t predicted = t.calc(v);
    t.ser_string(v, B);
    // cheap oracle-1 probe on every oracle-2 base (size + flat parse-back); a miss triggers the full clause set below
    if (!dry) {
      void* o = t.create();
      Pres pa;
      pa.kind = PK_API_ARRAY;
      ParseReport pr = do_parse(t, B, pa, o);
      base_suspicious = predicted != B.size() || !pr.ok || !t.eq(v, o);
      note_eval(t, pa, FK_NONE, 0, pr.ok && !base_suspicious && !B.empty(), true, pr.ok);
      t.destroy(o);
    }
    t.destroy(v);
    if (t.alt_encoding && r.chance(1, 2)) {
      Rng r2(vseed ^ 0x517e);
      std::string alt;
      if (t.alt_encoding(r2, budget, alt) && alt.size() <= 4096) B = alt;
    }
    check_ub();  // UB while serializing a valid value is an oracle-1 matter: report it against the R spec
    if (sink)
      for (auto& o : os) sink(rs, o);
    huge_alloc_take();
  }
  if (base_suspicious) emit(rs);
  int variants = 3;
  for (int vi = 0; vi < variants; ++vi) {
    static const int weights[N_FAULT_KINDS] = {0, 9, 9, 15, 12, 12, 10, 6, 8, 10, 7};
    int total = 0;
    for (int w : weights) total += w;
    int pick = (int)r.below((uint64_t)total), kind = 1;
    for (int k = 0; k < N_FAULT_KINDS; ++k) {
      if (pick < weights[k]) {
        kind = k;
        break;
      }
      pick -= weights[k];
    }
    if (kind == FK_TRUNC_ALL || kind == FK_TRUNC_DRAWN) kind = B.size() <= 256 ? FK_TRUNC_ALL : FK_TRUNC_DRAWN;
    EvalSpec e;
    e.mode = 'H';
    e.type = t.name;
    e.fault_kind = kind;
    if (kind == FK_TRUNC_ALL || kind == FK_TRUNC_DRAWN) {
      if (B.empty()) continue;
      Pres p = draw_pres(r, false);
      bool by_limit = (p.kind == PK_CODED_ARRAY || p.kind == PK_STREAM) && r.chance(2, 5);
      std::vector<size_t> cuts;
      if (kind == FK_TRUNC_ALL) {
        for (size_t L = 0; L < B.size(); ++L) cuts.push_back(L);
      } else {
        for (int i = 0; i < 8; ++i) cuts.push_back(r.below(B.size()));
      }
      for (size_t L : cuts) {
        e.pres = p;
        e.fault_pos = (int)L;
        if (by_limit) {  // the enclosing limit ends the input; the rest of the encoding lies behind it
          e.bytes = B;
          e.pres.limit = (int)L;
          e.fault_desc = sfmt("enclosing limit cuts the %zu-byte encoding at %zu", B.size(), L);
        } else {
          e.bytes = B.substr(0, L);
          e.fault_desc = sfmt("%zu-byte encoding truncated to %zu bytes", B.size(), L);
        }
        emit(e);
      }
      if (kind == FK_TRUNC_ALL && !dry) stats().exhaustive_trunc_encodings++;
      continue;
    }
    if (kind == FK_NEXT_FAIL) {
      if (B.empty()) continue;
      e.pres = draw_pres(r, true);
      e.bytes = B;
      e.fault_pos = (int)r.below(B.size());
      e.pres.fail_at = e.fault_pos;
      if (r.chance(2, 5)) e.pres.limit = (int)B.size();
      e.fault_desc = sfmt("Next() fails after %d of %zu bytes", e.fault_pos, B.size());
      emit(e);
      continue;
    }
    std::vector<Faulted> fs;
    apply_fault(r, t, B, kind, fs);
    for (auto& f : fs) {
      if (f.bytes.size() > 8192) continue;
      e.pres = draw_pres(r, false);
      e.bytes = f.bytes;
      e.fault_pos = f.pos;
      e.fault_desc = f.desc;
      if ((e.pres.kind == PK_CODED_ARRAY || e.pres.kind == PK_STREAM) && r.chance(2, 5)) {
        e.pres.limit = (int)e.bytes.size();
        e.bytes += garbage(r, B);
      }
      emit(e);
    }
  }
}

}  // namespace vs
