// Oracle engine: executes evaluation specs, generates cases from (seed, index).
#pragma once
#include <functional>
#include <string>
#include <vector>

#include "common.h"
#include "ops.h"

namespace vs {

// ---- violation reporting (first one per evaluation wins) ----
void fail(const char* cls, const std::string& site, const char* fmt, ...) __attribute__((format(printf, 3, 4)));
bool failed();

// ---- hooks set by the worker ----
struct EngineEnv {
  Shared* shared = nullptr;  // statistics (may be null: a private dummy is used)
  Slot* slot = nullptr;      // where the spec about to run is published (may be null)
  bool thorough = false;
  // when set, UBSan findings are handed over the moment they are noticed (with the spec that was running) instead of
  // being appended to the evaluation's outcomes: they then survive a later death of the process
  std::function<void(const EvalSpec&, const Outcome&)> ub_sink;
};
EngineEnv& env();
Shared& stats();

// UBSan report hook state (guard.cc)
bool ub_take(std::string& site, std::string& msg);
void ub_clear();
void alloc_guard_reset(bool armed);  // start of an evaluation: reset the cumulative allocation guard
void alloc_guard_parse_begin();       // start of a guarded parse: reset the request counter
uint64_t huge_alloc_take();  // largest request > HUGE_ALLOC seen since the last call (0 if none)

// Publish the evaluation about to be executed (shared slot), bump the watchdog counter.
void publish(const EvalSpec& e);

// Execute one evaluation spec; returns its outcomes (empty = held): at most one oracle failure plus UBSan reports.
std::vector<Outcome> run_spec(const EvalSpec& e);

// Generate and execute every evaluation of case `index`; each violation is delivered with the spec that produced it.
// `sample` (optional) receives the specs without executing them when dry == true.
using ViolationSink = std::function<void(const EvalSpec&, const Outcome&)>;
void run_case(uint64_t seed, uint64_t index, const ViolationSink& sink, std::vector<EvalSpec>* dry_specs = nullptr);

// helpers shared with the registration units (protobuf differential)
struct ParseReport {
  bool ok = false;
  long consumed = -1;  // CodedInputStream position after the parse (-1: not observable)
  bool bad_backup = false;
  bool spin = false;        // the parser kept pulling on the exhausted stream: cut off by the stream (non-termination)
  bool runaway = false;     // runaway allocation without progress (non-termination), cut off by the allocation guard
  bool terminated = false;  // std::terminate() was called inside the parse (exception escaping the noexcept API)
  std::string escape_site, escape_msg;
  uint64_t next_calls = 0;
  size_t high_water = 0;
};
ParseReport do_parse(const TypeOps& t, const std::string& bytes, const Pres& pres, void* obj);
void note_eval(const TypeOps& t, const Pres& pres, int fault_kind, int bucket, bool reached, bool roundtrip,
               bool parse_ok);
std::vector<Pres> roundtrip_presentations(Rng& r, size_t len, std::string& trailing);

}  // namespace vs
