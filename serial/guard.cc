// Sanitizer configuration, UBSan report hook and the large-allocation guard.
//
// * ASan errors are fatal: the process exits with code 77 and the parent classifies the death as class `memory`
//   (the first lines of the report, read from the worker's stderr file, become site and message).
// * UBSan reports are NOT fatal (halt_on_error=0): __ubsan_on_report() records the report, the engine turns it into
//   a violation of class `ub` for the evaluation that was running. This keeps a worker alive across a benign-but-real
//   UB that every second value would otherwise hit. Caveat: UBSan reports each source location once per process, so
//   workers are recycled regularly and findings are always confirmed in fresh processes.
// * Allocation guard (decision): operator new is replaced. Requests above HUGE_ALLOC (256 MiB) are served from
//   untouched MAP_NORESERVE memory and recorded as a probe (`huge_alloc_*` in the evidence); they are not a violation
//   by themselves because the property statement only forbids reading outside the input and corrupting memory.
//   Everything else goes to malloc/free, i.e. stays under ASan (redzones, use-after-free, double free).
#include <cxxabi.h>
#include <dlfcn.h>
#include <execinfo.h>
#include <sys/mman.h>
#include <unistd.h>

#include <cstddef>
#include <cstdint>
#include <cstdio>
#include <cstdlib>
#include <cstring>
#include <exception>
#include <new>
#include <typeinfo>
#include <unordered_map>
#include <string>

#include "common.h"
#include "stream.h"

extern "C" {
__attribute__((used, noinline)) const char* __asan_default_options() {
  return "exitcode=77:detect_leaks=0:abort_on_error=0:allocator_may_return_null=1:detect_stack_use_after_return=0:"
         "max_allocation_size_mb=1024:handle_abort=1:print_legend=0:malloc_context_size=8:symbolize=0:fast_unwind_on_malloc=1";
}
__attribute__((used, noinline)) const char* __ubsan_default_options() {
  return "halt_on_error=0:exitcode=77:print_stacktrace=0:symbolize=0";
}
void __ubsan_get_current_report_data(const char** kind, const char** msg, const char** file, unsigned* line,
                                     unsigned* col, char** addr);
}

namespace {
// UBSan reports each source location once per process, so none may be dropped: queue them
struct UbReport {
  char site[400];
  char msg[700];
};
constexpr int UB_QUEUE = 16;
UbReport g_ub_queue[UB_QUEUE];
int g_ub_count = 0;
uint64_t g_huge_max = 0;

const char* base_name(const char* p) {
  const char* s = strrchr(p, '/');
  return s ? s + 1 : p;
}
// Frames of the current stack that are babylon functions, innermost first, as short names. No symbolizer process:
// dladdr on the (rdynamic) executable + demangling; inlined callees are attributed to their caller.
int babylon_frames(std::string* out, int max, bool detail = false) {
  void* bt[64];
  int n = backtrace(bt, 64), k = 0;
  bool dbg = getenv("VERIF_SERIAL_DEBUG") != nullptr;
  for (int i = 0; i < n && k < max; ++i) {
    // return addresses: look up the call instruction, not what follows it (a noreturn call may end the function)
    void* pc = i > 0 ? static_cast<char*>(bt[i]) - 1 : bt[i];
    static std::unordered_map<void*, std::string>* cache = new std::unordered_map<void*, std::string>();  // dladdr is slow
    auto it = cache->find(pc);
    if (it == cache->end()) {
      Dl_info info;
      std::string nm;
      if (dladdr(pc, &info) && info.dli_sname) {
        int st = 0;
        char* dm = abi::__cxa_demangle(info.dli_sname, nullptr, nullptr, &st);
        nm = dm ? dm : info.dli_sname;
        free(dm);
      }
      it = cache->emplace(pc, nm).first;
    }
    const std::string& name = it->second;
    if (name.empty()) {
      if (dbg) fprintf(stderr, "frame %d: %p unresolved\n", i, bt[i]);
      continue;
    }
    if (dbg) fprintf(stderr, "frame %d: %s\n", i, name.c_str());
    if (vs::is_babylon_function(name)) out[k++] = vs::short_function(name, detail);
  }
  return k;
}
}  // namespace

extern "C" __attribute__((used)) void __ubsan_on_report(void) {
  const char *kind = "", *msg = "", *file = "";
  unsigned line = 0, col = 0;
  char* addr = nullptr;
  __ubsan_get_current_report_data(&kind, &msg, &file, &line, &col, &addr);
  if (g_ub_count >= UB_QUEUE) return;
  UbReport& slot = g_ub_queue[g_ub_count];
  // site = check kind @ innermost babylon function on the stack, falling back to the reported source file
  std::string fr[1];
  std::string where = babylon_frames(fr, 1) ? fr[0] : std::string(base_name(file));
  // an out-of-range enum value is created by the (unchecked) cast at parse time; UBSan only notices it wherever the
  // value is loaded next, which is incidental: one site for all of them
  if (!strcmp(kind, "invalid-enum-load")) snprintf(slot.site, sizeof slot.site, "%s", kind);
  else snprintf(slot.site, sizeof slot.site, "%s@%s", kind, where.c_str());
  snprintf(slot.msg, sizeof slot.msg, "UBSan: %s (%s:%u)", msg, base_name(file), line);
  ++g_ub_count;
}

namespace vs {
void compute_spin_site() {
  std::string fr[16];
  int n = babylon_frames(fr, 16);
  std::string where;
  for (int i = 0; i < n && where.empty(); ++i)  // the loop lives in a container trait, not in the leaf helpers
    if (fr[i].rfind("SerializeTraits<", 0) == 0 && fr[i].find("::deserialize") != std::string::npos) where = fr[i];
  if (where.empty() && n) where = fr[0];
  snprintf(g_escape_site, 256, "%s", where.empty() ? "unknown" : where.c_str());
}

// std::terminate inside the parse API: describe the exception, then leave through the escape hatch of do_parse.
static void verif_terminate() {
  if (!g_escape_armed) {
    static const char m[] = "VERIF: std::terminate outside a guarded parse\n";
    (void)!write(2, m, sizeof m - 1);
    abort();
  }
  std::string what = "no active exception";
  if (std::exception_ptr ep = std::current_exception()) {
    try {
      std::rethrow_exception(ep);
    } catch (const std::exception& e) {
      int st = 0;
      char* dm = abi::__cxa_demangle(typeid(e).name(), nullptr, nullptr, &st);
      what = std::string("uncaught ") + (dm ? dm : typeid(e).name()) + ": " + e.what();
      free(dm);
    } catch (...) {
      what = "uncaught exception of unknown type";
    }
  }
  std::string fr[1];
  snprintf(g_escape_site, 256, "%s", babylon_frames(fr, 1, true) ? fr[0].c_str() : "unknown");
  snprintf(g_escape_msg, 512, "%s", what.c_str());
  siglongjmp(g_escape_jmp, 2);
}
static struct InstallTerminate {
  InstallTerminate() { std::set_terminate(verif_terminate); }
} g_install_terminate;
bool ub_take(std::string& site, std::string& msg) {
  if (g_ub_count == 0) return false;
  site = g_ub_queue[0].site;
  msg = g_ub_queue[0].msg;
  for (int i = 1; i < g_ub_count; ++i) g_ub_queue[i - 1] = g_ub_queue[i];
  --g_ub_count;
  return true;
}
void ub_clear() { g_ub_count = 0; }
void alloc_guard_reset(bool armed);
uint64_t huge_alloc_take() {
  uint64_t m = g_huge_max;
  g_huge_max = 0;
  return m;
}
}  // namespace vs

// ------------------------------------------------------------------------------------------------ operator new
namespace {
constexpr size_t HUGE_ALLOC = 256ull << 20;
struct HugeBlock {
  void* p;
  size_t n;
};
HugeBlock g_huge[32];
int g_huge_active = 0;

void* huge_alloc(size_t n) {
  if (n > g_huge_max) g_huge_max = n;
  if (getenv("VERIF_SERIAL_DEBUG")) fprintf(stderr, "huge allocation request: %zu bytes\n", n);
  if (n > (1ull << 46)) return nullptr;
  void* p = mmap(nullptr, n, PROT_READ | PROT_WRITE, MAP_PRIVATE | MAP_ANONYMOUS | MAP_NORESERVE, -1, 0);
  if (p == MAP_FAILED) return nullptr;
  for (auto& b : g_huge)
    if (!b.p) {
      b.p = p;
      b.n = n;
      ++g_huge_active;
      return p;
    }
  munmap(p, n);
  return nullptr;
}
bool huge_free(void* p) {
  for (auto& b : g_huge)
    if (b.p == p) {
      munmap(b.p, b.n);
      b.p = nullptr;
      --g_huge_active;
      return true;
    }
  return false;
}
// Non-terminating parses that do not pull on the stream (e.g. a loop that appends elements without consuming input)
// show up as runaway allocation: more than RUNAWAY bytes requested through operator new (huge single requests
// excluded) within ONE evaluation. A value built from an input of <= 8 KiB needs at most a few MiB (one object of a
// few hundred bytes per input byte, geometric container growth at most doubles the total), so 48 MiB is far beyond
// any terminating parse (both counters restart with every guarded parse). When a guarded parse is running the evaluation is left through the escape hatch of do_parse
// (class `hang`); otherwise the process exits with code 79.
// The same goes for the NUMBER of requests within one guarded parse (a loop that allocates and frees a node per
// iteration): a parse of <= 8 KiB needs a few allocations per input byte; 400000 is more than ten times that.
constexpr uint64_t RUNAWAY = 48ull << 20;
constexpr uint64_t RUNAWAY_CALLS = 400000;
// A single large request (>= 1 MiB) is what a reserve() computed from an
// attacker-supplied length prefix looks like: bounded, happens a handful of
// times per parse, and is not non-termination (the statement does not forbid
// large allocations). Such requests are tallied separately and only count as
// runaway when they add up to more than any terminating parse could ask for.
constexpr uint64_t LARGE_REQUEST = 1ull << 20;
constexpr uint64_t RUNAWAY_LARGE = 6ull << 30;
uint64_t g_cum_large = 0;
uint64_t g_cum_alloc = 0;
uint64_t g_parse_calls = 0;
bool g_cum_armed = false;
void* do_new(size_t n, size_t align, bool nothrow) {
  void* p;
  if (g_cum_armed && n <= HUGE_ALLOC &&
      ((n >= LARGE_REQUEST ? (g_cum_large += n) > RUNAWAY_LARGE : (g_cum_alloc += n) > RUNAWAY) ||
       (vs::g_escape_armed && ++g_parse_calls > RUNAWAY_CALLS))) {
    g_cum_armed = false;
    if (vs::g_escape_armed) {
      vs::compute_spin_site();
      snprintf(vs::g_escape_msg, sizeof vs::g_escape_msg, "%llu MiB in %llu requests through operator new so far", (unsigned long long)((g_cum_alloc + g_cum_large) >> 20),
               (unsigned long long)g_parse_calls);
      siglongjmp(vs::g_escape_jmp, 3);
    }
    static const char m[] = "VERIF-ALLOC-RUNAWAY: too much memory requested during one evaluation\n";
    (void)!write(2, m, sizeof m - 1);
    _exit(79);
  }
  if (n > HUGE_ALLOC) p = huge_alloc(n);
  else if (align > alignof(std::max_align_t)) p = aligned_alloc(align, (n + align - 1) / align * align);
  else p = malloc(n ? n : 1);
  if (!p && !nothrow) {
    // what a real out-of-memory does to a noexcept parser: std::terminate. Make it recognisable.
    fprintf(stderr, "VERIF-ALLOC-FAILED size=%zu\n", n);
    throw std::bad_alloc();
  }
  return p;
}
void do_delete(void* p) {
  if (!p) return;
  if (g_huge_active && huge_free(p)) return;
  free(p);
}
}  // namespace

void* operator new(size_t n) { return do_new(n, 0, false); }
void* operator new[](size_t n) { return do_new(n, 0, false); }
void* operator new(size_t n, const std::nothrow_t&) noexcept { return do_new(n, 0, true); }
void* operator new[](size_t n, const std::nothrow_t&) noexcept { return do_new(n, 0, true); }
void* operator new(size_t n, std::align_val_t a) { return do_new(n, (size_t)a, false); }
void* operator new[](size_t n, std::align_val_t a) { return do_new(n, (size_t)a, false); }
void* operator new(size_t n, std::align_val_t a, const std::nothrow_t&) noexcept { return do_new(n, (size_t)a, true); }
void* operator new[](size_t n, std::align_val_t a, const std::nothrow_t&) noexcept { return do_new(n, (size_t)a, true); }
void operator delete(void* p) noexcept { do_delete(p); }
void operator delete[](void* p) noexcept { do_delete(p); }
void operator delete(void* p, size_t) noexcept { do_delete(p); }
void operator delete[](void* p, size_t) noexcept { do_delete(p); }
void operator delete(void* p, const std::nothrow_t&) noexcept { do_delete(p); }
void operator delete[](void* p, const std::nothrow_t&) noexcept { do_delete(p); }
void operator delete(void* p, std::align_val_t) noexcept { do_delete(p); }
void operator delete[](void* p, std::align_val_t) noexcept { do_delete(p); }
void operator delete(void* p, size_t, std::align_val_t) noexcept { do_delete(p); }
void operator delete[](void* p, size_t, std::align_val_t) noexcept { do_delete(p); }
void operator delete(void* p, std::align_val_t, const std::nothrow_t&) noexcept { do_delete(p); }
void operator delete[](void* p, std::align_val_t, const std::nothrow_t&) noexcept { do_delete(p); }

namespace vs {
void alloc_guard_reset(bool armed) {
  g_cum_alloc = 0;
  g_cum_large = 0;
  g_parse_calls = 0;
  g_cum_armed = armed;
}
void alloc_guard_parse_begin() {
  g_parse_calls = 0;
  g_cum_alloc = 0;
  g_cum_large = 0;
  g_cum_armed = true;
}
}  // namespace vs
