// C11 stream-fault harness: driver (pool of long-lived workers, gate, minimiser, replay, evidence).
//
//   serial_{ndebug,debug} --property C11 --tier quick|thorough --seconds N --seed S --jobs J --evidence <path>
//                         --replay-dir <dir> [--known "class|site|description"]...
//   serial_{ndebug,debug} --replay <file>
//   dev: --cases N (fixed number of case indices), --all (collect every distinct signature), --one I (run case I here)
// exit 0 held / 1 VIOLATION (gated, minimised, replay written) / 2 infrastructure error
#include <fcntl.h>
#include <poll.h>
#include <signal.h>
#include <sys/mman.h>
#include <sys/prctl.h>
#include <sys/resource.h>
#include <sys/stat.h>
#include <sys/time.h>
#include <sys/wait.h>
#include <unistd.h>

#include <algorithm>
#include <cerrno>
#include <cstdio>
#include <cstdlib>
#include <cstring>
#include <map>
#include <set>
#include <string>
#include <vector>

#include <google/protobuf/stubs/logging.h>

#include "common.h"
#include "engine.h"
#include "ops.h"

#ifndef VERIF_VARIANT
#define VERIF_VARIANT "unknown"
#endif

using namespace vs;

namespace vs {
std::string describe_spec(const EvalSpec& e, std::string& printed);
}

static double now_s() {
  struct timeval tv;
  gettimeofday(&tv, nullptr);
  return tv.tv_sec + tv.tv_usec * 1e-6;
}
static std::string json_escape(const std::string& s) {
  std::string o;
  for (unsigned char c : s) {
    if (c == '"' || c == '\\') {
      o.push_back('\\');
      o.push_back((char)c);
    } else if (c == '\n') o += "\\n";
    else if (c == '\t') o += "\\t";
    else if (c < 0x20 || c >= 0x7f) o += sfmt("\\u%04x", c);
    else o.push_back((char)c);
  }
  return o;
}
static std::string one_line(std::string s) {
  for (auto& c : s)
    if (c == '\n' || c == '\t' || c == '\r') c = ' ';
  return s;
}
static void finalize_registry() {
  auto& r = registry();
  std::sort(r.begin(), r.end(), [](const TypeOps& a, const TypeOps& b) { return a.name < b.name; });
  if (r.size() > (size_t)MAX_TYPES) {
    fprintf(stderr, "INFRA too many types\n");
    exit(2);
  }
}

// ================================================================================================ worker side
static int worker_main(int shm_fd, int slot_idx, uint64_t seed, bool thorough) {
  // backstops independent of the parent's watchdog: die with the parent, and never burn more than 15 CPU minutes
  // (a worker is recycled after 3000 cases, far less than that)
  prctl(PR_SET_PDEATHSIG, SIGKILL);
  struct rlimit rl = {900, 900};
  setrlimit(RLIMIT_CPU, &rl);
  Shared* sh = nullptr;
  if (shm_fd >= 0) {
    void* p = mmap(nullptr, sizeof(Shared), PROT_READ | PROT_WRITE, MAP_SHARED, shm_fd, 0);
    if (p == MAP_FAILED) return 2;
    sh = static_cast<Shared*>(p);
  }
  env().shared = sh;
  env().slot = sh ? &sh->slots[slot_idx] : nullptr;
  env().thorough = thorough;
  ::google::protobuf::SetLogHandler(nullptr);  // protobuf parse errors on hostile input are expected; keep stderr for sanitizers
  static bool in_run = false;
  env().ub_sink = [](const EvalSpec& e, const Outcome& o) {
    if (in_run) printf("V %llu %s|%s|%s\t%s\n", (unsigned long long)(env().slot ? env().slot->cur_index.load() : 0), o.cls.c_str(), o.site.c_str(),
                       one_line(o.msg).c_str(), spec_to_text(e).c_str());
    else printf("UB %s|%s|%s\n", o.cls.c_str(), o.site.c_str(), one_line(o.msg).c_str());
    fflush(stdout);
  };
  char* line = nullptr;
  size_t cap = 0;
  ssize_t n;
  while ((n = getline(&line, &cap, stdin)) > 0) {
    std::string cmd(line, (size_t)n);
    while (!cmd.empty() && (cmd.back() == '\n' || cmd.back() == '\r')) cmd.pop_back();
    if (cmd == "QUIT") break;
    if (cmd.rfind("RUN ", 0) == 0) {
      unsigned long long start = 0, count = 0;
      sscanf(cmd.c_str() + 4, "%llu %llu", &start, &count);
      in_run = true;
      for (uint64_t i = start; i < start + count; ++i) {
        if (env().slot) env().slot->cur_index.store(i, std::memory_order_relaxed);
        run_case(seed, i, [&](const EvalSpec& e, const Outcome& o) {
          printf("V %llu %s|%s|%s\t%s\n", (unsigned long long)i, o.cls.c_str(), o.site.c_str(), one_line(o.msg).c_str(),
                 spec_to_text(e).c_str());
          fflush(stdout);
        });
      }
      in_run = false;
      printf("DONE %llu %llu\n", start, count);
      fflush(stdout);
    } else if (cmd.rfind("EVAL ", 0) == 0) {
      EvalSpec e;
      if (!spec_from_text(cmd.substr(5), e)) {
        printf("RES infra|bad-spec|cannot parse spec\n");
      } else {
        publish(e);
        std::vector<Outcome> os = run_spec(e);
        if (os.empty()) printf("RES ok\n");
        else {
          printf("RES ");
          for (size_t k = 0; k < os.size(); ++k)
            printf("%s%s|%s|%s", k ? "\x1f" : "", os[k].cls.c_str(), os[k].site.c_str(), one_line(os[k].msg).c_str());
          printf("\n");
        }
      }
      fflush(stdout);
    } else if (cmd.rfind("SAMPLE ", 0) == 0) {
      unsigned long long start = 0, count = 0;
      sscanf(cmd.c_str() + 7, "%llu %llu", &start, &count);
      for (uint64_t i = start; i < start + count; ++i) {
        std::vector<EvalSpec> specs;
        run_case(seed, i, nullptr, &specs);
        ub_clear();
        if (!specs.empty()) {
          const EvalSpec& e = specs[specs.size() / 2];
          std::string printed, hex;
          if (e.mode == 'R') hex = describe_spec(e, printed);
          printf("S %llu %zu %s\t%s\t%s\n", (unsigned long long)i, specs.size(), one_line(e.fault_desc).c_str(), spec_to_text(e).c_str(),
                 hex.c_str());
        }
      }
      printf("DONE %llu %llu\n", start, count);
      fflush(stdout);
    } else if (cmd.rfind("DESCRIBE ", 0) == 0) {
      EvalSpec e;
      std::string printed, hex;
      if (spec_from_text(cmd.substr(9), e)) hex = describe_spec(e, printed);
      printf("D %s\t%s\n", hex.empty() ? "-" : hex.c_str(), one_line(printed).c_str());
      fflush(stdout);
    }
  }
  free(line);
  return 0;
}

// ================================================================================================ parent side
struct Options {
  std::string property = "C11", tier = "quick", evidence, replay_dir = "/verif/replays", replay;
  double seconds = -1;
  uint64_t seed = 1;
  int jobs = 8;
  long cases = -1;
  bool all = false;
  long one = -1;
  std::vector<std::string> known;  // "class|site|description"
};

static double g_cpu_bound = 20.0;  // CPU seconds one evaluation may take before it is declared hung
static const Outcome* find_sig(const std::vector<Outcome>& v, const std::string& sig) {
  for (auto& o : v)
    if (o.sig() == sig) return &o;
  return nullptr;
}
static std::string sigs_of(const std::vector<Outcome>& v) {
  if (v.empty()) return "ok";
  std::string s;
  for (auto& o : v) s += (s.empty() ? "" : " + ") + o.sig();
  return s;
}
static Shared* g_sh = nullptr;
static int g_shm_fd = -1;
static std::string g_self;
static Options g_opt;

struct Worker {
  pid_t pid = -1;
  int to_fd = -1, from_fd = -1;
  int slot = 0;
  std::string errfile, rbuf;
  bool busy = false;
  uint64_t batch_start = 0, batch_count = 0;
  uint64_t last_progress = 0;
  double cpu_on_same = 0, last_cpu = 0, wall_on_same = 0, last_poll = 0;
  uint64_t cases_since_spawn = 0;
  bool killed_by_watchdog = false;
};

static std::string read_file(const std::string& path, size_t max) {
  std::string s;
  FILE* f = fopen(path.c_str(), "rb");
  if (!f) return s;
  char buf[4096];
  size_t n;
  while (s.size() < max && (n = fread(buf, 1, sizeof buf, f)) > 0) s.append(buf, n);
  fclose(f);
  return s;
}

static bool spawn_worker(Worker& w, int slot) {
  int to[2], from[2];
  if (pipe(to) || pipe(from)) return false;
  w.slot = slot;
  w.errfile = sfmt("/tmp/serial.%d.w%d.err", (int)getpid(), slot);
  if (g_sh) {
    g_sh->slots[slot].spec_len = 0;
    g_sh->slots[slot].progress = 0;
  }
  pid_t pid = fork();
  if (pid < 0) return false;
  if (pid == 0) {
    dup2(to[0], 0);
    dup2(from[1], 1);
    int efd = open(w.errfile.c_str(), O_WRONLY | O_CREAT | O_TRUNC, 0644);
    if (efd >= 0) dup2(efd, 2);
    close(to[0]);
    close(to[1]);
    close(from[0]);
    close(from[1]);
    std::string fd = std::to_string(g_shm_fd), sl = std::to_string(slot), sd = std::to_string(g_opt.seed);
    execl("/proc/self/exe", g_self.c_str(), "--worker", "--shm-fd", fd.c_str(), "--slot", sl.c_str(), "--seed", sd.c_str(), "--tier",
          g_opt.tier.c_str(), (char*)nullptr);
    _exit(2);
  }
  close(to[0]);
  close(from[1]);
  w.pid = pid;
  w.to_fd = to[1];
  w.from_fd = from[0];
  fcntl(w.from_fd, F_SETFL, O_NONBLOCK);
  w.rbuf.clear();
  w.busy = false;
  w.last_progress = 0;
  w.cpu_on_same = w.wall_on_same = 0;
  w.last_cpu = 0;
  w.last_poll = now_s();
  w.cases_since_spawn = 0;
  w.killed_by_watchdog = false;
  return true;
}
static void send_line(Worker& w, const std::string& s) {
  std::string l = s + "\n";
  size_t off = 0;
  while (off < l.size()) {
    ssize_t n = write(w.to_fd, l.data() + off, l.size() - off);
    if (n <= 0) {
      if (errno == EINTR) continue;
      break;
    }
    off += (size_t)n;
  }
}
static void close_worker(Worker& w) {
  if (w.to_fd >= 0) close(w.to_fd);
  if (w.from_fd >= 0) close(w.from_fd);
  w.to_fd = w.from_fd = -1;
  w.pid = -1;
  if (!w.errfile.empty()) unlink(w.errfile.c_str());
}
static double proc_cpu_seconds(pid_t pid) {
  std::string s = read_file(sfmt("/proc/%d/stat", (int)pid), 4096);
  size_t rp = s.rfind(')');
  if (rp == std::string::npos) return 0;
  unsigned long long ut = 0, st = 0;
  // fields after ')': state(3) ... utime is field 14, stime field 15
  int field = 2;
  size_t i = rp + 1;
  while (i < s.size() && field < 13) {
    while (i < s.size() && s[i] == ' ') ++i;
    while (i < s.size() && s[i] != ' ') ++i;
    ++field;
  }
  sscanf(s.c_str() + i, "%llu %llu", &ut, &st);
  return (double)(ut + st) / (double)sysconf(_SC_CLK_TCK);
}

// ---- sanitizer report -> (class, site, message) ----
// One llvm-symbolizer process for the parent (workers never symbolize: a sanitizer process forking a symbolizer costs
// about a second). Input "<module> <offset>", output (function, file:line) per inlined frame, blank line at the end.
struct Symbolizer {
  pid_t pid = -1;
  int to_fd = -1;
  FILE* from = nullptr;
  std::map<std::string, std::vector<std::string>> cache;
  bool start() {
    int to[2], fr[2];
    if (pipe(to) || pipe(fr)) return false;
    pid = fork();
    if (pid < 0) return false;
    if (pid == 0) {
      dup2(to[0], 0);
      dup2(fr[1], 1);
      close(to[0]);
      close(to[1]);
      close(fr[0]);
      close(fr[1]);
      execlp("llvm-symbolizer", "llvm-symbolizer", "--inlines", "--demangle", (char*)nullptr);
      _exit(127);
    }
    close(to[0]);
    close(fr[1]);
    to_fd = to[1];
    from = fdopen(fr[0], "r");
    return from != nullptr;
  }
  // function names of the (inlined) frames at module+offset, innermost first
  std::vector<std::string> functions(const std::string& module, const std::string& offset) {
    std::string key = module + " " + offset;
    auto it = cache.find(key);
    if (it != cache.end()) return it->second;
    std::vector<std::string> out;
    if (pid < 0 && !start()) return out;
    std::string q = key + "\n";
    if (write(to_fd, q.data(), q.size()) != (ssize_t)q.size()) return out;
    char* line = nullptr;
    size_t cap = 0;
    int k = 0;
    for (;;) {
      ssize_t n = getline(&line, &cap, from);
      if (n <= 0) break;
      std::string l(line, (size_t)n);
      while (!l.empty() && (l.back() == '\n' || l.back() == '\r')) l.pop_back();
      if (l.empty()) break;
      if (k++ % 2 == 0) out.push_back(l);
    }
    free(line);
    cache[key] = out;
    return out;
  }
  ~Symbolizer() {
    if (pid > 0) {
      close(to_fd);
      if (from) fclose(from);
      int st;
      waitpid(pid, &st, 0);
    }
  }
};
static Symbolizer g_symbolizer;

static Outcome classify_death(int status, bool watchdog, const std::string& err) {
  Outcome o;
  o.violated = true;
  std::string head;
  {
    size_t tc = err.find("terminate called");
    if (tc != std::string::npos) {
      size_t e2 = err.find("AddressSanitizer", tc);
      head = err.substr(tc, (e2 == std::string::npos ? err.size() : e2) - tc);
      if (head.size() > 300) head.resize(300);
      head += " | ";
    }
    size_t p = err.find("ERROR: ");
    if (p == std::string::npos) p = err.find("runtime error:");
    if (p == std::string::npos) p = 0;
    else {
      size_t ls = err.rfind('\n', p);
      p = ls == std::string::npos ? 0 : ls + 1;
    }
    head += err.substr(p, 1200);
  }
  if (watchdog) {
    o.cls = "hang";
    o.site = "watchdog";
    o.msg = "evaluation did not finish within the CPU-time bound";
    return o;
  }
  std::string kind;
  size_t a = err.find("ERROR: AddressSanitizer: ");
  if (a != std::string::npos) {
    size_t s = a + strlen("ERROR: AddressSanitizer: ");
    size_t e = err.find_first_of(" \n", s);
    kind = err.substr(s, e - s);
  }
  // innermost babylon function on the reported stack (frames are raw "(module+0xoff)": symbolized here), else the
  // innermost function of this executable that is not harness or runtime code
  std::string frame_site, fallback;
  size_t pos = 0;
  int nframes = 0;
  while ((pos = err.find("\n    #", pos)) != std::string::npos && nframes < 40) {
    size_t le = err.find('\n', pos + 1);
    std::string ln = err.substr(pos + 1, (le == std::string::npos ? err.size() : le) - pos - 1);
    pos = pos + 1;
    ++nframes;
    if (ln.find("    #0 ") == 0 && nframes > 1) break;  // second stack (allocation / free site): stop
    size_t lp = ln.find(" (/"), plus = ln.find("+0x", lp == std::string::npos ? 0 : lp);
    if (lp == std::string::npos || plus == std::string::npos) continue;
    size_t rp = ln.find(')', plus);
    std::string module = ln.substr(lp + 2, plus - lp - 2), off = ln.substr(plus + 1, rp - plus - 1);
    if (module.find("/serial_") == std::string::npos) continue;
    unsigned long long o = strtoull(off.c_str(), nullptr, 16);
    if (ln.find("    #0 ") != 0 && o > 0) --o;  // return address -> call instruction
    for (auto& fn : g_symbolizer.functions(module, sfmt("0x%llx", o))) {
      if (is_babylon_function(fn)) {
        frame_site = short_function(fn);
        break;
      }
      if (fallback.empty() && fn.find("vs::") == std::string::npos && fn.find("operator new") == std::string::npos &&
          fn.find("operator delete") == std::string::npos && fn.find("__clang_call_terminate") == std::string::npos &&
          fn.find("worker_main") == std::string::npos && fn.find("do_new") == std::string::npos && fn != "main" && fn != "??")
        fallback = short_function(fn);
    }
    if (!frame_site.empty()) break;
  }
  if (frame_site.empty()) frame_site = fallback.empty() ? "unknown" : fallback;
  if (WIFEXITED(status) && WEXITSTATUS(status) == 77) {
    if (kind == "ABRT") {
      o.cls = "abort";
      o.site = "abort@" + frame_site;
    } else if (!kind.empty()) {
      o.cls = "memory";
      o.site = kind + "@" + frame_site;
    } else {
      o.cls = "memory";
      o.site = "sanitizer-exit@" + frame_site;
    }
  } else if (WIFEXITED(status) && WEXITSTATUS(status) == 79) {
    o.cls = "hang";
    o.site = "alloc-runaway";
    o.msg = "runaway allocation during one evaluation of a <= 8 KiB input (outside a guarded parse)";
    return o;
  } else if (WIFSIGNALED(status)) {
    o.cls = "crash";
    o.site = sfmt("signal-%d", WTERMSIG(status));
  } else {
    o.cls = "crash";
    o.site = sfmt("exit-%d", WIFEXITED(status) ? WEXITSTATUS(status) : -1);
  }
  o.msg = one_line(head.substr(0, 900));
  return o;
}

// ---- a fresh / persistent single-evaluation worker (gate, minimiser, replay) ----
struct Prober {
  Worker w;
  bool alive = false;
  int evals = 0, spawns = 0;
  ~Prober() { stop(); }
  void stop() {
    if (alive) {
      send_line(w, "QUIT");
      kill(w.pid, SIGKILL);
      int st;
      waitpid(w.pid, &st, 0);
      close_worker(w);
      alive = false;
    }
  }
  bool read_line(std::string& line, double timeout_s, bool& died) {
    died = false;
    double t0 = now_s();
    double cpu0 = proc_cpu_seconds(w.pid);
    for (;;) {
      size_t nl = w.rbuf.find('\n');
      if (nl != std::string::npos) {
        line = w.rbuf.substr(0, nl);
        w.rbuf.erase(0, nl + 1);
        return true;
      }
      struct pollfd pfd = {w.from_fd, POLLIN, 0};
      int pr = poll(&pfd, 1, 200);
      if (pr > 0) {
        char buf[65536];
        ssize_t n = read(w.from_fd, buf, sizeof buf);
        if (n > 0) w.rbuf.append(buf, (size_t)n);
        else if (n == 0) {
          died = true;
          return false;
        }
      }
      if (proc_cpu_seconds(w.pid) - cpu0 > timeout_s || now_s() - t0 > 6 * timeout_s) return false;
    }
  }
  // run one spec; fresh == true: in a brand-new process. Returns every outcome of the evaluation (empty = held).
  std::vector<Outcome> eval(const EvalSpec& e, bool fresh) {
    std::vector<Outcome> res;
    auto infra = [&](const char* site, const std::string& msg) {
      Outcome o;
      o.violated = true;
      o.cls = "infra";
      o.site = site;
      o.msg = msg;
      res.push_back(o);
    };
    if (fresh) stop();
    if (!alive) {
      if (!spawn_worker(w, MAX_JOBS - 1)) {
        infra("spawn", "");
        return res;
      }
      alive = true;
      ++spawns;
    }
    ++evals;
    send_line(w, "EVAL " + spec_to_text(e));
    std::string line;
    bool died;
    bool got;
    auto parse_outcome = [&](const std::string& r) {
      Outcome o;
      o.violated = true;
      size_t a = r.find('|'), b = a == std::string::npos ? a : r.find('|', a + 1);
      if (b != std::string::npos) {
        o.cls = r.substr(0, a);
        o.site = r.substr(a + 1, b - a - 1);
        o.msg = r.substr(b + 1);
        res.push_back(o);
      }
    };
    // UBSan findings are reported the moment they happen ("UB ..." lines), so they survive a later death
    while ((got = read_line(line, g_cpu_bound, died)) && line.rfind("UB ", 0) == 0) parse_outcome(line.substr(3));
    if (got) {
      if (line == "RES ok") return res;
      if (line.rfind("RES ", 0) == 0) {
        std::string all = line.substr(4);
        size_t from = 0;
        while (from <= all.size()) {
          size_t to = all.find('\x1f', from);
          parse_outcome(all.substr(from, to == std::string::npos ? std::string::npos : to - from));
          if (to == std::string::npos) break;
          from = to + 1;
        }
        return res;
      }
      infra("protocol", line);
      return res;
    }
    bool watchdog = !died;
    if (watchdog) kill(w.pid, SIGKILL);
    int st = 0;
    waitpid(w.pid, &st, 0);
    std::string err = read_file(w.errfile, 1 << 16);
    res.push_back(classify_death(st, watchdog, err));
    close_worker(w);
    alive = false;
    return res;
  }
  std::string describe(const EvalSpec& e, std::string& printed) {
    if (!alive) {
      if (!spawn_worker(w, MAX_JOBS - 1)) return "";
      alive = true;
    }
    send_line(w, "DESCRIBE " + spec_to_text(e));
    std::string line;
    bool died;
    if (!read_line(line, 10.0, died) || line.rfind("D ", 0) != 0) {
      stop();
      return "";
    }
    size_t tab = line.find('\t');
    std::string hex = line.substr(2, tab == std::string::npos ? std::string::npos : tab - 2);
    printed = tab == std::string::npos ? "" : line.substr(tab + 1);
    return hex == "-" ? "" : hex;
  }
};

// ---- minimiser ----
static void remove_range(EvalSpec& e, size_t a, size_t b) {
  auto adj = [&](int& v) {
    if (v < 0) return;
    if ((size_t)v > a) v -= (int)(std::min<size_t>(b, (size_t)v) - a);
  };
  adj(e.pres.limit);
  adj(e.pres.fail_at);
  adj(e.fault_pos);
  e.bytes.erase(a, b - a);
}
static EvalSpec minimise(Prober& pr, const EvalSpec& orig, const std::string& sig, int& used) {
  EvalSpec best = orig;
  int budget = 300;
  double t_end = now_s() + 90;  // candidates that hang cost seconds each: bound the whole minimisation
  auto same = [&](const EvalSpec& c) {
    if (now_s() > t_end) budget = 0;
    if (budget <= 0) return false;
    --budget;
    return find_sig(pr.eval(c, false), sig) != nullptr;
  };
  if (orig.mode == 'R') {
    static const int bq[] = {0, 1, 2, 3, 4, 6, 8, 12, 16, 24, 32, 48};
    for (int b : bq) {
      if (b >= orig.budget) break;
      EvalSpec c = orig;
      c.budget = b;
      if (same(c)) {
        best = c;
        break;
      }
    }
    used = 300 - budget;
    return best;
  }
  // 1. simpler presentation
  {
    EvalSpec c = best;
    c.pres = Pres();
    c.pres.kind = PK_CODED_ARRAY;
    if (best.pres.limit >= 0) c.bytes = best.bytes.substr(0, std::min<size_t>((size_t)best.pres.limit, best.bytes.size()));
    if (best.pres.fail_at >= 0) c.bytes = c.bytes.substr(0, std::min<size_t>((size_t)best.pres.fail_at, c.bytes.size()));
    if (same(c)) best = c;
    else if (best.pres.kind == PK_STREAM) {
      c = best;
      c.pres.chunk = 1;
      c.pres.zero_chunks = 0;
      if (same(c)) best = c;
      if (best.pres.limit >= 0) {
        c = best;
        c.bytes = best.bytes.substr(0, std::min<size_t>((size_t)best.pres.limit, best.bytes.size()));
        c.pres.limit = -1;
        if (same(c)) best = c;
      }
    }
  }
  // 2. ddmin over the bytes
  size_t gran = 2;
  while (best.bytes.size() >= 2 && budget > 0) {
    size_t n = best.bytes.size();
    size_t chunk = (n + gran - 1) / gran;
    bool reduced = false;
    for (size_t a = 0; a < n && budget > 0; a += chunk) {
      EvalSpec c = best;
      remove_range(c, a, std::min(n, a + chunk));
      if (same(c)) {
        best = c;
        reduced = true;
        break;
      }
    }
    if (reduced) {
      gran = std::max<size_t>(gran - 1, 2);
    } else {
      if (chunk == 1) break;
      gran = std::min(gran * 2, n);
    }
  }
  // 3. simplify remaining bytes
  for (size_t i = 0; i < best.bytes.size() && best.bytes.size() <= 48 && budget > 0; ++i) {
    if (best.bytes[i] == 0) continue;
    EvalSpec c = best;
    c.bytes[i] = 0;
    if (same(c)) best = c;
  }
  used = 300 - budget;
  return best;
}

// ---- replay files ----
static std::string pres_json(const Pres& p) {
  static const char* kinds[] = {"coded-array", "parse_from_array", "parse_from_string", "stream"};
  return sfmt("{\"kind\": \"%s\", \"class\": \"%s\", \"chunk\": %d, \"chunk_seed\": %llu, \"zero_size_buffers\": %d, \"enclosing_limit\": %d, \"next_fails_at\": %d}",
              kinds[p.kind & 3], pres_class_name(pres_class(p)), p.chunk, (unsigned long long)p.chunk_seed, p.zero_chunks, p.limit,
              p.fail_at);
}
static std::string write_replay(const EvalSpec& e, const Outcome& o, const EvalSpec& orig, uint64_t index, int min_evals,
                                const std::string& value_hex, const std::string& printed) {
  mkdir(g_opt.replay_dir.c_str(), 0755);
  uint64_t id = mix(g_opt.seed, index) ^ std::hash<std::string>()(o.sig());
  std::string path = sfmt("%s/C11-serial-%llu.json", g_opt.replay_dir.c_str(), (unsigned long long)id);
  FILE* f = fopen(path.c_str(), "w");
  if (!f) return "";
  fprintf(f, "{\n \"property\": \"C11\",\n \"harness\": \"serial\",\n \"variant\": \"%s\",\n", VERIF_VARIANT);
  fprintf(f, " \"class\": \"%s\",\n \"site\": \"%s\",\n \"message\": \"%s\",\n", json_escape(o.cls).c_str(), json_escape(o.site).c_str(),
          json_escape(o.msg).c_str());
  fprintf(f, " \"seed\": %llu,\n \"found_at_case_index\": %llu,\n \"tier\": \"%s\",\n", (unsigned long long)g_opt.seed, (unsigned long long)index,
          g_opt.tier.c_str());
  fprintf(f, " \"mode\": \"%s\",\n \"type\": \"%s\",\n", e.mode == 'R' ? "roundtrip (oracle 1: value regenerated from value_seed and budget)" : "hostile (oracle 2: exact input bytes)",
          json_escape(e.type).c_str());
  if (e.mode == 'R') {
    fprintf(f, " \"value_seed\": %llu,\n \"budget\": %d,\n \"original_budget\": %d,\n", (unsigned long long)e.vseed, e.budget, orig.budget);
    fprintf(f, " \"presentation\": \"all oracle-1 presentations; the failing one is named in site/message\",\n");
    fprintf(f, " \"fault\": {\"kind\": \"none\"},\n");
    fprintf(f, " \"input_hex\": \"%s\",\n \"value_printed\": \"%s\",\n", value_hex.c_str(), json_escape(printed.substr(0, 1500)).c_str());
  } else {
    fprintf(f, " \"presentation\": %s,\n", pres_json(e.pres).c_str());
    fprintf(f, " \"fault\": {\"kind\": \"%s\", \"position\": %d, \"description\": \"%s\"},\n", fault_name(e.fault_kind), e.fault_pos,
            json_escape(orig.fault_desc).c_str());
    fprintf(f, " \"input_hex\": \"%s\",\n \"input_len\": %zu,\n \"original_input_len\": %zu,\n", hex_encode(e.bytes).c_str(), e.bytes.size(),
            orig.bytes.size());
  }
  fprintf(f, " \"minimiser_evaluations\": %d,\n \"spec\": \"%s\"\n}\n", min_evals, json_escape(spec_to_text(e)).c_str());
  fclose(f);
  return path;
}
static bool json_string_value(const std::string& js, const std::string& key, std::string& out) {
  std::string k = "\"" + key + "\"";
  size_t p = js.find(k);
  if (p == std::string::npos) return false;
  p = js.find(':', p + k.size());
  if (p == std::string::npos) return false;
  p = js.find('"', p);
  if (p == std::string::npos) return false;
  out.clear();
  for (size_t i = p + 1; i < js.size(); ++i) {
    if (js[i] == '\\' && i + 1 < js.size()) {
      char c = js[++i];
      out.push_back(c == 'n' ? '\n' : c == 't' ? '\t' : c);
    } else if (js[i] == '"') {
      return true;
    } else out.push_back(js[i]);
  }
  return false;
}

static int do_replay(const std::string& file) {
  std::string js = read_file(file, 1 << 22);
  std::string spec, cls, site;
  if (js.empty() || !json_string_value(js, "spec", spec) || !json_string_value(js, "class", cls) || !json_string_value(js, "site", site)) {
    printf("INFRA cannot read replay file %s\n", file.c_str());
    return 2;
  }
  EvalSpec e;
  if (!spec_from_text(spec, e) || !find_type(e.type)) {
    printf("INFRA replay spec not understood (type '%s')\n", e.type.c_str());
    return 2;
  }
  Prober pr;
  std::vector<Outcome> os = pr.eval(e, true);
  for (auto& o : os)
    if (o.cls == "infra") {
      printf("INFRA %s %s\n", o.site.c_str(), o.msg.c_str());
      return 2;
    }
  if (const Outcome* o = find_sig(os, cls + "|" + site)) {
    printf("replayed: class=%s site=%s\n  %s\n", o->cls.c_str(), o->site.c_str(), o->msg.c_str());
    printf("VIOLATION property=C11 replay=%s\n", file.c_str());
    return 1;
  }
  printf("replay did not reproduce %s|%s; observed: %s\n", cls.c_str(), site.c_str(), sigs_of(os).c_str());
  return 0;
}

// ---- batch ----
struct Found {
  EvalSpec spec;
  Outcome out;
  uint64_t index = 0;
  uint64_t count = 0;
};

static int run_batch() {
  const Options& opt = g_opt;
  double t0 = now_s();
  double seconds = opt.seconds >= 0 ? opt.seconds : (opt.tier == "thorough" ? 600 : 20);
  double deadline = t0 + seconds;
  int J = std::max(1, std::min(opt.jobs, MAX_JOBS - 2));
  std::vector<Worker> ws((size_t)J);
  for (int i = 0; i < J; ++i)
    if (!spawn_worker(ws[(size_t)i], i)) {
      printf("INFRA cannot spawn worker\n");
      return 2;
    }
  struct KnownSig {
    std::string cls, site, desc;
    uint64_t count = 0;
  };
  std::vector<KnownSig> known;
  for (auto& k : opt.known) {
    KnownSig ks;
    size_t a = k.find('|'), b = a == std::string::npos ? a : k.find('|', a + 1);
    if (b == std::string::npos) {
      printf("INFRA bad --known '%s'\n", k.c_str());
      return 2;
    }
    ks.cls = k.substr(0, a);
    ks.site = k.substr(a + 1, b - a - 1);
    ks.desc = k.substr(b + 1);
    known.push_back(ks);
  }
  std::map<std::string, Found> found;  // unknown signatures
  std::vector<std::string> found_order;
  uint64_t next_index = 0;
  const uint64_t BATCH = 48;
  bool stop = false;
  int infra_errors = 0;
  uint64_t worker_restarts = 0;
  std::vector<std::string> samples;

  // UBSan reports without a memory effect (null reference to an element that is
  // never read, memcpy(nullptr, 0), out-of-range enum load) are defects of the
  // code but not violations of C11 as stated (it forbids out-of-input reads and
  // memory corruption): they are counted and shown, never alarmed on.
  static std::map<std::string, uint64_t> ub_reports;
  auto on_violation = [&](uint64_t index, const EvalSpec& e, const Outcome& o) {
    if (o.cls == "ub") { ub_reports[o.site]++; return; }
    for (auto& k : known)
      if (k.cls == o.cls && k.site == o.site) {
        ++k.count;
        return;
      }
    std::string sig = o.sig();
    auto it = found.find(sig);
    if (it == found.end()) {
      Found f;
      f.spec = e;
      f.out = o;
      f.index = index;
      f.count = 1;
      found[sig] = f;
      found_order.push_back(sig);
      fprintf(stderr, "[serial] candidate at case %llu: %s|%s: %s\n", (unsigned long long)index, o.cls.c_str(), o.site.c_str(), o.msg.substr(0, 300).c_str());
      if (!opt.all || found.size() >= 24) stop = true;
    } else {
      it->second.count++;
    }
  };
  auto assign = [&](Worker& w) {
    if (stop || now_s() >= deadline) return;
    if (opt.cases >= 0 && next_index >= (uint64_t)opt.cases) return;
    uint64_t cnt = BATCH;
    if (opt.cases >= 0) cnt = std::min<uint64_t>(cnt, (uint64_t)opt.cases - next_index);
    w.batch_start = next_index;
    w.batch_count = cnt;
    next_index += cnt;
    w.busy = true;
    w.cpu_on_same = w.wall_on_same = 0;
    send_line(w, sfmt("RUN %llu %llu", (unsigned long long)w.batch_start, (unsigned long long)w.batch_count));
  };
  // samples first (worker 0), so that the evidence shows actual cases of this run
  {
    Worker& w = ws[0];
    send_line(w, "SAMPLE 0 12");
    double ts = now_s();
    bool done = false;
    while (!done && now_s() - ts < 30) {
      struct pollfd pfd = {w.from_fd, POLLIN, 0};
      if (poll(&pfd, 1, 200) > 0) {
        char buf[65536];
        ssize_t n = read(w.from_fd, buf, sizeof buf);
        if (n > 0) w.rbuf.append(buf, (size_t)n);
        else if (n == 0) break;
      }
      size_t nl;
      while ((nl = w.rbuf.find('\n')) != std::string::npos) {
        std::string line = w.rbuf.substr(0, nl);
        w.rbuf.erase(0, nl + 1);
        if (line.rfind("DONE", 0) == 0) done = true;
        else if (line.rfind("S ", 0) == 0) samples.push_back(line.substr(2));
      }
    }
    {
      // restart it: enumerating samples may have consumed once-per-process UBSan reports
      kill(w.pid, SIGKILL);
      int st;
      waitpid(w.pid, &st, 0);
      close_worker(w);
      if (!spawn_worker(w, 0)) return 2;
    }
  }
  for (auto& w : ws) assign(w);
  auto any_busy = [&] {
    for (auto& w : ws)
      if (w.busy) return true;
    return false;
  };
  const double CPU_BOUND = g_cpu_bound;
  while (any_busy()) {
    std::vector<struct pollfd> pfds;
    for (auto& w : ws) pfds.push_back({w.from_fd, POLLIN, 0});
    poll(pfds.data(), pfds.size(), 100);
    for (size_t wi = 0; wi < ws.size(); ++wi) {
      Worker& w = ws[wi];
      if (w.pid < 0) continue;
      bool eof = false;
      if (pfds[wi].revents & (POLLIN | POLLHUP)) {
        for (;;) {
          char buf[65536];
          ssize_t n = read(w.from_fd, buf, sizeof buf);
          if (n > 0) w.rbuf.append(buf, (size_t)n);
          else if (n == 0) {
            eof = true;
            break;
          } else break;
        }
      }
      size_t nl;
      while ((nl = w.rbuf.find('\n')) != std::string::npos) {
        std::string line = w.rbuf.substr(0, nl);
        w.rbuf.erase(0, nl + 1);
        if (line.rfind("V ", 0) == 0) {
          size_t tab = line.find('\t');
          std::string headp = line.substr(2, tab - 2);
          size_t sp = headp.find(' ');
          uint64_t idx = strtoull(headp.c_str(), nullptr, 10);
          std::string r = headp.substr(sp + 1);
          Outcome o;
          o.violated = true;
          size_t a = r.find('|'), b = a == std::string::npos ? a : r.find('|', a + 1);
          if (b != std::string::npos) {
            o.cls = r.substr(0, a);
            o.site = r.substr(a + 1, b - a - 1);
            o.msg = r.substr(b + 1);
          }
          EvalSpec e;
          if (tab != std::string::npos && spec_from_text(line.substr(tab + 1), e)) on_violation(idx, e, o);
          else ++infra_errors;
        } else if (line.rfind("DONE ", 0) == 0) {
          w.busy = false;
          w.cases_since_spawn += w.batch_count;
          if (w.cases_since_spawn >= 3000 && !stop && now_s() < deadline) {
            // recycle: UBSan reports each source location once per process
            send_line(w, "QUIT");
            int st;
            waitpid(w.pid, &st, 0);
            int slot = w.slot;
            close_worker(w);
            if (!spawn_worker(w, slot)) return 2;
            ++worker_restarts;
          }
          assign(w);
        }
      }
      if (eof && w.pid >= 0) {
        // the worker died: the shared slot says which evaluation it was running
        int st = 0;
        waitpid(w.pid, &st, 0);
        std::string err = read_file(w.errfile, 1 << 16);
        Outcome o = classify_death(st, w.killed_by_watchdog, err);
        Slot& sl = g_sh->slots[w.slot];
        uint64_t idx = sl.cur_index.load();
        uint32_t len = sl.spec_len.load(std::memory_order_acquire);
        EvalSpec e;
        bool have = len > 0 && spec_from_text(std::string(sl.spec, len), e);
        bool was_busy = w.busy;
        int slot = w.slot;
        uint64_t bstart = w.batch_start, bcount = w.batch_count;
        close_worker(w);
        ++worker_restarts;
        if (have && was_busy) on_violation(idx, e, o);
        else {
          ++infra_errors;
          fprintf(stderr, "[serial] worker %d died outside an evaluation (status %d): %s\n", slot, st, err.substr(0, 400).c_str());
        }
        if (!spawn_worker(w, slot)) return 2;
        if (was_busy && !stop && idx + 1 < bstart + bcount) {
          // continue the batch behind the case that killed the worker
          w.batch_start = idx + 1;
          w.batch_count = bstart + bcount - (idx + 1);
          w.busy = true;
          send_line(w, sfmt("RUN %llu %llu", (unsigned long long)w.batch_start, (unsigned long long)w.batch_count));
        } else {
          assign(w);
        }
        continue;
      }
      // watchdog: same evaluation for too much CPU time (or far too much wall time) => hang
      if (w.busy && w.pid >= 0) {
        double t = now_s();
        uint64_t prog = g_sh->slots[w.slot].progress.load(std::memory_order_relaxed);
        double cpu = proc_cpu_seconds(w.pid);
        if (prog != w.last_progress) {
          w.last_progress = prog;
          w.cpu_on_same = 0;
          w.wall_on_same = 0;
        } else {
          w.cpu_on_same += cpu - w.last_cpu;
          w.wall_on_same += t - w.last_poll;
        }
        w.last_cpu = cpu;
        w.last_poll = t;
        if (w.cpu_on_same > CPU_BOUND || w.wall_on_same > 12 * CPU_BOUND) {
          w.killed_by_watchdog = true;
          kill(w.pid, SIGKILL);
        }
      }
    }
  }
  // shut the pool down
  for (auto& w : ws) {
    if (w.pid < 0) continue;
    send_line(w, "QUIT");
    close(w.to_fd);
    w.to_fd = -1;
    int st;
    waitpid(w.pid, &st, 0);
    close_worker(w);
  }
  double batch_wall = now_s() - t0;

  // ---- gate + minimise the unknown signatures ----
  int exit_code = 0;
  int violations = 0;
  std::vector<std::string> violation_lines;
  if (!opt.all && found_order.size() > 1) {
    // one gated, minimised violation is what the caller needs: take the one found at the lowest case index
    std::string best = found_order[0];
    for (auto& sg : found_order)
      if (found[sg].index < found[best].index) best = sg;
    printf("note: %zu distinct unknown signatures were seen; processing the first (case %llu); use --all for every one\n", found_order.size(),
           (unsigned long long)found[best].index);
    found_order.assign(1, best);
  }
  for (std::string sig : found_order) {
    Found& f = found[sig];
    Prober pr;
    std::vector<Outcome> a = pr.eval(f.spec, true);
    std::vector<Outcome> b = pr.eval(f.spec, true);
    if (sig == "hang|watchdog" && !find_sig(a, sig) && !a.empty() && !b.empty()) {
      // the CPU-time watchdog is the detector of last resort; when the fresh runs agree on a sharper diagnosis of the
      // same non-termination (spin / runaway detector got there first), that diagnosis is the finding
      const Outcome* sharper = nullptr;
      for (auto& o : a)
        if (o.cls == "hang" && find_sig(b, o.sig())) sharper = &o;
      if (sharper) {
        sig = sharper->sig();
        bool is_known = false;
        for (auto& k : known)
          if (k.cls == sharper->cls && k.site == sharper->site) {
            ++k.count;
            is_known = true;
          }
        if (is_known) continue;
      }
    }
    if (!find_sig(a, sig) || !find_sig(b, sig)) {
      printf("INFRA nondeterministic: case %llu gave %s in the batch but [%s] / [%s] in fresh processes (spec: %.300s)\n", (unsigned long long)f.index,
             sig.c_str(), sigs_of(a).c_str(), sigs_of(b).c_str(), spec_to_text(f.spec).c_str());
      exit_code = 2;
      continue;
    }
    int used = 0;
    EvalSpec m = minimise(pr, f.spec, sig, used);
    std::vector<Outcome> cv = pr.eval(m, true);
    std::vector<Outcome> dv = pr.eval(m, true);
    Outcome c;
    if (find_sig(cv, sig) && find_sig(dv, sig)) c = *find_sig(cv, sig);
    else {
      m = f.spec;  // the minimised form is not stable: keep the original, which passed the gate
      c = *find_sig(a, sig);
    }
    std::string printed, hex;
    if (m.mode == 'R') hex = pr.describe(m, printed);
    std::string path = write_replay(m, c, f.spec, f.index, used, hex, printed);
    if (path.empty()) {
      printf("INFRA cannot write replay file in %s\n", opt.replay_dir.c_str());
      exit_code = 2;
      continue;
    }
    ++violations;
    printf("violation: class=%s site=%s seen=%llu first_case=%llu\n  %s\n", c.cls.c_str(), c.site.c_str(), (unsigned long long)f.count,
           (unsigned long long)f.index, c.msg.c_str());
    violation_lines.push_back(sfmt("VIOLATION property=C11 replay=%s", path.c_str()));
  }
  if (violations) exit_code = 1;  // a gated, minimised violation outranks an unrelated gate failure (which was printed)
  if (infra_errors && exit_code == 0) {
    printf("INFRA %d worker failures outside an evaluation\n", infra_errors);
    exit_code = 2;
  }

  // ---- evidence ----
  double wall = now_s() - t0;
  uint64_t distinct = 0;
  for (auto& wd : g_sh->bitmap) distinct += (uint64_t)__builtin_popcountll(wd.load());
  uint64_t evals = g_sh->evaluations.load();
  uint64_t known_total = 0;
  for (auto& k : known) known_total += k.count;
  if (!opt.evidence.empty()) {
    std::string tmp = opt.evidence + ".tmp";
    FILE* f = fopen(tmp.c_str(), "w");
    if (!f) {
      printf("INFRA cannot write evidence %s\n", opt.evidence.c_str());
      return 2;
    }
    fprintf(f, "{\n \"property_id\": \"C11\",\n \"tier\": \"%s\",\n \"seed\": %llu,\n \"level\": \"fault_enumeration\",\n \"coverage\": {\n",
            opt.tier == "thorough" ? "thorough" : "quick", (unsigned long long)opt.seed);
    fprintf(f, "  \"evaluations\": %llu,\n  \"distinct_nontrivial\": %llu,\n", (unsigned long long)evals, (unsigned long long)distinct);
    fprintf(f, "  \"rule\": \"case i is generated from mix(VERIF_SEED, i): value shape, value, then either oracle 1 (the value pushed through "
               "size/serialize/print clauses and parsed back under 18 presentations; protobuf differential for the field-numbered structs) or oracle 2 "
               "(3 drawn faults on its valid encoding; the truncation fault enumerates EVERY prefix when the encoding is <= 256 bytes, 8 drawn prefixes "
               "above). One evaluation = one parse attempt on which the oracle was evaluated. An evaluation is non-trivial when the parser actually "
               "reached the fault: CodedInputStream::CurrentPosition() after the parse is beyond the first faulted byte (at or beyond the cut for "
               "truncation / Next() failure; the whole encoding consumed for fault-free evaluations; measured on a harness-owned stream, for the "
               "parse_from_array/parse_from_string presentations by a second parse of the same bytes). distinct = distinct tuples (value shape, "
               "presentation class [14], fault kind [11 incl. none], octile of the fault position in the input) among non-trivial evaluations, "
               "counted in a shared bitmap.\",\n");
    fprintf(f, "  \"samples\": [");
    int ns = 0;
    for (auto& s : samples) {
      // "<index> <nspecs> <fault desc>\t<spec>\t<hex>"
      size_t t1 = s.find('\t'), t2 = t1 == std::string::npos ? t1 : s.find('\t', t1 + 1);
      if (t2 == std::string::npos) continue;
      std::string head = s.substr(0, t1), spec = s.substr(t1 + 1, t2 - t1 - 1), vhex = s.substr(t2 + 1);
      EvalSpec e;
      if (!spec_from_text(spec, e)) continue;
      unsigned long long idx = 0;
      size_t nspecs = 0;
      int off = 0;
      sscanf(head.c_str(), "%llu %zu %n", &idx, &nspecs, &off);
      std::string desc = head.substr((size_t)off);
      std::string hex = e.mode == 'R' ? vhex : hex_encode(e.bytes);
      size_t full = hex.size() / 2;
      if (hex.size() > 512) hex.resize(512);
      fprintf(f, "%s\n   {\"case_index\": %llu, \"evaluations_in_case\": %zu, \"type\": \"%s\", \"mode\": \"%s\", \"input_len\": %zu, \"input_hex\": \"%s\", "
                 "\"fault\": {\"kind\": \"%s\", \"position\": %d, \"description\": \"%s\"}, \"presentation\": %s}",
              ns ? "," : "", idx, nspecs, json_escape(e.type).c_str(), e.mode == 'R' ? "roundtrip" : "hostile", full, hex.c_str(),
              fault_name(e.mode == 'R' ? FK_NONE : e.fault_kind), e.fault_pos, json_escape(desc).c_str(),
              e.mode == 'R' ? "\"all 18 oracle-1 presentations\"" : pres_json(e.pres).c_str());
      if (++ns >= 8) break;
    }
    fprintf(f, "\n  ],\n");
    fprintf(f, "  \"cases\": %llu,\n  \"evaluations_roundtrip\": %llu,\n  \"evaluations_hostile\": %llu,\n  \"parses_reporting_success\": %llu,\n  "
               "\"parses_reporting_failure\": %llu,\n  \"fixpoint_checks\": %llu,\n  \"evaluations_reaching_the_fault\": %llu,\n",
            (unsigned long long)g_sh->cases.load(), (unsigned long long)g_sh->evals_roundtrip.load(), (unsigned long long)g_sh->evals_hostile.load(),
            (unsigned long long)g_sh->parse_ok.load(), (unsigned long long)g_sh->parse_fail.load(), (unsigned long long)g_sh->fixpoint_checked.load(),
            (unsigned long long)g_sh->reached.load());
    fprintf(f, "  \"ub_reports_outside_property\": {");
    { bool first = true; for (auto& kv : ub_reports) { fprintf(f, "%s\"%s\": %llu", first ? "" : ", ", json_escape(kv.first).c_str(), (unsigned long long)kv.second); first = false; } }
    fprintf(f, "},\n");
    fprintf(f, "  \"faults_fired\": {");
    for (int k = 1; k < N_FAULT_KINDS; ++k)
      fprintf(f, "%s\"%s\": %llu", k > 1 ? ", " : "", fault_name(k), (unsigned long long)g_sh->fault_reached[k].load());
    fprintf(f, "},\n  \"faults_generated\": {");
    for (int k = 1; k < N_FAULT_KINDS; ++k)
      fprintf(f, "%s\"%s\": %llu", k > 1 ? ", " : "", fault_name(k), (unsigned long long)g_sh->fault_generated[k].load());
    fprintf(f, "},\n  \"exhaustive_truncation_encodings\": %llu,\n  \"compat_records_permuted\": %llu,\n", (unsigned long long)g_sh->exhaustive_trunc_encodings.load(),
            (unsigned long long)g_sh->compat_records.load());
    fprintf(f, "  \"probes\": {\"huge_allocation_requests\": %llu, \"largest_allocation_request_bytes\": %llu, \"stream_step_bound_hits\": %llu, "
               "\"ubsan_reports\": %llu, \"max_input_len\": %llu, \"worker_restarts\": %llu},\n",
            (unsigned long long)g_sh->huge_alloc_count.load(), (unsigned long long)g_sh->huge_alloc_max.load(), (unsigned long long)g_sh->step_bound_hits.load(),
            (unsigned long long)g_sh->ub_reports.load(), (unsigned long long)g_sh->max_input_len.load(), (unsigned long long)worker_restarts);
    fprintf(f, "  \"value_shapes\": %zu,\n  \"cases_per_hour\": %llu,\n  \"evaluations_per_hour\": %llu,\n  \"runs_known_finding\": %llu,\n", registry().size(),
            (unsigned long long)(batch_wall > 0 ? g_sh->cases.load() / batch_wall * 3600 : 0),
            (unsigned long long)(batch_wall > 0 ? evals / batch_wall * 3600 : 0), (unsigned long long)known_total);
    fprintf(f, "  \"harness\": \"serial\",\n  \"variant\": \"%s\",\n  \"jobs\": %d,\n", VERIF_VARIANT, J);
    fprintf(f, "  \"components\": {\"real\": [\"babylon serialization (headers + src/babylon/**/*.cpp) compiled from the /repo working tree with clang "
               "-O1 -fsanitize=address,undefined (%s)\", \"protobuf 3.21 CodedInputStream/CodedOutputStream and generated messages (system library)\", "
               "\"libstdc++ containers\"], \"stub\": [\"the byte stream: harness ZeroCopyInputStream/ZeroCopyOutputStream (chunking, EOF, Next() failure, "
               "per-buffer heap blocks)\", \"operator new (requests > 256 MiB served from untouched MAP_NORESERVE memory and counted)\"]}\n },\n",
            VERIF_VARIANT);
    fprintf(f, " \"assumptions\": [\"no threads and no clocks are involved in this property: the environment is the byte stream only\", "
               "\"protobuf's own parser is the reference for the wire-compatibility clause\", "
               "\"UBSan reports each source location once per process; workers are recycled every 3000 cases and findings re-run in fresh processes\", "
               "\"a request for a huge allocation is recorded as a probe, not a violation (the statement forbids out-of-input reads and memory corruption only)\", "
               "\"sampling except for truncation of encodings <= 256 bytes, which is exhaustive per encoding\"],\n");
    fprintf(f, " \"wall_s\": %.2f,\n \"violations\": %d\n}\n", wall, violations);
    fclose(f);
    rename(tmp.c_str(), opt.evidence.c_str());
  }
  printf("SUMMARY property=C11 variant=%s seed=%llu cases=%llu evaluations=%llu distinct_nontrivial=%llu reached=%llu exhaustive_truncation_encodings=%llu "
         "known_hits=%llu violations=%d worker_restarts=%llu wall_s=%.1f cases_per_s=%.0f evals_per_s=%.0f\n",
         VERIF_VARIANT, (unsigned long long)opt.seed, (unsigned long long)g_sh->cases.load(), (unsigned long long)evals, (unsigned long long)distinct,
         (unsigned long long)g_sh->reached.load(), (unsigned long long)g_sh->exhaustive_trunc_encodings.load(), (unsigned long long)known_total, violations,
         (unsigned long long)worker_restarts, wall, batch_wall > 0 ? g_sh->cases.load() / batch_wall : 0, batch_wall > 0 ? evals / batch_wall : 0);
  for (auto& k : known)
    if (k.count) printf("KNOWN-FINDING: property=C11 %s (class=%s site=%s seen=%llu)\n", k.desc.c_str(), k.cls.c_str(), k.site.c_str(), (unsigned long long)k.count);
  for (auto& l : violation_lines) printf("%s\n", l.c_str());
  return exit_code;
}

int main(int argc, char** argv) {
  finalize_registry();
  g_self = argv[0];
  signal(SIGPIPE, SIG_IGN);
  bool worker = false;
  int shm_fd = -1, slot = 0;
  Options& o = g_opt;
  for (int i = 1; i < argc; ++i) {
    std::string a = argv[i];
    auto val = [&]() -> std::string {
      if (i + 1 >= argc) {
        printf("INFRA missing value for %s\n", a.c_str());
        exit(2);
      }
      return argv[++i];
    };
    if (a == "--worker") worker = true;
    else if (a == "--shm-fd") shm_fd = atoi(val().c_str());
    else if (a == "--slot") slot = atoi(val().c_str());
    else if (a == "--property") o.property = val();
    else if (a == "--tier") o.tier = val();
    else if (a == "--seconds") o.seconds = atof(val().c_str());
    else if (a == "--seed") o.seed = strtoull(val().c_str(), nullptr, 10);
    else if (a == "--jobs") o.jobs = atoi(val().c_str());
    else if (a == "--evidence") o.evidence = val();
    else if (a == "--replay-dir") o.replay_dir = val();
    else if (a == "--known") o.known.push_back(val());
    else if (a == "--replay") o.replay = val();
    else if (a == "--level" || a == "--mode" || a == "--flavour") val();  // accepted for CLI compatibility with the simulator harnesses
    else if (a == "--cases") o.cases = atol(val().c_str());
    else if (a == "--all") o.all = true;
    else if (a == "--one") o.one = atol(val().c_str());
    else if (a == "--list-types") {
      for (auto& t : registry()) printf("%s\t%s\t%s\n", t.name.c_str(), t.family.c_str(), t.cached ? "cached-size" : "");
      return 0;
    } else {
      printf("INFRA unknown argument %s\n", a.c_str());
      return 2;
    }
  }
  if (worker) return worker_main(shm_fd, slot, o.seed, o.tier == "thorough");
  if (o.property != "C11") {
    printf("INFRA this harness checks property C11 only\n");
    return 2;
  }
  setvbuf(stdout, nullptr, _IOLBF, 0);
  if (o.one >= 0) {
    // run one case index in this very process, printing every evaluation (development aid)
    env().thorough = o.tier == "thorough";
    ::google::protobuf::SetLogHandler(nullptr);
    std::vector<EvalSpec> specs;
    run_case(o.seed, (uint64_t)o.one, nullptr, &specs);
    int bad = 0;
    for (auto& e : specs) {
      std::vector<Outcome> rs = run_spec(e);
      printf("%s  [%s]\n   -> %s\n", spec_to_text(e).substr(0, 200).c_str(), e.fault_desc.c_str(), sigs_of(rs).c_str());
      for (auto& r : rs) printf("      %s\n", r.msg.c_str());
      bad += !rs.empty();
    }
    return bad ? 1 : 0;
  }
  // shared memory for the pool
  g_shm_fd = memfd_create("serial-shared", 0);
  if (g_shm_fd < 0 || ftruncate(g_shm_fd, sizeof(Shared)) != 0) {
    printf("INFRA cannot create shared memory\n");
    return 2;
  }
  void* p = mmap(nullptr, sizeof(Shared), PROT_READ | PROT_WRITE, MAP_SHARED, g_shm_fd, 0);
  if (p == MAP_FAILED) {
    printf("INFRA cannot map shared memory\n");
    return 2;
  }
  g_sh = static_cast<Shared*>(p);
  if (!o.replay.empty()) return do_replay(o.replay);
  return run_batch();
}
