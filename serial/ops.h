// Type-erased access to one value shape: lets the oracle engine, the minimiser and the replayer be plain code.
#pragma once
#include <google/protobuf/io/coded_stream.h>

#include <string>
#include <vector>

#include "common.h"

namespace vs {

using ::google::protobuf::io::CodedInputStream;
using ::google::protobuf::io::CodedOutputStream;

struct Fail;  // engine.h

struct TypeOps {
  std::string name;    // no spaces
  std::string family;  // scalar enum string vector list array set map unique_ptr shared_ptr aggregate aggregate-base
                       // cached message compat
  bool cached = false;       // SerializeTraits<T>::SERIALIZED_SIZE_CACHED
  bool top_level_lenient = false;
  std::vector<uint32_t> nest_fields;  // field numbers holding nested aggregates/messages (for the deepen fault)
  void* (*create)() = nullptr;  // fresh, value-initialised object
  void (*destroy)(void*) = nullptr;
  void (*gen)(Rng&, void*, int budget_n, int depth) = nullptr;
  bool (*eq)(const void*, const void*) = nullptr;
  std::string (*diff)(const void*, const void*) = nullptr;
  bool (*enc_empty)(const void*) = nullptr;
  size_t (*calc)(const void*) = nullptr;
  bool (*ser_string)(const void*, std::string&) = nullptr;
  bool (*ser_coded)(const void*, CodedOutputStream&) = nullptr;
  bool (*ser_array_cached)(const void*, void*, size_t) = nullptr;
  bool (*parse_string)(const std::string&, void*) = nullptr;
  bool (*parse_array)(const char*, size_t, void*) = nullptr;
  bool (*parse_coded)(CodedInputStream&, void*) = nullptr;
  bool (*print)(const void*, std::string&) = nullptr;
  // optional extra oracle-1 clauses for this shape (protobuf differential); returns number of evaluations done
  int (*extra)(Rng&, const void* value, int budget_n) = nullptr;
  // optional: a valid encoding produced by "the other side" (protobuf for the compatible structs and vice versa)
  bool (*alt_encoding)(Rng&, int budget_n, std::string& out) = nullptr;
};

std::vector<TypeOps>& registry();
const TypeOps* find_type(const std::string& name);
int type_index(const std::string& name);

}  // namespace vs
