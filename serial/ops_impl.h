// make_ops<T>(): binds one value shape to the babylon Serialization API and to the harness generator / equality.
#pragma once
#include <google/protobuf/io/zero_copy_stream_impl_lite.h>

#include "ops.h"
#include "types.h"

namespace vs {

template <class T>
TypeOps make_ops(const char* name, const char* family, std::vector<uint32_t> nest_fields = {}) {
  using S = ::babylon::Serialization;
  static_assert(::babylon::SerializeTraits<T>::SERIALIZABLE, "shape must be serializable");
  TypeOps o;
  o.name = name;
  o.family = family;
  o.cached = ::babylon::SerializeTraits<T>::SERIALIZED_SIZE_CACHED;
  o.nest_fields = std::move(nest_fields);
  o.create = []() -> void* { return new T(); };
  o.destroy = [](void* p) { delete static_cast<T*>(p); };
  o.gen = [](Rng& r, void* p, int n, int depth) { gen(r, *static_cast<T*>(p), Budget{n, depth}); };
  o.eq = [](const void* a, const void* b) { return eq(*static_cast<const T*>(a), *static_cast<const T*>(b)); };
  o.diff = [](const void* a, const void* b) {
    return first_diff(*static_cast<const T*>(a), *static_cast<const T*>(b));
  };
  o.enc_empty = [](const void* a) { return enc_empty(*static_cast<const T*>(a)); };
  o.calc = [](const void* a) { return S::calculate_serialized_size(*static_cast<const T*>(a)); };
  o.ser_string = [](const void* a, std::string& s) { return S::serialize_to_string(*static_cast<const T*>(a), s); };
  o.ser_coded = [](const void* a, CodedOutputStream& os) {
    return S::serialize_to_coded_stream(*static_cast<const T*>(a), os);
  };
  o.ser_array_cached = [](const void* a, void* buf, size_t n) {
    return S::serialize_to_array_with_cached_size(*static_cast<const T*>(a), buf, n);
  };
  o.parse_string = [](const std::string& s, void* p) { return S::parse_from_string(s, *static_cast<T*>(p)); };
  o.parse_array = [](const char* d, size_t n, void* p) { return S::parse_from_array(d, n, *static_cast<T*>(p)); };
  o.parse_coded = [](CodedInputStream& is, void* p) { return S::parse_from_coded_stream(is, *static_cast<T*>(p)); };
  o.print = [](const void* a, std::string& s) { return S::print_to_string(*static_cast<const T*>(a), s); };
  return o;
}

struct Registrar {
  explicit Registrar(TypeOps o) { registry().push_back(std::move(o)); }
};
#define VS_CAT2(a, b) a##b
#define VS_CAT(a, b) VS_CAT2(a, b)
#define VS_REG(T, name, family, ...) \
  static ::vs::Registrar VS_CAT(vs_reg_, __COUNTER__)(::vs::make_ops<T>(name, family, ##__VA_ARGS__));

}  // namespace vs
