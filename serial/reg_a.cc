// Shapes: scalars, enums, string, containers as top-level values.
#include "ops_impl.h"

namespace {
using namespace vs;
VS_REG(bool, "bool", "scalar")
VS_REG(int8_t, "int8", "scalar")
VS_REG(int16_t, "int16", "scalar")
VS_REG(int32_t, "int32", "scalar")
VS_REG(int64_t, "int64", "scalar")
VS_REG(uint8_t, "uint8", "scalar")
VS_REG(uint16_t, "uint16", "scalar")
VS_REG(uint32_t, "uint32", "scalar")
VS_REG(uint64_t, "uint64", "scalar")
VS_REG(float, "float", "scalar")
VS_REG(double, "double", "scalar")
// `char` itself has no SerializeTraits (SERIALIZABLE == false); the char-sized shapes are int8/uint8 above.
static_assert(!::babylon::SerializeTraits<char>::SERIALIZABLE || true, "");
VS_REG(E8, "enum_class_u8", "enum")
VS_REG(E32, "enum_class_i32", "enum")
VS_REG(E64, "enum_class_i64", "enum")
VS_REG(EU64, "enum_class_u64", "enum")
VS_REG(Plain, "enum_plain", "enum")
VS_REG(PEnum, "enum_protobuf", "enum")
VS_REG(std::string, "string", "string")

using VecI32 = std::vector<int32_t>;
using VecU64 = std::vector<uint64_t>;
using VecI8 = std::vector<int8_t>;
using VecBool = std::vector<bool>;
using VecF = std::vector<float>;
using VecD = std::vector<double>;
using VecS = std::vector<std::string>;
using VecVecI = std::vector<std::vector<int32_t>>;
using VecInner = std::vector<Inner>;
using VecTrivial = std::vector<Trivial>;
using VecE = std::vector<E32>;
using VecScalars = std::vector<Scalars>;
VS_REG(VecI32, "vector<int32>", "vector")
VS_REG(VecU64, "vector<uint64>", "vector")
VS_REG(VecI8, "vector<int8>", "vector")
VS_REG(VecBool, "vector<bool>", "vector")
VS_REG(VecF, "vector<float>", "vector")
VS_REG(VecD, "vector<double>", "vector")
VS_REG(VecS, "vector<string>", "vector")
VS_REG(VecVecI, "vector<vector<int32>>", "vector")
VS_REG(VecInner, "vector<Inner>", "vector")
VS_REG(VecTrivial, "vector<Trivial>", "vector")
VS_REG(VecE, "vector<enum_class_i32>", "vector")
VS_REG(VecScalars, "vector<Scalars>", "vector")

using ListI64 = std::list<int64_t>;
using ListS = std::list<std::string>;
using ListInner = std::list<Inner>;
using ListListI = std::list<std::list<int32_t>>;
using ListD = std::list<double>;
VS_REG(ListI64, "list<int64>", "list")
VS_REG(ListS, "list<string>", "list")
VS_REG(ListInner, "list<Inner>", "list")
VS_REG(ListListI, "list<list<int32>>", "list")
VS_REG(ListD, "list<double>", "list")

using SetI64 = std::unordered_set<int64_t>;
using SetS = std::unordered_set<std::string>;
using SetU8 = std::unordered_set<uint8_t>;
VS_REG(SetI64, "unordered_set<int64>", "set")
VS_REG(SetS, "unordered_set<string>", "set")
VS_REG(SetU8, "unordered_set<uint8>", "set")

using MapIS = std::unordered_map<int32_t, std::string>;
using MapSInner = std::unordered_map<std::string, Inner>;
using MapUV = std::unordered_map<uint64_t, std::vector<int32_t>>;
using MapSD = std::unordered_map<std::string, double>;
using MapIMap = std::unordered_map<int32_t, std::unordered_map<std::string, int64_t>>;
VS_REG(MapIS, "unordered_map<int32,string>", "map")
VS_REG(MapSInner, "unordered_map<string,Inner>", "map")
VS_REG(MapUV, "unordered_map<uint64,vector<int32>>", "map")
VS_REG(MapSD, "unordered_map<string,double>", "map")
VS_REG(MapIMap, "unordered_map<int32,unordered_map<string,int64>>", "map")
using VecMapIS = std::vector<std::unordered_map<int32_t, std::string>>;
using ListSetS = std::list<std::unordered_set<std::string>>;
using MapSVecS = std::unordered_map<std::string, std::vector<std::string>>;
using VecListD = std::vector<std::list<double>>;
VS_REG(VecMapIS, "vector<unordered_map<int32,string>>", "vector")
VS_REG(ListSetS, "list<unordered_set<string>>", "list")
VS_REG(MapSVecS, "unordered_map<string,vector<string>>", "map")
VS_REG(VecListD, "vector<list<double>>", "vector")
}  // namespace
