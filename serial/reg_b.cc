// Shapes: smart pointers, aggregates (with and without bases, arrays, cached sizes, bounded recursion).
#include "ops_impl.h"

namespace {
using namespace vs;
using UpI32 = std::unique_ptr<int32_t>;
using UpS = std::unique_ptr<std::string>;
using UpInner = std::unique_ptr<Inner>;
using UpEmptyable = std::unique_ptr<Emptyable>;
using UpVecI = std::unique_ptr<std::vector<int32_t>>;
using UpUpInner = std::unique_ptr<std::unique_ptr<Inner>>;
using UpConstInner = std::unique_ptr<const Inner>;
using SpD = std::shared_ptr<double>;
using SpS = std::shared_ptr<std::string>;
using SpInner = std::shared_ptr<Inner>;
using SpEmptyable = std::shared_ptr<Emptyable>;
using SpCached = std::shared_ptr<Cached>;
using VecUpInner = std::vector<std::unique_ptr<Inner>>;
using VecSpEmptyable = std::vector<std::shared_ptr<Emptyable>>;
VS_REG(UpI32, "unique_ptr<int32>", "unique_ptr")
VS_REG(UpS, "unique_ptr<string>", "unique_ptr")
VS_REG(UpInner, "unique_ptr<Inner>", "unique_ptr", {1, 2, 3})
VS_REG(UpEmptyable, "unique_ptr<Emptyable>", "unique_ptr", {3})
VS_REG(UpVecI, "unique_ptr<vector<int32>>", "unique_ptr")
VS_REG(UpUpInner, "unique_ptr<unique_ptr<Inner>>", "unique_ptr")
VS_REG(UpConstInner, "unique_ptr<const_Inner>", "unique_ptr")
VS_REG(SpD, "shared_ptr<double>", "shared_ptr")
VS_REG(SpS, "shared_ptr<string>", "shared_ptr")
VS_REG(SpInner, "shared_ptr<Inner>", "shared_ptr")
VS_REG(SpEmptyable, "shared_ptr<Emptyable>", "shared_ptr", {3})
VS_REG(SpCached, "shared_ptr<Cached>", "shared_ptr", {3, 4})
VS_REG(VecUpInner, "vector<unique_ptr<Inner>>", "vector")
VS_REG(VecSpEmptyable, "vector<shared_ptr<Emptyable>>", "vector")

VS_REG(Inner, "Inner", "aggregate")
VS_REG(Trivial, "Trivial", "aggregate")
VS_REG(Scalars, "Scalars", "cached")
VS_REG(Base, "Base", "aggregate")
VS_REG(Derived, "Derived", "aggregate-base", {1, 4})
VS_REG(DerivedC, "DerivedC", "aggregate-base", {3, 200})
VS_REG(Derived2, "Derived2", "aggregate-base", {1})
VS_REG(Emptyable, "Emptyable", "aggregate", {3})
VS_REG(Containers, "Containers", "cached")
VS_REG(Arrays, "Arrays", "array")
VS_REG(Ptrs, "Ptrs", "aggregate", {3, 4, 6, 9, 12})
VS_REG(Mid, "Mid", "cached")
VS_REG(Cached, "Cached", "cached", {3, 4})
VS_REG(Nest8, "Nest8", "aggregate", {3})
VS_REG(Nest3, "Nest3", "aggregate", {3})
}  // namespace
