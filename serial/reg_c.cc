// Shapes: protobuf messages, aggregates holding messages, and the structs declared with the documented field
// numbers, plus the protobuf differential (oracle 1, clause "interoperates with the protobuf encoding").
#include <algorithm>

#include "engine.h"
#include "ops_impl.h"
#include "wire.h"

namespace {
using namespace vs;

template <class A, class B>
bool same_num(A a, B b) {
  return static_cast<B>(a) == b;
}
inline bool same_num(float a, float b) { return eq(a, b); }
inline bool same_num(double a, double b) { return eq(a, b); }

// Compare a babylon struct against the protobuf reference parse of the same bytes: present fields must agree,
// absent fields must still hold the struct's default. Returns the name of the first disagreeing field.
template <class S, class M>
std::string cmp_common(const S& s, const M& m) {
  S d;
#define VS_OPT(f) \
  if (!same_num(s.f, m.has_##f() ? m.f() : static_cast<decltype(m.f())>(d.f))) return #f;
  VS_OPT(b)
  VS_OPT(i8)
  VS_OPT(i16)
  VS_OPT(i32)
  VS_OPT(i64)
  VS_OPT(u8)
  VS_OPT(u16)
  VS_OPT(u32)
  VS_OPT(u64)
  VS_OPT(f)
  VS_OPT(d)
#undef VS_OPT
  if (s.e != (m.has_e() ? m.e() : d.e)) return "e";
  if (s.s != (m.has_s() ? m.s() : d.s)) return "s";
  if (s.by != (m.has_by() ? m.by() : d.by)) return "by";
#define VS_REPF(f)                                        \
  if ((int)s.f.size() != m.f##_size()) return #f;         \
  for (int i = 0; i < m.f##_size(); ++i)                  \
    if (!same_num(s.f[(size_t)i], m.f(i))) return #f;
  VS_REPF(rpb)
  VS_REPF(rpi8)
  VS_REPF(rpi16)
  VS_REPF(rpi32)
  VS_REPF(rpi64)
  VS_REPF(rpu8)
  VS_REPF(rpu16)
  VS_REPF(rpu32)
  VS_REPF(rpu64)
  VS_REPF(rpf)
  VS_REPF(rpd)
#undef VS_REPF
  if ((int)s.rpe.size() != m.rpe_size()) return "rpe";
  for (int i = 0; i < m.rpe_size(); ++i)
    if (s.rpe[(size_t)i] != m.rpe(i)) return "rpe";
  return "";
}
template <class M>
std::string cmp_obj(const CompatObj& s, const M& m) {
  std::string w = cmp_common(s, m);
  if (!w.empty()) return w;
  CompatObj d;
  if (m.has_m()) {
    w = cmp_common(s.m, m.m());
    if (!w.empty()) return "m." + w;
  } else if (!eq(s.m, d.m)) {
    return "m";
  }
  if (m.has_pm() && m.pm().ByteSizeLong() > 0) {
    if (!s.pm) return "pm(null)";
    w = cmp_common(*s.pm, m.pm());
    if (!w.empty()) return "pm." + w;
  } else if (s.pm) {
    // a present-but-empty message field may read back as null or as a default object
    CompatSub ds;
    if (!eq(*s.pm, ds)) return "pm";
  }
  return "";
}

const Pres& pick(Rng& r, const std::vector<Pres>& ps) { return ps[r.below(ps.size())]; }

// babylon-parse `bytes` into a fresh CompatObj under two presentations and compare with the reference message
template <class M>
void check_struct_side(Rng& r, const TypeOps& t, const std::string& bytes, const M& ref, const char* scenario,
                       const CompatObj* origin, bool kept70, bool kept71) {
  std::string trailing;
  std::vector<Pres> all = roundtrip_presentations(r, bytes.size(), trailing);
  for (int k = 0; k < 2 && !failed(); ++k) {
    Pres p = k == 0 ? all[3] /* parse_from_string */ : pick(r, all);
    std::string data = bytes;
    if (p.limit >= 0) data += std::string("\x08\x01", 2);
    CompatObj s;
    ParseReport pr = do_parse(t, data, p, &s);
    if (!pr.ok) {
      fail("compat", std::string(scenario) + "/parse-failed", "CompatObj failed to parse a valid %zu-byte protobuf encoding (%s): %s",
           bytes.size(), pres_class_name(pres_class(p)), hex_encode(bytes.substr(0, 96)).c_str());
    } else {
      std::string w = cmp_obj(s, ref);
      if (!w.empty())
        fail("compat", std::string(scenario) + "/" + w, "field '%s' of CompatObj disagrees with protobuf's parse of the same %zu bytes (%s): %s",
             w.c_str(), bytes.size(), pres_class_name(pres_class(p)), hex_encode(bytes.substr(0, 96)).c_str());
      else if (origin) {
        CompatObj d;
        if (!eq(s.only_rs, kept70 ? origin->only_rs : d.only_rs)) fail("compat", std::string(scenario) + "/only_rs", "struct-only member only_rs lost");
        else if (!eq(s.only_rm, kept71 ? origin->only_rm : d.only_rm)) fail("compat", std::string(scenario) + "/only_rm", "struct-only member only_rm lost");
      }
    }
    note_eval(t, p, FK_NONE, 0, pr.ok && !failed(), true, pr.ok);
  }
}

// permute, drop and extend the top-level records of a valid encoding (hand-built byte string)
std::string mutate_records(Rng& r, const std::string& bytes, bool& kept70, bool& kept71) {
  std::vector<Record> recs;
  kept70 = kept71 = false;
  if (!split_records(bytes, 0, bytes.size(), recs)) return bytes;
  stats().compat_records += recs.size();
  std::vector<std::string> parts;
  for (auto& rc : recs) {
    if (r.chance(1, 4)) continue;  // absent field: must keep its default
    if (rc.field == 70) kept70 = true;
    if (rc.field == 71) kept71 = true;
    parts.push_back(bytes.substr(rc.tag_pos, rc.end - rc.tag_pos));
  }
  int extra = (int)r.below(4);
  for (int i = 0; i < extra; ++i) {  // unknown to the struct and harmless for the reference message
    static const uint32_t nums[] = {62, 63, 69, 72, 99, 127, 128, 999, 1001, 2047, 2048, 100000, 536870910};
    uint32_t f = nums[r.below(sizeof nums / sizeof nums[0])];
    std::string rec;
    switch (r.below(4)) {
      case 0:
        put_varint(rec, ((uint64_t)f << 3) | 0);
        put_varint(rec, gen_int<uint64_t>(r));
        break;
      case 1:
        put_varint(rec, ((uint64_t)f << 3) | 5);
        for (int k = 0; k < 4; ++k) rec.push_back((char)r.next());
        break;
      case 2:
        put_varint(rec, ((uint64_t)f << 3) | 1);
        for (int k = 0; k < 8; ++k) rec.push_back((char)r.next());
        break;
      default: {
        put_varint(rec, ((uint64_t)f << 3) | 2);
        size_t n = r.below(3) == 0 ? 126 + r.below(5) : r.below(20);
        put_varint(rec, n);
        for (size_t k = 0; k < n; ++k) rec.push_back((char)r.next());
        break;
      }
    }
    parts.push_back(rec);
  }
  for (size_t i = parts.size(); i > 1; --i) std::swap(parts[i - 1], parts[r.below(i)]);  // field order must not matter
  std::string out;
  for (auto& p : parts) out += p;
  return out;
}

int compat_extra(Rng& r, const void* value, int budget) {
  const CompatObj& orig = *static_cast<const CompatObj*>(value);
  const TypeOps& t = *find_type("CompatObj");
  using S = ::babylon::Serialization;
  Budget b{budget, budget >= 16 ? 3 : budget >= 4 ? 2 : 1};
  // A: struct -> message
  std::string sbytes;
  if (!S::serialize_to_string(orig, sbytes)) {
    fail("compat", "struct->message/serialize-failed", "serialize_to_string(CompatObj) failed");
    return 0;
  }
  {
    SerialMsg m;
    SerialMsgExt mx;
    if (!S::parse_from_string(sbytes, m) || !mx.ParseFromString(sbytes)) {
      fail("compat", "struct->message/parse-failed", "protobuf cannot parse the %zu-byte encoding of a CompatObj: %s", sbytes.size(),
           hex_encode(sbytes.substr(0, 96)).c_str());
      return 0;
    }
    std::string w = cmp_obj(orig, m);
    if (w.empty()) w = cmp_obj(orig, mx);
    if (!w.empty()) {
      fail("compat", "struct->message/" + w, "field '%s': protobuf reads a different value from the encoding of a CompatObj: %s", w.c_str(),
           hex_encode(sbytes.substr(0, 96)).c_str());
      return 0;
    }
    // every scalar member is always written by babylon: the message must see it as present
    if (!m.has_b() || !m.has_i32() || !m.has_u64() || !m.has_f() || !m.has_d() || !m.has_e() || !m.has_m()) {
      fail("compat", "struct->message/presence", "scalar members of CompatObj missing in protobuf's view of its encoding");
      return 0;
    }
  }
  // B: message -> struct, C: extended message -> struct (unknown kinds skipped)
  SerialMsg msg;
  gen_msg(r, msg, b);
  std::string mbytes = msg.SerializeAsString();
  SerialMsgExt ext;
  gen_msg(r, ext, b);
  std::string xbytes = ext.SerializeAsString();
  if (mbytes.size() <= 4096) check_struct_side(r, t, mbytes, msg, "message->struct", nullptr, false, false);
  if (failed()) return 0;
  if (xbytes.size() <= 4096) check_struct_side(r, t, xbytes, ext, "extended-message->struct", nullptr, false, false);
  if (failed()) return 0;
  // D: hand-built encodings: records permuted, some dropped, unknown ones added; protobuf's parse is the reference
  const std::string* origins[3] = {&sbytes, &mbytes, &xbytes};
  for (int oi = 0; oi < 3 && !failed(); ++oi) {
    if (origins[oi]->size() > 4096) continue;
    bool k70, k71;
    std::string R = mutate_records(r, *origins[oi], k70, k71);
    SerialMsgExt ref;
    if (!ref.ParseFromString(R)) continue;  // not expected; the reference decides what is valid
    check_struct_side(r, t, R, ref, "permuted", oi == 0 ? &orig : nullptr, k70, k71);
    // and the message side of babylon's API on the same bytes
    SerialMsgExt viaBabylon;
    if (!failed() && (!S::parse_from_string(R, viaBabylon) || viaBabylon.SerializeAsString() != ref.SerializeAsString()))
      fail("compat", "permuted/message-api", "Serialization::parse_from_string(message) differs from Message::ParseFromString");
  }
  return 0;
}

bool alt_from_ext(Rng& r, int budget, std::string& out) {
  SerialMsgExt ext;
  gen_msg(r, ext, Budget{budget, budget >= 4 ? 2 : 1});
  return ext.SerializeToString(&out);
}
bool alt_from_struct(Rng& r, int budget, std::string& out) {
  CompatObj o;
  gen(r, o, Budget{budget, budget >= 4 ? 2 : 1});
  return ::babylon::Serialization::serialize_to_string(o, out);
}

using UpMsg = std::unique_ptr<SerialMsg>;
using VecMsg = std::vector<SerialMsg>;
using MapMsg = std::unordered_map<int32_t, SerialMsg>;
VS_REG(SerialMsg, "SerialMsg", "message", {21, 22})
VS_REG(SerialMsgExt, "SerialMsgExt", "message", {21, 22, 43})
VS_REG(UpMsg, "unique_ptr<SerialMsg>", "unique_ptr", {21, 22})
VS_REG(VecMsg, "vector<SerialMsg>", "vector")
VS_REG(MapMsg, "unordered_map<int32,SerialMsg>", "map")
VS_REG(WithMsg, "WithMsg", "cached", {2, 3, 4})
VS_REG(CompatSub, "CompatSub", "compat")
VS_REG(CompatObj, "CompatObj", "compat", {21, 22})

struct Hooks {
  Hooks() {
    for (auto& t : registry()) {
      if (t.name == "CompatObj") {
        t.extra = compat_extra;
        t.alt_encoding = alt_from_ext;
      } else if (t.name == "CompatSub") {
        t.alt_encoding = alt_from_ext;
      } else if (t.name == "SerialMsg" || t.name == "SerialMsgExt") {
        t.alt_encoding = alt_from_struct;
      }
    }
  }
} hooks;
}  // namespace
