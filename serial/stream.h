// The "environment" of C11: the byte stream the parser consumes. The harness owns chunking, EOF, Next() failure
// and the memory each buffer lives in (every buffer handed out is its own exactly-sized heap block so that ASan
// sees any read before/after it, and it is freed on the next Next() so that stale pointers are caught as well).
#pragma once
#include <google/protobuf/io/zero_copy_stream.h>

#include <setjmp.h>

#include <cstdlib>
#include <cstring>
#include <string>

#include "common.h"

namespace vs {

// Spin cut-off: a parser that keeps calling Next() on a stream that has already ended / failed, far more often than
// the input has bytes, is looping without progress. The API under test is noexcept, so the stream jumps back to the
// harness frame that armed the jump (engine.cc do_parse) and the evaluation is reported as class `hang`.
extern sigjmp_buf g_escape_jmp;  // reason 1 = spin (here), 2 = std::terminate (guard.cc)
extern bool g_escape_armed;
extern char g_escape_site[256];
extern char g_escape_msg[512];
void compute_spin_site();  // guard.cc: innermost babylon container frame on the current stack -> g_escape_site

class FaultyInput : public ::google::protobuf::io::ZeroCopyInputStream {
 public:
  // data: all bytes of the stream (payload + trailing garbage); pres decides chunking and failure
  FaultyInput(const std::string& data, const Pres& pres) : _data(data), _pres(pres), _rng(pres.chunk_seed ^ 0x5eed) {
    // legit consumers call Next() once per buffer (<= 2*len+1 incl. zero-sized ones) plus a few times per nesting
    // level after the end (depth <= 150)
    _step_bound = 3 * (uint64_t)data.size() + 700;
  }
  ~FaultyInput() override { release(); }

  bool Next(const void** out, int* size) override {
    ++next_calls;
    release();
    if (next_calls > _step_bound) {
      step_bound_hit = true;
      if (g_escape_armed) {
        compute_spin_site();
        siglongjmp(g_escape_jmp, 1);
      }
      return false;
    }
    if (_failed) return false;
    size_t avail = _data.size() - _pos;
    if (_pres.fail_at >= 0) {
      size_t cap = (size_t)_pres.fail_at > _pos ? (size_t)_pres.fail_at - _pos : 0;
      if (cap == 0) {
        _failed = true;
        fail_fired = true;
        return false;
      }
      if (avail > cap) avail = cap;
    }
    if (avail == 0) {
      _failed = true;  // EOF is sticky
      eof_seen = true;
      return false;
    }
    if (_pres.zero_chunks && !_last_was_zero && _rng.chance(1, 3)) {
      // legal: "the returned buffer may have zero size as long as repeated calls eventually yield data"
      _last_was_zero = true;
      _cur = (char*)malloc(1);
      _cur_size = 0;
      *out = _cur;
      *size = 0;
      return true;
    }
    _last_was_zero = false;
    size_t n;
    if (_pres.chunk > 0) n = (size_t)_pres.chunk;
    else if (_pres.chunk < 0) n = avail;
    else {
      uint64_t r = _rng.below(10);
      n = r < 4 ? 1 + _rng.below(4) : r < 8 ? 1 + _rng.below(16) : 1 + _rng.below(300);
    }
    if (n > avail) n = avail;
    _cur = (char*)malloc(n);
    memcpy(_cur, _data.data() + _pos, n);
    _cur_size = n;
    _pos += n;
    if (_pos > high_water) high_water = _pos;
    *out = _cur;
    *size = (int)n;
    return true;
  }
  void BackUp(int count) override {
    ++backups;
    if (count < 0 || (size_t)count > _cur_size) {
      bad_backup = true;  // contract violation by the consumer
      return;
    }
    // the returned tail stays in the same block; we simply re-serve it from _data in a new block later
    _pos -= (size_t)count;
    _cur_size -= (size_t)count;
  }
  bool Skip(int count) override {
    ++skips;
    release();
    if (count < 0) return false;
    if (_failed) return false;
    size_t avail = _data.size() - _pos;
    if (_pres.fail_at >= 0) {
      size_t cap = (size_t)_pres.fail_at > _pos ? (size_t)_pres.fail_at - _pos : 0;
      if (avail > cap) avail = cap;
    }
    if ((size_t)count > avail) {
      _pos += avail;
      if (_pos > high_water) high_water = _pos;
      _failed = true;
      return false;
    }
    _pos += (size_t)count;
    if (_pos > high_water) high_water = _pos;
    return true;
  }
  int64_t ByteCount() const override { return (int64_t)_pos; }

  uint64_t next_calls = 0, backups = 0, skips = 0;
  size_t high_water = 0;  // bytes ever handed to the consumer
  bool step_bound_hit = false, fail_fired = false, eof_seen = false, bad_backup = false;

 private:
  void release() {
    if (_cur) {
      free(_cur);
      _cur = nullptr;
      _cur_size = 0;
    }
  }
  const std::string& _data;
  Pres _pres;
  Rng _rng;
  size_t _pos = 0;
  char* _cur = nullptr;
  size_t _cur_size = 0;
  bool _failed = false, _last_was_zero = false;
  uint64_t _step_bound;
};

// Output side: small buffers, each its own heap block, collected into a string.
class ChunkedOutput : public ::google::protobuf::io::ZeroCopyOutputStream {
 public:
  ChunkedOutput(int chunk, uint64_t seed) : _chunk(chunk), _rng(seed) {}
  ~ChunkedOutput() override { flush(); }
  bool Next(void** data, int* size) override {
    flush();
    size_t n = _chunk > 0 ? (size_t)_chunk : 1 + _rng.below(40);
    _cur = (char*)malloc(n);
    memset(_cur, 0xcd, n);
    _cur_size = n;
    *data = _cur;
    *size = (int)n;
    return true;
  }
  void BackUp(int count) override {
    if (count < 0 || (size_t)count > _cur_size) {
      bad_backup = true;
      return;
    }
    _cur_size -= (size_t)count;
  }
  int64_t ByteCount() const override { return (int64_t)(out.size() + _cur_size); }
  void flush() {
    if (_cur) {
      out.append(_cur, _cur_size);
      free(_cur);
      _cur = nullptr;
      _cur_size = 0;
    }
  }
  std::string out;
  bool bad_backup = false;

 private:
  int _chunk;
  Rng _rng;
  char* _cur = nullptr;
  size_t _cur_size = 0;
};

}  // namespace vs
