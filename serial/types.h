// Value shapes exercised by the C11 harness, with harness-side generator, canonical equality and an independent
// "does this encode to zero bytes" predicate (needed because a smart pointer to such a value reads back as null).
#pragma once
#include <babylon/serialization.h>

#include <boost/preprocessor/seq/for_each.hpp>
#include <boost/preprocessor/stringize.hpp>
#include <boost/preprocessor/variadic/to_seq.hpp>
#include <climits>
#include <cstdint>
#include <limits>
#include <list>
#include <memory>
#include <string>
#include <type_traits>
#include <unordered_map>
#include <unordered_set>
#include <vector>

#include "common.h"
#include "serial.pb.h"

namespace vs {

using ::vserial::PEnum;
using ::vserial::SerialMsg;
using ::vserial::SerialMsgExt;

// ---------------------------------------------------------------------------------------------- enums
enum class E8 : uint8_t { A = 0, B = 1, M = 127, N = 128, Z = 255 };
enum class E32 : int32_t { MIN = INT32_MIN, N1 = -1, Z = 0, P1 = 1, MAX = INT32_MAX };
enum class E64 : int64_t { MIN = INT64_MIN, N1 = -1, Z = 0, MAX = INT64_MAX };
enum class EU64 : uint64_t { Z = 0, P = 1ull << 63, MAX = UINT64_MAX };
enum Plain { PL_A = 0, PL_B = 7, PL_C = 300 };  // unscoped, no fixed underlying type (as in the docs)

template <class E>
struct EnumInfo;
#define VS_ENUM(E, ...)                         \
  template <>                                   \
  struct EnumInfo<E> {                          \
    static const std::vector<E>& values() {     \
      static const std::vector<E> v{__VA_ARGS__}; \
      return v;                                 \
    }                                           \
  };
VS_ENUM(E8, E8::A, E8::B, E8::M, E8::N, E8::Z)
VS_ENUM(E32, E32::MIN, E32::N1, E32::Z, E32::P1, E32::MAX)
VS_ENUM(E64, E64::MIN, E64::N1, E64::Z, E64::MAX)
VS_ENUM(EU64, EU64::Z, EU64::P, EU64::MAX)
VS_ENUM(Plain, PL_A, PL_B, PL_C)
VS_ENUM(PEnum, ::vserial::P_ZERO, ::vserial::P_ONE, ::vserial::P_TWO, ::vserial::P_NEG, ::vserial::P_BIG,
        ::vserial::P_MIN)

// ---------------------------------------------------------------------------------------------- field visitor
#define VS_F1(r, data, m) f(BOOST_PP_STRINGIZE(m), s.m);
#define VS_FIELDS(...)                                                          \
  static constexpr bool vs_aggregate = true;                                    \
  template <class S_, class F_>                                                 \
  static void vs_visit(S_& s, F_&& f) {                                         \
    BOOST_PP_SEQ_FOR_EACH(VS_F1, _, BOOST_PP_VARIADIC_TO_SEQ(__VA_ARGS__))      \
  }
#define VS_FIELDS_BASE(B, ...)                                                              \
  static constexpr bool vs_aggregate = true;                                                \
  template <class S_, class F_>                                                             \
  static void vs_visit(S_& s, F_&& f) {                                                     \
    f("__base__", static_cast<std::conditional_t<std::is_const_v<S_>, const B, B>&>(s));    \
    BOOST_PP_SEQ_FOR_EACH(VS_F1, _, BOOST_PP_VARIADIC_TO_SEQ(__VA_ARGS__))                  \
  }

// ---------------------------------------------------------------------------------------------- aggregates
struct Inner {
  int32_t a{0};
  std::string s;
  std::vector<int32_t> v;
  BABYLON_SERIALIZABLE(a, s, v)
  VS_FIELDS(a, s, v)
};
struct Trivial {  // every member TRIVIAL => whole struct TRIVIAL (size known at compile time)
  float f{0};
  double d{0};
  BABYLON_SERIALIZABLE(f, d)
  VS_FIELDS(f, d)
};
struct Scalars {  // > 10 SIMPLE members => whole-object cached size
  bool b{false};
  int8_t i8{0};
  int16_t i16{0};
  int32_t i32{0};
  int64_t i64{0};
  uint8_t u8{0};
  uint16_t u16{0};
  uint32_t u32{0};
  uint64_t u64{0};
  float f{0};
  double d{0};
  E8 e8{E8::A};
  E32 e32{E32::Z};
  E64 e64{E64::Z};
  EU64 eu64{EU64::Z};
  Plain pl{PL_A};
  std::string s;
  BABYLON_SERIALIZABLE(b, i8, i16, i32, i64, u8, u16, u32, u64, f, d, e8, e32, e64, eu64, pl, s)
  VS_FIELDS(b, i8, i16, i32, i64, u8, u16, u32, u64, f, d, e8, e32, e64, eu64, pl, s)
};
struct Base {
  int64_t x{0};
  std::string name;
  BABYLON_COMPATIBLE((x, 1)(name, 2))
  VS_FIELDS(x, name)
};
struct Derived : Base {
  double d{0};
  std::vector<std::string> vs;
  std::unique_ptr<Inner> p;
  BABYLON_SERIALIZABLE_WITH_BASE(Base, d, vs, p)
  VS_FIELDS_BASE(Base, d, vs, p)
};
struct DerivedC : Base {
  uint32_t u{0};
  std::list<Inner> li;
  std::shared_ptr<Inner> sp;
  BABYLON_COMPATIBLE_WITH_BASE((Base, 3), (u, 1)(li, 7)(sp, 200))
  VS_FIELDS_BASE(Base, u, li, sp)
};
struct Derived2 : Derived {  // two levels of bases
  int8_t z{0};
  std::unordered_map<int32_t, std::string> m;
  BABYLON_SERIALIZABLE_WITH_BASE(Derived, z, m)
  VS_FIELDS_BASE(Derived, z, m)
};
struct Emptyable {  // can encode to zero bytes
  std::string s;
  std::vector<int32_t> v;
  std::unique_ptr<Inner> p;
  BABYLON_SERIALIZABLE(s, v, p)
  VS_FIELDS(s, v, p)
};
struct Containers {
  std::vector<int32_t> vi;
  std::vector<uint64_t> vu;
  std::vector<bool> vb;
  std::vector<float> vf;
  std::vector<double> vd;
  std::vector<std::string> vs;
  std::vector<std::vector<int32_t>> vv;
  std::vector<Inner> va;
  std::vector<Trivial> vt;
  std::list<int64_t> li;
  std::list<std::string> ls;
  std::unordered_set<int32_t> si;
  std::unordered_set<std::string> ss;
  std::unordered_map<int32_t, std::string> mis;
  std::unordered_map<std::string, Inner> msa;
  std::unordered_map<uint64_t, std::vector<int32_t>> muv;
  BABYLON_SERIALIZABLE(vi, vu, vb, vf, vd, vs, vv, va, vt, li, ls, si, ss, mis, msa, muv)
  VS_FIELDS(vi, vu, vb, vf, vd, vs, vv, va, vt, li, ls, si, ss, mis, msa, muv)
};
struct Arrays {
  int32_t ai[4]{};
  uint8_t ab[3]{};
  bool abool[5]{};
  float af[3]{};
  double ad[2]{};
  std::string as[2];
  Inner aa[2];
  Trivial at[2];
  E32 ae[2]{};
  int64_t aa2[2][3]{};
  BABYLON_SERIALIZABLE(ai, ab, abool, af, ad, as, aa, at, ae, aa2)
  VS_FIELDS(ai, ab, abool, af, ad, as, aa, at, ae, aa2)
};
struct Ptrs {
  std::unique_ptr<int32_t> ui;
  std::unique_ptr<std::string> us;
  std::unique_ptr<Inner> ua;
  std::unique_ptr<Emptyable> ue;
  std::unique_ptr<std::vector<int32_t>> uv;
  std::shared_ptr<Inner> sa;
  std::shared_ptr<std::string> ss;
  std::shared_ptr<double> sd;
  std::shared_ptr<Emptyable> se;
  std::vector<std::unique_ptr<Inner>> vua;
  std::vector<std::shared_ptr<Emptyable>> vse;
  std::unique_ptr<const Inner> uc;
  BABYLON_COMPATIBLE((ui, 1)(us, 2)(ua, 3)(ue, 4)(uv, 5)(sa, 6)(ss, 7)(sd, 8)(se, 9)(vua, 10)(vse, 11)(uc, 12))
  VS_FIELDS(ui, us, ua, ue, uv, sa, ss, sd, se, vua, vse, uc)
};
struct WithMsg {  // protobuf messages as members (cached sizes)
  int32_t a{0};
  SerialMsg m;
  std::unique_ptr<SerialMsg> pm;
  std::shared_ptr<SerialMsg> sm;
  std::vector<SerialMsg> vm;
  std::string tail;
  BABYLON_SERIALIZABLE(a, m, pm, sm, vm, tail)
  VS_FIELDS(a, m, pm, sm, vm, tail)
};
// cached-size aggregates: COMPLEX members get per-field caches, nested vectors of cached aggregates
struct Mid {
  std::vector<Inner> ins;
  std::vector<std::string> names;
  std::list<std::vector<int32_t>> lv;
  int64_t k{0};
  BABYLON_SERIALIZABLE(ins, names, lv, k)
  VS_FIELDS(ins, names, lv, k)
};
struct Cached {
  std::vector<Mid> mids;
  std::unordered_map<std::string, Mid> mm;
  Inner in;
  std::unique_ptr<Mid> pm;
  Mid am[2];
  std::string tail;
  BABYLON_COMPATIBLE((mids, 1)(mm, 2)(in, 3)(pm, 4)(am, 5)(tail, 15))
  VS_FIELDS(mids, mm, in, pm, am, tail)
};
// bounded-depth recursive shape (the macro can be used neither on a directly recursive type nor inside a template)
struct Nest0 {
  int32_t v{0};
  std::string s;
  BABYLON_COMPATIBLE((v, 1)(s, 4))
  VS_FIELDS(v, s)
};
#define VS_NEST(N, M)                                 \
  struct Nest##N {                                    \
    int32_t v{0};                                     \
    std::vector<Nest##M> kids;                        \
    std::unique_ptr<Nest##M> p;                       \
    std::string s;                                    \
    BABYLON_COMPATIBLE((v, 1)(kids, 2)(p, 3)(s, 4))   \
    VS_FIELDS(v, kids, p, s)                          \
  };
VS_NEST(1, 0)
VS_NEST(2, 1)
VS_NEST(3, 2)
VS_NEST(4, 3)
VS_NEST(5, 4)
VS_NEST(6, 5)
VS_NEST(7, 6)
VS_NEST(8, 7)
#undef VS_NEST

// Structs declared with the documented field numbers: interoperate with SerialMsg / SerialMsgExt.
struct CompatSub {
  bool b{false};
  int8_t i8{0};
  int16_t i16{0};
  int32_t i32{0};
  int64_t i64{0};
  uint8_t u8{0};
  uint16_t u16{0};
  uint32_t u32{0};
  uint64_t u64{0};
  float f{0};
  double d{0};
  PEnum e{::vserial::P_ZERO};
  std::string s;
  std::string by;
  std::vector<bool> rpb;
  std::vector<int8_t> rpi8;
  std::vector<int16_t> rpi16;
  std::vector<int32_t> rpi32;
  std::vector<int64_t> rpi64;
  std::vector<uint8_t> rpu8;
  std::vector<uint16_t> rpu16;
  std::vector<uint32_t> rpu32;
  std::vector<uint64_t> rpu64;
  std::vector<float> rpf;
  std::vector<double> rpd;
  std::vector<PEnum> rpe;
  BABYLON_COMPATIBLE((b, 1)(i8, 2)(i16, 3)(i32, 4)(i64, 5)(u8, 6)(u16, 7)(u32, 8)(u64, 9)(f, 16)(d, 17)(e, 18)(s, 19)(
      by, 20)(rpb, 44)(rpi8, 45)(rpi16, 46)(rpi32, 47)(rpi64, 48)(rpu8, 49)(rpu16, 50)(rpu32, 51)(rpu64, 52)(rpf, 59)(
      rpd, 60)(rpe, 61))
  VS_FIELDS(b, i8, i16, i32, i64, u8, u16, u32, u64, f, d, e, s, by, rpb, rpi8, rpi16, rpi32, rpi64, rpu8, rpu16, rpu32,
            rpu64, rpf, rpd, rpe)
};
struct CompatObj {
  bool b{false};
  int8_t i8{0};
  int16_t i16{0};
  int32_t i32{0};
  int64_t i64{0};
  uint8_t u8{0};
  uint16_t u16{0};
  uint32_t u32{0};
  uint64_t u64{0};
  float f{0};
  double d{0};
  PEnum e{::vserial::P_ZERO};
  std::string s;
  std::string by;
  CompatSub m;
  std::unique_ptr<CompatSub> pm;
  std::vector<bool> rpb;
  std::vector<int8_t> rpi8;
  std::vector<int16_t> rpi16;
  std::vector<int32_t> rpi32;
  std::vector<int64_t> rpi64;
  std::vector<uint8_t> rpu8;
  std::vector<uint16_t> rpu16;
  std::vector<uint32_t> rpu32;
  std::vector<uint64_t> rpu64;
  std::vector<float> rpf;
  std::vector<double> rpd;
  std::vector<PEnum> rpe;
  std::vector<std::string> only_rs;  // struct-only members: unknown to both messages
  std::vector<CompatSub> only_rm;
  BABYLON_COMPATIBLE((b, 1)(i8, 2)(i16, 3)(i32, 4)(i64, 5)(u8, 6)(u16, 7)(u32, 8)(u64, 9)(f, 16)(d, 17)(e, 18)(s, 19)(
      by, 20)(m, 21)(pm, 22)(rpb, 44)(rpi8, 45)(rpi16, 46)(rpi32, 47)(rpi64, 48)(rpu8, 49)(rpu16, 50)(rpu32, 51)(
      rpu64, 52)(rpf, 59)(rpd, 60)(rpe, 61)(only_rs, 70)(only_rm, 71))
  VS_FIELDS(b, i8, i16, i32, i64, u8, u16, u32, u64, f, d, e, s, by, m, pm, rpb, rpi8, rpi16, rpi32, rpi64, rpu8, rpu16,
            rpu32, rpu64, rpf, rpd, rpe, only_rs, only_rm)
};

// ---------------------------------------------------------------------------------------------- type traits
template <class T>
struct is_vector : std::false_type {};
template <class T, class A>
struct is_vector<std::vector<T, A>> : std::true_type {};
template <class T>
struct is_vector_bool : std::false_type {};
template <class A>
struct is_vector_bool<std::vector<bool, A>> : std::true_type {};
template <class T>
struct is_list : std::false_type {};
template <class T, class A>
struct is_list<std::list<T, A>> : std::true_type {};
template <class T>
struct is_uset : std::false_type {};
template <class K, class H, class E, class A>
struct is_uset<std::unordered_set<K, H, E, A>> : std::true_type {};
template <class T>
struct is_umap : std::false_type {};
template <class K, class V, class H, class E, class A>
struct is_umap<std::unordered_map<K, V, H, E, A>> : std::true_type {};
template <class T>
struct is_uptr : std::false_type {};
template <class T>
struct is_uptr<std::unique_ptr<T>> : std::true_type {};
template <class T>
struct is_sptr : std::false_type {};
template <class T>
struct is_sptr<std::shared_ptr<T>> : std::true_type {};
template <class T>
concept Aggregate = requires { T::vs_aggregate; };
template <class T>
concept Message = std::is_base_of_v<::google::protobuf::MessageLite, T>;

// ---------------------------------------------------------------------------------------------- generator
struct Budget {
  int n;      // scale: max element count, string length scale; 0 = simplest value of the shape
  int depth;  // remaining levels at which containers may still be populated generously
  Budget child() const { return Budget{n > 3 ? n / 2 : n, depth > 0 ? depth - 1 : 0}; }
};
inline int pick_count(Rng& r, Budget b) {
  if (b.n <= 0) return 0;
  int cap = b.depth > 0 ? b.n : (b.n < 2 ? b.n : 2);
  switch (r.below(6)) {
    case 0: return 0;
    case 1: return 1;
    case 2: return cap < 2 ? cap : 2;
    case 3: return cap < 3 ? cap : 3;
    default: return (int)r.below((uint64_t)cap + 1);
  }
}
template <class I>
I gen_int(Rng& r) {
  using U = std::make_unsigned_t<I>;
  constexpr int bits = sizeof(I) * 8;
  switch (r.below(9)) {
    case 0: return (I)0;
    case 1: return (I)1;
    case 2: return (I)(U)~(U)0;  // -1 / max
    case 3: return std::numeric_limits<I>::min();
    case 4: return std::numeric_limits<I>::max();
    case 5: return (I)(U)((U)1 << r.below(bits));
    case 6: return (I)(U)(((U)1 << r.below(bits)) - 1);
    case 7: return (I)(U)(r.next() & 0xff);  // around the 7-bit varint boundary
    default: return (I)(U)r.next();
  }
}
inline float gen_float(Rng& r) {
  static const uint32_t pat[] = {0x00000000u, 0x80000000u, 0x7f800000u, 0xff800000u, 0x7fc00000u, 0xffc00001u,
                                 0x7f800001u, 0x00000001u, 0x007fffffu, 0x00800000u, 0x7f7fffffu, 0x3f800000u,
                                 0xbf800000u, 0x7fffffffu};
  uint32_t u = r.chance(2, 3) ? pat[r.below(sizeof pat / sizeof pat[0])] : (uint32_t)r.next();
  float f;
  memcpy(&f, &u, 4);
  return f;
}
inline double gen_double(Rng& r) {
  static const uint64_t pat[] = {0x0ull, 0x8000000000000000ull, 0x7ff0000000000000ull, 0xfff0000000000000ull,
                                 0x7ff8000000000000ull, 0xfff8000000000001ull, 0x7ff0000000000001ull, 0x1ull,
                                 0x000fffffffffffffull, 0x0010000000000000ull, 0x7fefffffffffffffull,
                                 0x3ff0000000000000ull, 0x7fffffffffffffffull};
  uint64_t u = r.chance(2, 3) ? pat[r.below(sizeof pat / sizeof pat[0])] : r.next();
  double d;
  memcpy(&d, &u, 8);
  return d;
}
inline size_t pick_strlen(Rng& r, Budget b) {
  if (b.n <= 0) return 0;
  switch (r.below(8)) {
    case 0: return 0;
    case 1: return 1;
    case 2: return 2;
    case 3: return b.n >= 8 && b.depth > 0 ? 126 + r.below(4) : 3;  // length varint 1 -> 2 bytes
    default: return r.below((uint64_t)(b.depth > 0 ? 4 * b.n : b.n) + 1);
  }
}
inline void gen_bytes(Rng& r, std::string& s, Budget b) {
  size_t n = pick_strlen(r, b);
  s.clear();
  int style = (int)r.below(4);
  for (size_t i = 0; i < n; ++i) {
    switch (style) {
      case 0: s.push_back((char)r.next()); break;                               // arbitrary bytes incl. NUL
      case 1: s.push_back("\x00\xff\x80\x7f\x01"[r.below(5)]); break;           // boundary bytes
      case 2: s.push_back((char)('a' + r.below(26))); break;
      default: s.push_back((char)(r.chance(1, 4) ? 0x80 | r.below(128) : r.below(128))); break;  // varint-looking
    }
  }
}
inline void gen_utf8(Rng& r, std::string& s, Budget b) {
  size_t n = pick_strlen(r, b);
  s.clear();
  static const char* multi[] = {"\xc3\xa9", "\xe4\xb8\xad", "\xf0\x9f\x98\x80", "\xc2\x80"};
  while (s.size() < n) {
    if (r.chance(1, 6)) s += multi[r.below(4)];
    else s.push_back((char)(r.below(127) + (r.chance(1, 10) ? 0 : 1)));
  }
}

template <class M>
void gen_msg(Rng& r, M& m, Budget b);

template <class T>
void gen(Rng& r, T& v, Budget b) {
  if constexpr (std::is_same_v<T, bool>) {
    v = b.n > 0 && r.chance(1, 2);
  } else if constexpr (std::is_enum_v<T>) {
    const auto& vals = EnumInfo<T>::values();
    v = b.n > 0 ? vals[r.below(vals.size())] : T{};
  } else if constexpr (std::is_integral_v<T>) {
    v = b.n > 0 ? gen_int<T>(r) : T{};
  } else if constexpr (std::is_same_v<T, float>) {
    v = b.n > 0 ? gen_float(r) : 0.f;
  } else if constexpr (std::is_same_v<T, double>) {
    v = b.n > 0 ? gen_double(r) : 0.;
  } else if constexpr (std::is_same_v<T, std::string>) {
    gen_bytes(r, v, b);
  } else if constexpr (std::is_array_v<T>) {
    for (auto& e : v) gen(r, e, b.child());
  } else if constexpr (is_vector<T>::value) {
    v.clear();
    int n = pick_count(r, b);
    if constexpr (is_vector_bool<T>::value) {
      for (int i = 0; i < n; ++i) v.push_back(r.chance(1, 2));
    } else {
      v.resize((size_t)n);
      for (auto& e : v) gen(r, e, b.child());
    }
  } else if constexpr (is_list<T>::value) {
    v.clear();
    int n = pick_count(r, b);
    for (int i = 0; i < n; ++i) {
      v.emplace_back();
      gen(r, v.back(), b.child());
    }
  } else if constexpr (is_uset<T>::value) {
    v.clear();
    int n = pick_count(r, b);
    for (int i = 0; i < n; ++i) {
      typename T::key_type k{};
      gen(r, k, b.child());
      v.insert(std::move(k));
    }
  } else if constexpr (is_umap<T>::value) {
    v.clear();
    int n = pick_count(r, b);
    for (int i = 0; i < n; ++i) {
      typename T::key_type k{};
      typename T::mapped_type m{};
      gen(r, k, b.child());
      gen(r, m, b.child());
      v.emplace(std::move(k), std::move(m));
    }
  } else if constexpr (is_uptr<T>::value || is_sptr<T>::value) {
    using P = std::remove_const_t<typename T::element_type>;
    int c = b.n <= 0 ? 0 : (int)r.below(10);
    if (c < 3) {
      v.reset();  // null
    } else {
      auto* p = new P();
      // c in 3..4: pointer to the simplest value of the shape (often an empty encoding), else a drawn value
      gen(r, *p, c < 5 ? Budget{0, 0} : b.child());
      v.reset(p);
    }
  } else if constexpr (Message<T>) {
    gen_msg(r, v, b);
  } else if constexpr (Aggregate<T>) {
    T::vs_visit(v, [&](const char* name, auto& field) {
      using F = std::remove_reference_t<decltype(field)>;
      // members called "s" of the protobuf-compatible structs are `string` fields on the other side: keep them UTF-8
      if constexpr (std::is_same_v<F, std::string> &&
                    (std::is_same_v<T, CompatSub> || std::is_same_v<T, CompatObj>)) {
        if (name[0] == 's' && name[1] == 0) {
          gen_utf8(r, field, b);
          return;
        }
      }
      gen(r, field, b);
    });
  } else {
    static_assert(sizeof(T) == 0, "no generator for this shape");
  }
}

template <class M>
void gen_msg(Rng& r, M& m, Budget b) {
  m.Clear();
  if (b.n <= 0) return;
  auto on = [&] { return r.chance(1, 2); };
  if (on()) m.set_b(r.chance(1, 2));
  if (on()) m.set_i8(gen_int<int8_t>(r));
  if (on()) m.set_i16(gen_int<int16_t>(r));
  if (on()) m.set_i32(gen_int<int32_t>(r));
  if (on()) m.set_i64(gen_int<int64_t>(r));
  if (on()) m.set_u8(gen_int<uint8_t>(r));
  if (on()) m.set_u16(gen_int<uint16_t>(r));
  if (on()) m.set_u32(gen_int<uint32_t>(r));
  if (on()) m.set_u64(gen_int<uint64_t>(r));
  if (on()) m.set_f(gen_float(r));
  if (on()) m.set_d(gen_double(r));
  if (on()) {
    PEnum e;
    gen(r, e, b);
    m.set_e(e);
  }
  if (on()) gen_utf8(r, *m.mutable_s(), b);
  if (on()) gen_bytes(r, *m.mutable_by(), b);
  if (b.depth > 0 && r.chance(1, 3)) gen_msg(r, *m.mutable_m(), b.child());
  if (b.depth > 0 && r.chance(1, 3)) gen_msg(r, *m.mutable_pm(), r.chance(1, 4) ? Budget{0, 0} : b.child());
  Budget c = b.child();
#define VS_REP(field, expr)                 \
  if (r.chance(1, 3)) {                     \
    int n = pick_count(r, c);               \
    for (int i = 0; i < n; ++i) m.add_##field(expr); \
  }
  VS_REP(rpb, r.chance(1, 2))
  VS_REP(rpi8, gen_int<int8_t>(r))
  VS_REP(rpi16, gen_int<int16_t>(r))
  VS_REP(rpi32, gen_int<int32_t>(r))
  VS_REP(rpi64, gen_int<int64_t>(r))
  VS_REP(rpu8, gen_int<uint8_t>(r))
  VS_REP(rpu16, gen_int<uint16_t>(r))
  VS_REP(rpu32, gen_int<uint32_t>(r))
  VS_REP(rpu64, gen_int<uint64_t>(r))
  VS_REP(rpf, gen_float(r))
  VS_REP(rpd, gen_double(r))
  VS_REP(rpe, EnumInfo<PEnum>::values()[r.below(6)])
  if constexpr (std::is_same_v<M, SerialMsgExt>) {
    // kinds the babylon structs do not know
    if (on()) m.set_x_s32(gen_int<int32_t>(r));
    if (on()) m.set_x_s64(gen_int<int64_t>(r));
    if (on()) m.set_x_f32(gen_int<uint32_t>(r));
    if (on()) m.set_x_f64(gen_int<uint64_t>(r));
    if (on()) m.set_x_sf32(gen_int<int32_t>(r));
    if (on()) m.set_x_sf64(gen_int<int64_t>(r));
    VS_REP(x_rs32, gen_int<int32_t>(r))
    VS_REP(x_rf64, gen_int<uint64_t>(r))
    VS_REP(x_rpsf32, gen_int<int32_t>(r))
    if (r.chance(1, 3)) {
      int n = pick_count(r, c);
      for (int i = 0; i < n; ++i) gen_utf8(r, *m.add_x_rs(), c);
    }
    if (b.depth > 0 && r.chance(1, 4)) {
      int n = pick_count(r, Budget{2, 0});
      for (int i = 0; i < n; ++i) gen_msg(r, *m.add_x_rm(), c);
    }
    if (on()) gen_utf8(r, *m.mutable_x_big(), b);
    if (on()) m.set_x_far(gen_int<uint64_t>(r));
  }
#undef VS_REP
}

// ---------------------------------------------------------------------------------------------- empty encoding
template <class T>
bool enc_empty(const T& v) {
  if constexpr (std::is_arithmetic_v<T> || std::is_enum_v<T>) {
    return false;
  } else if constexpr (std::is_same_v<T, std::string>) {
    return v.empty();
  } else if constexpr (std::is_array_v<T>) {
    return false;  // N >= 1 elements of at least one byte each (no arrays of scalar pointers are used)
  } else if constexpr (is_vector<T>::value || is_list<T>::value || is_uset<T>::value || is_umap<T>::value) {
    return v.empty();  // every element costs at least one byte in all shapes used here
  } else if constexpr (is_uptr<T>::value || is_sptr<T>::value) {
    return !v || enc_empty(*v);
  } else if constexpr (Message<T>) {
    return v.ByteSizeLong() == 0;
  } else if constexpr (Aggregate<T>) {
    bool all = true;
    T::vs_visit(v, [&](const char*, const auto& f) { all = all && enc_empty(f); });
    return all;
  } else {
    static_assert(sizeof(T) == 0, "no enc_empty for this shape");
  }
}

// ---------------------------------------------------------------------------------------------- equality
// Canonical equality of the property: floats by bit pattern (NaN-aware), unordered containers as sets, a smart
// pointer to a value with an empty encoding equals null.
template <class T>
bool eq(const T& a, const T& b) {
  if constexpr (std::is_same_v<T, float>) {
    return memcmp(&a, &b, 4) == 0;
  } else if constexpr (std::is_same_v<T, double>) {
    return memcmp(&a, &b, 8) == 0;
  } else if constexpr (std::is_arithmetic_v<T> || std::is_enum_v<T> || std::is_same_v<T, std::string>) {
    return a == b;
  } else if constexpr (std::is_array_v<T>) {
    for (size_t i = 0; i < std::extent_v<T>; ++i)
      if (!eq(a[i], b[i])) return false;
    return true;
  } else if constexpr (is_vector_bool<T>::value) {
    return a == b;
  } else if constexpr (is_vector<T>::value || is_list<T>::value) {
    if (a.size() != b.size()) return false;
    auto ia = a.begin();
    auto ib = b.begin();
    for (; ia != a.end(); ++ia, ++ib)
      if (!eq(*ia, *ib)) return false;
    return true;
  } else if constexpr (is_uset<T>::value) {
    if (a.size() != b.size()) return false;
    for (auto& k : a)
      if (b.find(k) == b.end()) return false;
    return true;
  } else if constexpr (is_umap<T>::value) {
    if (a.size() != b.size()) return false;
    for (auto& kv : a) {
      auto it = b.find(kv.first);
      if (it == b.end() || !eq(kv.second, it->second)) return false;
    }
    return true;
  } else if constexpr (is_uptr<T>::value || is_sptr<T>::value) {
    bool ea = enc_empty(a), eb = enc_empty(b);
    if (ea || eb) return ea && eb;
    return eq(*a, *b);
  } else if constexpr (Message<T>) {
    return a.SerializeAsString() == b.SerializeAsString();  // deterministic; includes unknown fields; NaN-safe
  } else if constexpr (Aggregate<T>) {
    // visit both in lock step: collect addresses of b's members first
    std::vector<const void*> bf;
    T::vs_visit(b, [&](const char*, const auto& f) { bf.push_back(&f); });
    bool same = true;
    size_t i = 0;
    T::vs_visit(a, [&](const char*, const auto& f) {
      using F = std::remove_reference_t<decltype(f)>;
      if (same && !eq(f, *static_cast<const F*>(bf[i]))) same = false;
      ++i;
    });
    return same;
  } else {
    static_assert(sizeof(T) == 0, "no eq for this shape");
  }
}
// name of the first differing member (diagnostics only)
template <class T>
std::string first_diff(const T& a, const T& b) {
  if constexpr (Aggregate<T>) {
    std::vector<const void*> bf;
    T::vs_visit(b, [&](const char*, const auto& f) { bf.push_back(&f); });
    std::string res;
    size_t i = 0;
    T::vs_visit(a, [&](const char* name, const auto& f) {
      using F = std::remove_reference_t<decltype(f)>;
      if (res.empty() && !eq(f, *static_cast<const F*>(bf[i]))) {
        std::string sub = first_diff(f, *static_cast<const F*>(bf[i]));
        res = std::string(name) + (sub.empty() ? "" : "." + sub);
      }
      ++i;
    });
    return res;
  } else if constexpr (is_uptr<T>::value || is_sptr<T>::value) {
    if (a && b) return "*" + first_diff(*a, *b);
    return a ? "(expected non-null, got null)" : "(expected null, got non-null)";
  } else if constexpr (is_vector<T>::value || is_list<T>::value || is_uset<T>::value || is_umap<T>::value) {
    if (a.size() != b.size()) return sfmt("(size %zu vs %zu)", a.size(), b.size());
    return "";
  } else {
    return "";
  }
}

}  // namespace vs
