// Harness-owned minimal protobuf wire reader/writer (independent of babylon and of protobuf's parser): used to
// build permuted / extended encodings by hand and to aim structure-aware faults at tags and length prefixes.
#pragma once
#include <cstdint>
#include <string>
#include <vector>

#include "common.h"

namespace vs {

inline void put_varint(std::string& o, uint64_t v) {
  while (v >= 0x80) {
    o.push_back((char)(v | 0x80));
    v >>= 7;
  }
  o.push_back((char)v);
}
// returns number of bytes used, 0 on failure
inline size_t get_varint(const std::string& b, size_t pos, uint64_t& v) {
  v = 0;
  for (size_t i = 0; i < 10 && pos + i < b.size(); ++i) {
    uint64_t c = (unsigned char)b[pos + i];
    v |= (c & 0x7f) << (7 * i);
    if (!(c & 0x80)) return i + 1;
  }
  return 0;
}

struct Record {
  uint32_t field = 0;
  int wire = 0;
  size_t tag_pos = 0;      // offset of the tag
  size_t len_pos = 0;      // offset of the length varint (wire type 2), else 0
  size_t payload_pos = 0;  // offset of the payload
  size_t end = 0;          // one past the record
};

// Split b[from,to) into top-level records; false if it is not a well-formed record sequence.
inline bool split_records(const std::string& b, size_t from, size_t to, std::vector<Record>& out) {
  size_t p = from;
  while (p < to) {
    Record r;
    r.tag_pos = p;
    uint64_t tag;
    size_t n = get_varint(b, p, tag);
    if (!n || p + n > to || tag > 0xffffffffull || (tag >> 3) == 0) return false;
    p += n;
    r.field = (uint32_t)(tag >> 3);
    r.wire = (int)(tag & 7);
    r.payload_pos = p;
    uint64_t v;
    switch (r.wire) {
      case 0:
        n = get_varint(b, p, v);
        if (!n || p + n > to) return false;
        p += n;
        break;
      case 1:
        if (p + 8 > to) return false;
        p += 8;
        break;
      case 5:
        if (p + 4 > to) return false;
        p += 4;
        break;
      case 2:
        r.len_pos = p;
        n = get_varint(b, p, v);
        if (!n || p + n > to || v > to - (p + n)) return false;
        p += n;
        r.payload_pos = p;
        p += (size_t)v;
        break;
      default:
        return false;
    }
    r.end = p;
    out.push_back(r);
  }
  return true;
}

// Collect offsets of tags and of length varints, descending into payloads that are themselves record sequences.
inline void walk_structure(const std::string& b, size_t from, size_t to, int depth, std::vector<size_t>& tags,
                           std::vector<size_t>& lens) {
  std::vector<Record> recs;
  if (!split_records(b, from, to, recs)) return;
  for (auto& r : recs) {
    tags.push_back(r.tag_pos);
    if (r.wire == 2) {
      lens.push_back(r.len_pos);
      if (depth < 12 && r.end > r.payload_pos) walk_structure(b, r.payload_pos, r.end, depth + 1, tags, lens);
    }
  }
}

}  // namespace vs
