// Shadow of absl/base/config.h for the "ship" flavour: keep TSan
// *instrumentation* (our seam) but compile the code paths babylon ships,
// i.e. without its ABSL_HAVE_THREAD_SANITIZER special cases.  DESIGN.md §2.1.
#pragma once
#include_next <absl/base/config.h>
#undef ABSL_HAVE_THREAD_SANITIZER
