// Child side of a run (set-up, config from plan, harness invocation) and the
// plan <-> JSON conversion.  DESIGN.md §2.6, §2.7.
#include <pthread.h>
#include <signal.h>
#include <sys/time.h>
#include <stdio.h>
#include <stdlib.h>
#include <string.h>
#include <sys/resource.h>
#include <unistd.h>

#include "json.h"
#include "state.h"

namespace sim {

void gen_common(Rng& r, Plan& p, int sb_mode, bool faults, uint64_t expected_steps) {
  int sb = 0;
  if (sb_mode == SB_ALWAYS) sb = r.chance(1, 4) ? 2 : 1;
  else if (sb_mode == SB_HALF) sb = r.chance(1, 2) ? (r.chance(1, 4) ? 2 : 1) : 0;
  p.cfg["sb"] = sb;
  static const int dens[] = {2, 8, 64, 512};
  p.cfg["sb_den"] = dens[r.below(4)];
  int pol = (int)r.below(8);  // 0-2 random, 3-4 sticky, 5-6 pct, 7 starve
  int policy = pol <= 2 ? 0 : pol <= 4 ? 1 : pol <= 6 ? 2 : 3;
  p.cfg["policy"] = policy;
  static const int stick[] = {2, 4, 8, 16, 50};
  p.cfg["sticky_den"] = stick[r.below(5)];
  p.cfg["pct_depth"] = (int64_t)r.range(1, 3);
  p.cfg["pct_expected"] = (int64_t)expected_steps;
  p.cfg["faults"] = faults ? 1 : 0;
  static const int sp[] = {50, 200, 1000};
  p.cfg["spurious_den"] = faults ? sp[r.below(3)] : 0;
  p.cfg["jump_den"] = 0;
  p.cfg["starve_from"] = (int64_t)r.below(expected_steps ? expected_steps : 1);
  p.cfg["starve_len"] = (int64_t)r.range(50, 2000);
  p.cfg["starve_tid"] = (int64_t)r.range(0, 5);
  p.cfg["t0"] = 1000000000LL;
  p.cfg["post_pts"] = r.chance(2, 5) ? 1 : 0;
  // post-publish stall in a quarter of the post_pts runs. Derived from a value
  // drawn above instead of a new draw, so that the plans of all harnesses stay
  // what they were for every seed (only the schedule of these runs changes).
  if (p.cfg["post_pts"] && (p.cfg["starve_from"] & 3) == 0) p.cfg["post_stall"] = 16;
}

namespace rt {

std::string plan_to_json(const Plan& p, const Harness& h) {
  std::string o = "{\"cfg\":{";
  bool first = true;
  char b[96];
  for (auto& kv : p.cfg) {
    if (!first) o += ",";
    first = false;
    o += json::quote(kv.first);
    snprintf(b, sizeof b, ":%lld", (long long)kv.second);
    o += b;
  }
  o += "},\"threads\":[";
  int nnames = 0;
  while (h.op_names && h.op_names[nnames]) nnames++;
  for (size_t t = 0; t < p.threads.size(); t++) {
    if (t) o += ",";
    o += "[";
    for (size_t i = 0; i < p.threads[t].size(); i++) {
      const Op& op = p.threads[t][i];
      if (i) o += ",";
      o += "{\"op\":";
      if (op.kind >= 0 && op.kind < nnames) o += json::quote(h.op_names[op.kind]);
      else { snprintf(b, sizeof b, "\"#%d\"", op.kind); o += b; }
      snprintf(b, sizeof b, ",\"a\":%lld,\"b\":%lld,\"c\":%lld,\"id\":%d}", (long long)op.a, (long long)op.b, (long long)op.c, op.id);
      o += b;
    }
    o += "]";
  }
  o += "]}";
  return o;
}

bool plan_from_json(const std::string& s, Plan& p, const Harness& h) {
  json::Value v;
  if (!json::parse(s, v) || v.type != json::Value::OBJ) return false;
  p.cfg.clear();
  p.threads.clear();
  const json::Value* cfg = v.get("cfg");
  if (cfg) for (size_t i = 0; i < cfg->ok.size(); i++) p.cfg[cfg->ok[i]] = cfg->ov[i].type == json::Value::INT ? cfg->ov[i].i : (int64_t)cfg->ov[i].d;
  const json::Value* th = v.get("threads");
  if (th) for (auto& t : th->a) {
    std::vector<Op> ops;
    for (auto& o : t.a) {
      Op op;
      std::string name = o.gets("op");
      op.kind = -1;
      if (!name.empty() && name[0] == '#') op.kind = atoi(name.c_str() + 1);
      else for (int i = 0; h.op_names && h.op_names[i]; i++) if (name == h.op_names[i]) op.kind = i;
      if (op.kind < 0) return false;
      op.a = o.geti("a"); op.b = o.geti("b"); op.c = o.geti("c"); op.id = (int)o.geti("id");
      ops.push_back(op);
    }
    p.threads.push_back(ops);
  }
  return true;
}

static __thread const char* tl_crash_site = nullptr;
}  // namespace rt
void set_crash_site(const char* site) { rt::tl_crash_site = site; }
namespace rt {
static void crash_handler(int sig, siginfo_t* si, void*) {
  char buf[200];
  snprintf(buf, sizeof buf, "signal %d (%s) fault address %p in T%d", sig, sig == SIGSEGV ? "SIGSEGV" : sig == SIGBUS ? "SIGBUS" : sig == SIGFPE ? "SIGFPE" : sig == SIGABRT ? "SIGABRT" : "SIGILL", si ? si->si_addr : nullptr, self ? self->id : -1);
  finish(1, "crash", tl_crash_site ? tl_crash_site : (sig == SIGABRT ? "abort" : "signal"), buf);
}

static void run_spec(const RunSpec& spec) {
  core_reset_run();
  mem_reset_run();
  sync_reset_run();
  G.spec = &spec;
  G.trace = spec.trace;
  G.max_steps = spec.max_steps;
  Plan* plan = new Plan();
  if (spec.plan) *plan = *spec.plan;
  else {
    Rng r(spec.seed);
    g_harness.gen(r, *plan, spec.gp);
  }
  G.plan = plan;
  const Plan& p = *plan;
  if (p.get("max_steps", 0) > 0) G.max_steps = (uint64_t)p.get("max_steps", 0);  // long burn-in shapes
  G.post_pts = (int)p.get("post_pts", 0);
  G.relseq17 = (int)p.get("relseq17", 0);
  G.post_stall_den = (uint32_t)p.get("post_stall", 0);
  G.stall_tid = -1; G.stall_to = 0;
  G.storebuf = (int)p.get("sb", 0);
  G.commit_den = (uint32_t)p.get("sb_den", 8);
  if (G.commit_den < 1) G.commit_den = 1;
  G.policy = (int)p.get("policy", 0);
  G.sticky_den = (uint32_t)p.get("sticky_den", 8);
  if (G.sticky_den < 2) G.sticky_den = 2;
  G.pct_depth = (int)p.get("pct_depth", 2);
  if (G.pct_depth > 4) G.pct_depth = 4;
  G.pct_expected = (uint64_t)p.get("pct_expected", 2000);
  G.faults = p.get("faults", 0) != 0;
  G.spurious_den = (uint32_t)p.get("spurious_den", 0);
  G.jump_den = (uint32_t)p.get("jump_den", 0);
  G.starve_tid = (int)p.get("starve_tid", -1);
  G.starve_from = (uint64_t)p.get("starve_from", 0);
  G.starve_to = G.starve_from + (uint64_t)p.get("starve_len", 0);
  // virtual time never goes backwards inside one process
  int64_t t0 = p.get("t0", 1000000000LL);
  G.now = t0 > G.now ? t0 : G.now + 1000000000LL;
  G.run_start = G.now;
  G.max_idle_jumps = (uint64_t)p.get("max_idle_jumps", 20000);
  G.pub.storebuf = G.storebuf; G.pub.policy = G.policy; G.pub.faults = G.faults;
  uint64_t ss = spec.sched_seed ? spec.sched_seed : mix64(spec.seed, 0x5ced5ced);
  G.srng.reseed(ss);
  for (int i = 0; i < G.pct_depth; i++) G.pct_points[i] = G.srng.below(G.pct_expected ? G.pct_expected : 1);
  if (spec.decisions) {
    G.replay = true;
    for (auto& d : *spec.decisions) G.rmap.emplace(dkey(d.tid, d.op, d.k), d);
  }
  Thread* t0p = &G.th[0];
  t0p->id = 0; t0p->st = ST_RUN; t0p->park = 0; t0p->real = pthread_self();
  t0p->prio = 500000;
  t0p->vc.clear(); t0p->vc.c[0] = 1;
  static uintptr_t main_lo = 0, main_hi = 0;
  if (!main_hi) {
    pthread_attr_t attr;
    if (pthread_getattr_np(pthread_self(), &attr) == 0) {
      void* lo; size_t sz;
      pthread_attr_getstack(&attr, &lo, &sz);
      main_lo = (uintptr_t)lo; main_hi = (uintptr_t)lo + sz;
      pthread_attr_destroy(&attr);
    }
  }
  t0p->stack_lo = main_lo; t0p->stack_hi = main_hi;
  G.nth = 1;
  g_vc_n = 1;
  G.cur = t0p;
  self = t0p;
  G.active = true;
  g_harness.run(p);
  sb_drain(self);
  // the run is over; every other simulated thread must be gone before the
  // process can host another run
  bool leftover = false;
  for (int i = 1; i < G.nth; i++) if (G.th[i].st != ST_DONE) leftover = true;
  if (leftover) finish(0, "", "", "");  // result ok, but this process cannot be reused
  G.active = false;
  emit_result(0, "", "", "");
  self = nullptr;
}

// Busy hang in code without scheduling points (a plain loop that never ends, in
// babylon or in an oracle walking what babylon handed out): the token holder
// burns CPU and the step counter stands still. Measured in *CPU time of this
// process* (ITIMER_PROF), so machine load cannot trigger it; a thread blocked in
// a real primitive that escaped the simulator burns no CPU and is still
// reported as an infrastructure error by the runner's wall-clock watchdog.
static volatile uint64_t g_prof_last = ~0ULL;
static volatile int g_prof_same = 0;
static void prof_handler(int) {
  if (!G.active) { g_prof_same = 0; g_prof_last = ~0ULL; return; }
  uint64_t cur = G.steps ^ (G.hash << 20);
  if (cur != g_prof_last) { g_prof_last = cur; g_prof_same = 0; return; }
  if (++g_prof_same >= 10)
    finish(1, "hang", tl_crash_site ? tl_crash_site : "busy-loop-without-scheduling-point",
           "the running thread consumed 10 s of CPU time without reaching a scheduling point (endless loop over plain memory)");
}

[[noreturn]] void child_main(const RunSpec* specs, size_t n, int out_fd) {
  G.out_fd = out_fd;
  heap_child_init();
  struct sigaction sa;
  memset(&sa, 0, sizeof sa);
  sa.sa_sigaction = crash_handler;
  sa.sa_flags = SA_SIGINFO | SA_NODEFER;
  sigaction(SIGSEGV, &sa, nullptr);
  sigaction(SIGBUS, &sa, nullptr);
  sigaction(SIGFPE, &sa, nullptr);
  sigaction(SIGILL, &sa, nullptr);
  sigaction(SIGABRT, &sa, nullptr);
  {
    struct sigaction sp;
    memset(&sp, 0, sizeof sp);
    sp.sa_handler = prof_handler;
    sp.sa_flags = SA_RESTART;
    sigaction(SIGPROF, &sp, nullptr);
    struct itimerval it;
    it.it_interval.tv_sec = 1; it.it_interval.tv_usec = 0;
    it.it_value = it.it_interval;
    setitimer(ITIMER_PROF, &it, nullptr);
  }
  // glibc's __libc_single_threaded flips on the first pthread_create and makes
  // libstdc++ switch shared_ptr reference counts from plain to atomic ops (=
  // scheduling points). Flip it now, so that the first run of a process sees
  // the same instruction stream as every later one.
  {
    pthread_t th;
    if (pthread_create(&th, nullptr, [](void*) -> void* { return nullptr; }, nullptr) == 0) pthread_join(th, nullptr);
  }
  for (size_t i = 0; i < n; i++) run_spec(specs[i]);
  _exit(0);
}

}  // namespace rt
}  // namespace sim
