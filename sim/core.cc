// Scheduler, thread table, blocking, verdicts.  DESIGN.md §2.2, §2.3, §2.6.
#include <dlfcn.h>
#include <errno.h>
#include <linux/futex.h>
#include <stdarg.h>
#include <stdio.h>
#include <stdlib.h>
#include <sys/syscall.h>
#include <unistd.h>

#include "state.h"

namespace sim {

// ---------------------------------------------------------------------------
// PRNG
static inline uint64_t rotl(uint64_t x, int k) { return (x << k) | (x >> (64 - k)); }
static inline uint64_t splitmix(uint64_t& x) {
  uint64_t z = (x += 0x9e3779b97f4a7c15ULL);
  z = (z ^ (z >> 30)) * 0xbf58476d1ce4e5b9ULL;
  z = (z ^ (z >> 27)) * 0x94d049bb133111ebULL;
  return z ^ (z >> 31);
}
void Rng::reseed(uint64_t seed) {
  uint64_t x = seed;
  for (int i = 0; i < 4; i++) s[i] = splitmix(x);
}
uint64_t Rng::next() {
  uint64_t r = rotl(s[1] * 5, 7) * 9, t = s[1] << 17;
  s[2] ^= s[0]; s[3] ^= s[1]; s[1] ^= s[2]; s[0] ^= s[3];
  s[2] ^= t; s[3] = rotl(s[3], 45);
  return r;
}
uint64_t mix64(uint64_t a, uint64_t b) {
  uint64_t x = a * 0x9e3779b97f4a7c15ULL + b + 0x632be59bd9b4e019ULL;
  return splitmix(x);
}

extern "C" char __executable_start, _end;

namespace rt {

Globals G;
int g_vc_n = 1;
__thread Thread* self = nullptr;

void* real_sym(const char* name) {
  void* p = dlsym(RTLD_NEXT, name);
  if (!p) {
    fprintf(stderr, "sim: cannot resolve real %s\n", name);
    abort();
  }
  return p;
}

long raw_futex(uint32_t* addr, int op, uint32_t val) {
  long ret;
  register long r10 __asm__("r10") = 0;
  register long r8 __asm__("r8") = 0;
  register long r9 __asm__("r9") = 0;
  __asm__ volatile("syscall"
                   : "=a"(ret)
                   : "a"(SYS_futex), "D"(addr), "S"(op), "d"(val), "r"(r10),
                     "r"(r8), "r"(r9)
                   : "rcx", "r11", "memory");
  return ret;
}

static void unpark(Thread* t) {
  __atomic_store_n(&t->park, 1, __ATOMIC_RELEASE);
  raw_futex(&t->park, FUTEX_WAKE | FUTEX_PRIVATE_FLAG, 1);
}
static void park(Thread* t) {
  while (__atomic_load_n(&t->park, __ATOMIC_ACQUIRE) == 0)
    raw_futex(&t->park, FUTEX_WAIT | FUTEX_PRIVATE_FLAG, 0);
  __atomic_store_n(&t->park, 0, __ATOMIC_RELAXED);
}
// used by the trampoline of a freshly created thread
void park_new(Thread* t) { park(t); }

static inline void hmix(uint64_t& h, uint64_t v) {
  h ^= v;
  h *= 1099511628211ULL;
}


static void log_dec(Thread* me, int kind, int64_t arg, int64_t arg2 = 0) {
  if (!G.keep_log) return;
  Dec d{me->id, me->op, me->k, kind, arg, arg2};
  G.log.push_back(d);
}

// ---------------------------------------------------------------------------
static int64_t g_min_deadline = -1;
static void write_all(int fd, const char* p, size_t n) {
  while (n) {
    ssize_t w = ::write(fd, p, n);
    if (w <= 0) {
      if (w < 0 && errno == EINTR) continue;
      break;
    }
    p += w;
    n -= (size_t)w;
  }
}

static void sanitize(MString& s) {
  for (auto& ch : s)
    if (ch == '\n' || ch == '\r') ch = ' ';
}

void emit_result(int status, const char* cls, const char* site, const char* msg) {
  MString out;
  char buf[512];
  snprintf(buf, sizeof buf, "status=%d\n", status); out += buf;
  MString c(cls ? cls : ""), s(site ? site : ""), m(msg ? msg : "");
  sanitize(c); sanitize(s); sanitize(m);
  out += "class="; out += c; out += "\n";
  out += "site="; out += s; out += "\n";
  out += "msg="; out += m; out += "\n";
  snprintf(buf, sizeof buf,
           "hash=%llu\nihash=%llu\nsteps=%llu\nswitches=%llu\nswitches_in_op=%llu\nvtime=%lld\nthreads=%d\n",
           (unsigned long long)G.hash, (unsigned long long)G.ihash,
           (unsigned long long)G.steps, (unsigned long long)G.switches,
           (unsigned long long)G.switches_in_op, (long long)(G.now - G.run_start), G.nth);
  out += buf;
  for (auto& kv : G.probes) {
    snprintf(buf, sizeof buf, "probe=%s %llu\n", kv.first.c_str(), (unsigned long long)kv.second);
    out += buf;
  }
  for (auto& kv : G.faultc) {
    snprintf(buf, sizeof buf, "fault=%s %llu\n", kv.first.c_str(), (unsigned long long)kv.second);
    out += buf;
  }
  if ((status == 1 || G.spec->want_plan) && G.plan) {
    std::string pj = plan_to_json(*G.plan, g_harness);
    out += "plan=";
    out.append(pj.data(), pj.size());
    out += "\n";
  }
  if (status == 1 || G.spec->want_log) {
    for (auto& d : G.log) {
      snprintf(buf, sizeof buf, "dec=%d %d %u %d %lld %lld\n", d.tid, d.op, d.k,
               d.kind, (long long)d.arg, (long long)d.arg2);
      out += buf;
    }
  }
  out += "end=1\n";
  write_all(G.out_fd, out.data(), out.size());
}

// While a harness executes a call whose failure it can attribute to one listed,
// unrepaired defect (sim::fail_context), every violation raised by *this thread*
// is reported under that defect's class/site, with the original classification
// kept in the message; violations of other threads are unaffected.
static __thread const char* tl_ctx_cls = nullptr;
static __thread const char* tl_ctx_site = nullptr;
void set_fail_context(const char* cls, const char* site) { tl_ctx_cls = cls; tl_ctx_site = site; }

[[noreturn]] void finish(int status, const char* cls, const char* site,
                         const char* msg) {
  if (G.finishing) _exit(0);
  G.finishing = true;
  G.active = false;  // anything we do from here on is pass-through
  if (status == 1 && tl_ctx_cls && tl_ctx_site) {
    static char buf[1400];
    snprintf(buf, sizeof buf, "[%s/%s] %s", cls, site, msg);
    emit_result(status, tl_ctx_cls, tl_ctx_site, buf);
    _exit(0);
  }
  emit_result(status, cls, site, msg);
  _exit(0);
}

void core_reset_run() {
  for (int i = 0; i < MAXT; i++) {
    Thread& t = G.th[i];
    t.id = -1; t.st = ST_FREE; t.park = 0; t.fn = nullptr; t.arg = nullptr; t.ret = nullptr;
    t.detached = t.joined = false; t.wait_addr = 0; t.wait_tid = -1; t.deadline = -1; t.wake_reason = W_NONE;
    t.pts = 0; t.op = -1; t.k = 0; t.in_op = false; t.prio = 0; t.idle_pts = 0; t.ops_done = 0;
    t.watch_deadline = -1; t.watch_pts = 0; t.block_start = 0; t.blocked_ns = 0;
    t.sb.clear(); t.vc.clear(); t.fence_rel.clear(); t.has_fence_rel = false; t.pend_acq.clear(); t.has_pend_acq = false;
  }
  G.nth = 0; G.cur = nullptr; g_vc_n = 1;
  G.steps = G.switches = G.switches_in_op = 0;
  G.hash = G.ihash = 1469598103934665603ULL;
  G.sb_nonempty = 0; G.idle_jumps = 0;
  G.replay = false; G.rmap.clear(); G.log.clear();
  G.probes.clear(); G.faultc.clear();
  G.sc_fence.clear();
  g_min_deadline = -1;
}

void note_shared_write() {
  G.idle_jumps = 0;
  if (self) self->idle_pts = 0;
}

// ---------------------------------------------------------------------------
// choosing who runs

static inline bool runnable(Thread* t) { return t->st == ST_RUN; }

static int count_runnable(Thread** out) {
  int n = 0;
  for (int i = 0; i < G.nth; i++)
    if (G.th[i].st == ST_RUN) out[n++] = &G.th[i];
  return n;
}

void make_runnable(Thread* t, int reason) {
  if (t->st == ST_FUTEX || t->st == ST_COND || t->st == ST_SLEEP) t->blocked_ns += G.now - t->block_start;
  t->st = ST_RUN;
  t->wake_reason = reason;
  t->deadline = -1;
}

// wake every timed waiter whose deadline passed
static void recompute_min_deadline() {
  int64_t m = -1;
  for (int i = 0; i < G.nth; i++) {
    Thread* t = &G.th[i];
    if ((t->st == ST_FUTEX || t->st == ST_COND || t->st == ST_SLEEP) && t->deadline >= 0)
      if (m < 0 || t->deadline < m) m = t->deadline;
  }
  g_min_deadline = m;
}
static void expire_timers() {
  if (g_min_deadline < 0 || g_min_deadline > G.now) return;
  for (int i = 0; i < G.nth; i++) {
    Thread* t = &G.th[i];
    if ((t->st == ST_FUTEX || t->st == ST_COND || t->st == ST_SLEEP) &&
        t->deadline >= 0 && t->deadline <= G.now) {
      if (t->st != ST_SLEEP) G.idle_jumps = 0;  // a finite timed wait ended: progress
      make_runnable(t, W_TIMEOUT);
    }
  }
  recompute_min_deadline();
}

static const char* st_name(int st) {
  static const char* n[] = {"free", "run", "futex", "mutex", "cond", "join", "sleep", "quiesce", "guard", "done"};
  return n[st];
}

static void describe_threads(char* buf, size_t n) {
  size_t o = 0;
  for (int i = 0; i < G.nth && o + 40 < n; i++) {
    Thread* t = &G.th[i];
    o += (size_t)snprintf(buf + o, n - o, "T%d:%s(op%d) ", t->id, st_name(t->st), t->op);
  }
}

// Called when the current thread cannot continue and no thread is runnable.
// Advances virtual time or reports deadlock. Returns a runnable thread.
static Thread* idle_advance() {
  for (;;) {
    // 1. quiescence waiters go first
    for (int i = 0; i < G.nth; i++)
      if (G.th[i].st == ST_QUIESCE) {
        make_runnable(&G.th[i], W_WOKEN);
        return &G.th[i];
      }
    // 2. advance the clock to the earliest deadline
    recompute_min_deadline();
    if (g_min_deadline >= 0) {
      if (g_min_deadline > G.now) {
        G.now = g_min_deadline;
        for (int i = 0; i < G.nth; i++) if (!G.th[i].sb.empty()) sb_drain(&G.th[i]);  // real store buffers drain in nanoseconds
      }
      bool finite_wait = false;
      for (int i = 0; i < G.nth; i++)
        if ((G.th[i].st == ST_FUTEX || G.th[i].st == ST_COND) && G.th[i].deadline >= 0) finite_wait = true;
      if (!finite_wait && ++G.idle_jumps > G.max_idle_jumps) {
        char b[512];
        describe_threads(b, sizeof b);
        finish(1, "stall", "poll-without-progress", b);
      }
      expire_timers();
      for (int i = 0; i < G.nth; i++)
        if (G.th[i].st == ST_RUN) return nullptr;  // let chooser pick
      continue;
    }
    char b[512];
    describe_threads(b, sizeof b);
    finish(1, "deadlock", "no-runnable-thread", b);
  }
}

static Thread* pick_random(Thread** r, int n, Thread* me) {
  (void)me;
  return r[G.srng.below((uint64_t)n)];
}

static void pct_lower(Thread* t) {
  int64_t m = 0;
  for (int i = 0; i < G.nth; i++)
    if (G.th[i].prio < m) m = G.th[i].prio;
  t->prio = m - 1;
}

static Thread* choose_next(Thread* me, bool me_runnable, bool yielding) {
  Thread* r[MAXT];
  int n = count_runnable(r);
  while (n == 0) {
    Thread* t = idle_advance();
    if (t) return t;
    n = count_runnable(r);
  }
  if (G.post_stall_den) {
    if (G.stall_tid >= 0 && G.steps >= G.stall_to) G.stall_tid = -1;
    if (G.stall_tid < 0 && G.cur_kind == P_POST && me_runnable && n > 1 && G.srng.chance(1, G.post_stall_den)) {
      G.stall_tid = me->id;
      G.stall_to = G.steps + G.srng.range(30, 400);
      G.faultc["post_publish_stall"]++;
    }
    if (G.stall_tid >= 0) {
      Thread* o[MAXT]; int m = 0;
      for (int i = 0; i < n; i++) if (r[i]->id != G.stall_tid) o[m++] = r[i];
      if (m > 0) { memcpy(r, o, sizeof(Thread*) * (size_t)m); n = m; }
      if (me_runnable && me->id == G.stall_tid && m > 0) me_runnable = false;  // policies below must not keep it running
    }
  }
  if (n == 1) return r[0];
  switch (G.policy) {
    default:
    case 0:  // random walk
      if (yielding && me_runnable) {
        // prefer others
        Thread* o[MAXT]; int m = 0;
        for (int i = 0; i < n; i++) if (r[i] != me) o[m++] = r[i];
        return o[G.srng.below((uint64_t)m)];
      }
      return pick_random(r, n, me);
    case 1:  // sticky
    case 3:  // starve-one (sticky + victim exclusion)
    {
      if (G.policy == 3 && G.starve_tid >= 0 && G.steps >= G.starve_from && G.steps < G.starve_to) {
        Thread* o[MAXT]; int m = 0;
        for (int i = 0; i < n; i++) if (r[i]->id != G.starve_tid) o[m++] = r[i];
        if (m > 0) { memcpy(r, o, sizeof(Thread*) * (size_t)m); n = m; }
        if (n == 1) return r[0];
      }
      bool me_in = false;
      for (int i = 0; i < n; i++) if (r[i] == me) me_in = true;
      if (me_in && me_runnable && !yielding && !G.srng.chance(1, G.sticky_den)) return me;
      if (me_in && n > 1) {
        Thread* o[MAXT]; int m = 0;
        for (int i = 0; i < n; i++) if (r[i] != me) o[m++] = r[i];
        return o[G.srng.below((uint64_t)m)];
      }
      return pick_random(r, n, me);
    }
    case 2:  // PCT
    {
      for (int i = 0; i < G.pct_depth; i++)
        if (G.pct_points[i] == G.steps && me_runnable) pct_lower(me);
      if (yielding && me_runnable) pct_lower(me);
      if (me_runnable && me->idle_pts > 3000) { pct_lower(me); me->idle_pts = 0; }
      Thread* best = r[0];
      for (int i = 1; i < n; i++)
        if (r[i]->prio > best->prio) best = r[i];
      return best;
    }
  }
}

static Thread* default_next(Thread* me, bool me_runnable) {
  if (me_runnable) return me;
  for (int i = 0; i < G.nth; i++)
    if (G.th[i].st == ST_RUN) return &G.th[i];
  return nullptr;
}

static void switch_to(Thread* me, Thread* next) {
  G.cur = next;
  if (next == me) return;
  G.switches++;
  if (me->in_op || next->in_op) G.switches_in_op++;
  if (G.trace) fprintf(stderr, "  [switch T%d -> T%d]\n", me->id, next->id);
  unpark(next);
  park(me);
}

static void spurious_wake(Thread* t) {
  if (t->st == ST_FUTEX || t->st == ST_COND) {
    make_runnable(t, W_SPURIOUS);
    recompute_min_deadline();
    auto& c = G.faultc[t->st == ST_FUTEX ? "spurious_wake" : "spurious_wake"];
    c++;
  }
}

// Pre-actions + choice at a scheduling point. me may be non-runnable (blocked
// or exiting); returns the chosen thread.
static Thread* decide(Thread* me, bool me_runnable, bool yielding) {
  if (G.replay) {
    uint64_t key = dkey(me->id, me->op, me->k);
    auto range = G.rmap.equal_range(key);
    Thread* chosen = nullptr;
    for (auto it = range.first; it != range.second; ++it) {
      const Dec& d = it->second;
      switch (d.kind) {
        case D_COMMIT: {
          if (d.arg >= 0 && d.arg < G.nth) {
            Thread* t = &G.th[d.arg];
            if ((size_t)d.arg2 < t->sb.size()) sb_commit_one(t, (size_t)d.arg2);
          }
          break;
        }
        case D_SPURIOUS:
          if (d.arg >= 0 && d.arg < G.nth) spurious_wake(&G.th[d.arg]);
          break;
        case D_JUMP:
          G.now += d.arg;
          G.faultc["clock_jump"]++;
          expire_timers();
          break;
        case D_RUN:
          if (d.arg >= 0 && d.arg < G.nth && G.th[d.arg].st == ST_RUN) chosen = &G.th[d.arg];
          break;
        default:
          break;
      }
    }
    if (chosen) return chosen;
    Thread* r[MAXT];
    int n = count_runnable(r);
    while (n == 0) {
      Thread* t = idle_advance();
      if (t) return t;
      n = count_runnable(r);
    }
    if (yielding && me_runnable && n > 1) {
      // round-robin on yield: next higher id runnable
      for (int i = 1; i <= G.nth; i++) {
        Thread* t = &G.th[(me->id + i) % G.nth];
        if (t->st == ST_RUN) return t;
      }
    }
    return default_next(me, me_runnable);
  }
  // ---- random mode ----
  if (G.sb_nonempty > 0) {
    for (int i = 0; i < G.nth; i++) {
      Thread* t = &G.th[i];
      while (!t->sb.empty() && G.srng.chance(1, G.commit_den)) {
        size_t idx = 0;
        if (G.storebuf == 2 && t->sb.size() > 1) {
          // PSO: a later entry may commit first if no release entry up to and
          // including it and different address from all earlier ones
          size_t cand = G.srng.below(t->sb.size());
          bool ok = true;
          for (size_t j = 0; j <= cand && ok; j++) {
            if (t->sb[j].release && j > 0 && j <= cand) ok = false;
            if (j < cand) {
              uintptr_t a0 = t->sb[j].addr, a1 = a0 + t->sb[j].size;
              uintptr_t b0 = t->sb[cand].addr, b1 = b0 + t->sb[cand].size;
              if (a0 < b1 && b0 < a1) ok = false;
            }
          }
          if (t->sb[cand].release && cand > 0) ok = false;
          if (ok) idx = cand;
        }
        log_dec(me, D_COMMIT, t->id, (int64_t)idx);
        sb_commit_one(t, idx);
      }
    }
  }
  if (G.faults) {
    if (G.spurious_den && G.srng.chance(1, G.spurious_den)) {
      Thread* w[MAXT]; int m = 0;
      for (int i = 0; i < G.nth; i++)
        if (G.th[i].st == ST_FUTEX || G.th[i].st == ST_COND) w[m++] = &G.th[i];
      if (m) {
        Thread* t = w[G.srng.below((uint64_t)m)];
        log_dec(me, D_SPURIOUS, t->id);
        spurious_wake(t);
      }
    }
    if (G.jump_den && G.srng.chance(1, G.jump_den)) {
      static const int64_t amounts[] = {1000, 1000000, 50000000, 1000000000LL, 70000000000LL, 300000000000LL};
      int64_t d = amounts[G.srng.below(6)];
      log_dec(me, D_JUMP, d);
      G.now += d;
      G.faultc["clock_jump"]++;
      expire_timers();
    }
  }
  Thread* next = choose_next(me, me_runnable, yielding);
  Thread* dflt = default_next(me, me_runnable);
  if (next != dflt) log_dec(me, D_RUN, next->id);
  return next;
}

static inline void tick(Thread* me, int kind, uintptr_t addr) {
  me->pts++;
  me->k++;
  me->idle_pts++;
  G.steps++;
  G.now += TICK_NS;
  if (me->watch_deadline >= 0 && me->watch_pts == 0 && G.now >= me->watch_deadline) me->watch_pts = me->pts;
  hmix(G.ihash, ((uint64_t)me->id << 8) | (uint64_t)kind);
  hmix(G.hash, ((uint64_t)me->id << 8) | (uint64_t)kind);
  if (addr - 0x600000000000ULL < (4ULL << 30) || (addr >= (uintptr_t)&__executable_start && addr < (uintptr_t)&_end)) hmix(G.hash, addr);
  if (G.steps > G.max_steps) {
    char b[512];
    describe_threads(b, sizeof b);
    finish(3, "budget", "max-steps", b);
  }
  expire_timers();
}

void point(int kind, uintptr_t addr) {
  Thread* me = self;
  if (!me || !G.active || G.cur != me) return;
  tick(me, kind, addr);
  if (G.trace) fprintf(stderr, "T%d op%d k%u kind%d addr=%lx now=%lld\n", me->id, me->op, me->k, kind, (unsigned long)addr, (long long)G.now);
  G.cur_kind = kind;
  Thread* next = decide(me, true, kind == P_YIELD);
  G.cur_kind = 0;
  switch_to(me, next);
}

void yield_hint() {}

// Fault: a sleep is interrupted (EINTR) after part of its duration. Returns the
// shortened duration, or -1 if the sleep is not disturbed. Recorded for replay.
int64_t fault_short_sleep(int64_t ns) {
  Thread* me = self;
  if (!G.faults || ns <= 0) return -1;
  if (G.replay) {
    auto range = G.rmap.equal_range(dkey(me->id, me->op, me->k));
    for (auto it = range.first; it != range.second; ++it)
      if (it->second.kind == D_EARLY) { G.faultc["sleep_eintr"]++; return it->second.arg < ns ? it->second.arg : ns; }
    return -1;
  }
  if (!G.srng.chance(1, 40)) return -1;
  int64_t part = (int64_t)G.srng.below((uint64_t)ns);
  log_dec(me, D_EARLY, part);
  G.faultc["sleep_eintr"]++;
  return part;
}

// Which of n waiters does a wake-up that cannot wake all of them pick? The
// kernel promises no order; the choice is a recorded decision (default: first).
int pick_waiter(int n, int seq) {
  Thread* me = self;
  if (n <= 1) return 0;
  if (G.replay) {
    auto range = G.rmap.equal_range(dkey(me->id, me->op, me->k));
    for (auto it = range.first; it != range.second; ++it)
      if (it->second.kind == D_PICK && it->second.arg2 == seq) return (int)((uint64_t)it->second.arg % (uint64_t)n);
    return 0;
  }
  int v = (int)G.srng.below((uint64_t)n);
  if (v) log_dec(me, D_PICK, v, seq);
  return v;
}

// The current thread blocks. State is set, another thread chosen.
void block(State st, uintptr_t addr, int64_t deadline, int wait_tid) {
  Thread* me = self;
  me->st = st;
  me->wait_addr = addr;
  me->deadline = deadline;
  me->wait_tid = wait_tid;
  me->wake_reason = W_NONE;
  me->block_start = G.now;
  me->k++;
  if (deadline >= 0 && (g_min_deadline < 0 || deadline < g_min_deadline)) g_min_deadline = deadline;
  if (G.trace) fprintf(stderr, "T%d blocks %s addr=%lx deadline=%lld\n", me->id, st_name(st), (unsigned long)addr, (long long)deadline);
  Thread* next = decide(me, false, false);
  if (next == me) {
    // idle_advance made ourselves runnable again (timeout / quiescence)
    G.cur = me;
    return;
  }
  switch_to(me, next);
}

void thread_exit_handoff() {
  Thread* me = self;
  // me->st is already ST_DONE
  int alive = 0;
  for (int i = 0; i < G.nth; i++)
    if (G.th[i].st != ST_DONE) alive++;
  if (alive == 0) {
    // cannot happen: thread 0 finishes the run itself
    finish(4, "infra", "all-threads-done", "no live thread left");
  }
  me->k++;
  Thread* next = decide(me, false, false);
  G.cur = next;
  G.switches++;
  self = nullptr;
  unpark(next);
}

}  // namespace rt

// ---------------------------------------------------------------------------
// public API
using namespace rt;

void fail(const char* cls, const char* site, const char* fmt, ...) {
  char buf[1024];
  va_list ap;
  va_start(ap, fmt);
  vsnprintf(buf, sizeof buf, fmt, ap);
  va_end(ap);
  if (!G.active) {
    fprintf(stderr, "sim::fail outside run: %s %s %s\n", cls, site, buf);
    _exit(3);
  }
  finish(1, cls, site, buf);
}
void skip(const char* why) { finish(2, "skip", why, why); }
void fail_context(const char* cls, const char* site) { rt::set_fail_context(cls, site); }
void probe(const char* name, uint64_t n) { if (G.active) G.probes[name] += n; }
void fault_fired(const char* name, uint64_t n) { if (G.active) G.faultc[name] += n; }
uint64_t stamp() { return G.steps; }
int64_t now_ns() { return G.now; }
int tid() { return self ? self->id : -1; }
int live_threads() {
  int n = 0;
  for (int i = 0; i < G.nth; i++) if (G.th[i].st != ST_DONE) n++;
  return n;
}
void op_begin(int op_id) {
  Thread* me = self;
  if (!me) return;
  me->op = op_id; me->k = 0; me->in_op = true;
  point(P_OP, 0);
}
void op_end() {
  Thread* me = self;
  if (!me) return;
  point(P_OP, 0);
  me->in_op = false;
  me->op = -1 - (int)(++me->ops_done);  // distinct key space between ops
  me->k = 0;
}
void yield_point() { point(P_USER, 0); }
void sleep_ns(int64_t ns) {
  Thread* me = self;
  if (!me || !G.active) return;
  sb_drain(me);
  point(P_SLEEP, 0);
  if (ns > 0) block(ST_SLEEP, 0, G.now + ns);
}
int others_alive() {
  int n = 0;
  for (int i = 0; i < G.nth; i++)
    if (&G.th[i] != self && G.th[i].st != ST_DONE) n++;
  return n;
}
bool all_others_done() { return others_alive() == 0; }
int wait_quiescent() {
  Thread* me = self;
  sb_drain(me);
  point(P_USER, 0);
  bool any = false;
  for (int i = 0; i < G.nth; i++)
    if (&G.th[i] != me && G.th[i].st == ST_RUN) any = true;
  if (any) block(ST_QUIESCE, 0, -1);
  return others_alive();
}
void drain() { if (self) sb_drain(self); }
bool others_blocked_forever() {
  for (int i = 0; i < G.nth; i++) {
    Thread* t = &G.th[i];
    if (t == self || t->st == ST_DONE) continue;
    if (t->st == ST_RUN || t->st == ST_SLEEP || t->st == ST_QUIESCE) return false;
    if (t->deadline >= 0) return false;
  }
  return true;
}
uint32_t my_clock() { return self ? self->vc.c[self->id] : 0; }
bool happened_before_me(int t, uint32_t clock) { return self && t >= 0 && t < MAXT && (t == self->id || self->vc.c[t] >= clock); }
int64_t my_blocked_ns() { return self ? self->blocked_ns : 0; }
uint64_t my_points() { return self ? self->pts : 0; }
void watch_deadline(int64_t abs_ns) { if (self) { self->watch_deadline = abs_ns; self->watch_pts = 0; } }
uint64_t points_since_deadline() { return self && self->watch_pts ? self->pts - self->watch_pts : 0; }
void clock_jump(int64_t ns) {
  if (!G.active) return;
  G.now += ns;
  G.faultc["clock_jump"]++;
  point(P_USER, 0);
}
uint64_t choose(uint64_t n) {
  Thread* me = self;
  point(P_USER, 0);
  if (G.replay) {
    auto range = G.rmap.equal_range(dkey(me->id, me->op, me->k));
    for (auto it = range.first; it != range.second; ++it)
      if (it->second.kind == D_CHOOSE) return (uint64_t)it->second.arg % (n ? n : 1);
    return 0;
  }
  uint64_t v = G.srng.below(n);
  if (v) log_dec(me, D_CHOOSE, (int64_t)v);
  return v;
}
const Config& config() { return G.pub; }
bool tracing() { return G.trace; }
void tracef(const char* fmt, ...) {
  if (!G.trace) return;
  va_list ap;
  va_start(ap, fmt);
  fprintf(stderr, "  # T%d: ", tid());
  vfprintf(stderr, fmt, ap);
  fputc('\n', stderr);
  va_end(ap);
}

}  // namespace sim
