// Internal declarations shared by core.cc and runner.cc.
#pragma once
#include <stdlib.h>

#include <map>
#include <string>
#include <vector>

#include "sim.h"

namespace sim {
namespace rt {

// malloc-backed allocator: simulator bookkeeping must not use the simulated
// C++ heap (operator new), otherwise it would perturb the addresses the code
// under test sees.
template <typename T>
struct MA {
  typedef T value_type;
  MA() {}
  template <typename U>
  MA(const MA<U>&) {}
  T* allocate(size_t n) { return (T*)::malloc(n * sizeof(T)); }
  void deallocate(T* p, size_t) { ::free(p); }
  template <typename U>
  bool operator==(const MA<U>&) const {
    return true;
  }
  template <typename U>
  bool operator!=(const MA<U>&) const {
    return false;
  }
};
typedef std::basic_string<char, std::char_traits<char>, MA<char>> MString;
template <typename T>
using MVec = std::vector<T, MA<T>>;

// One recorded scheduling decision (only non-default ones are recorded).
enum DecKind : int {
  D_RUN = 0,      // arg = thread id to run next
  D_COMMIT = 1,   // arg = thread id whose store buffer entry commits; arg2 = index
  D_SPURIOUS = 2, // arg = thread id woken spuriously from futex/cond wait
  D_JUMP = 3,     // arg = ns to jump the clock forward
  D_CHOOSE = 4,   // arg = value returned by sim::choose
  D_EARLY = 5,    // sleep returns early
  D_PICK = 6,     // which waiter a wake/signal picks: arg = index among the waiters, arg2 = n-th pick of this call
};
struct Dec {
  int tid;
  int op;       // op id (-1 outside ops)
  uint32_t k;   // point counter within op
  int kind;
  int64_t arg;
  int64_t arg2;
};

// What one run should do; filled by the runner before fork.
struct RunSpec {
  uint64_t seed = 1;           // plan seed (gen) and default schedule seed
  uint64_t sched_seed = 0;     // 0 = derive from seed
  const Plan* plan = nullptr;  // override plan (else gen(seed))
  const MVec<Dec>* decisions = nullptr;  // replay recorded decisions
  bool want_plan = false;      // include plan JSON in the result even if ok
  bool want_log = false;       // include the decision log even if ok
  bool trace = false;
  GenParams gp{"", false, -1};
  uint64_t max_steps = 3000000;
};

struct RunResult {
  int status = -1;  // 0 ok, 1 violation, 2 skip, 3 budget(inconclusive), 4 infra
  std::string cls, site, msg;
  uint64_t hash = 0;       // full event hash (exact reproduction)
  uint64_t ihash = 0;      // interleaving hash (thread, kind) only
  uint64_t steps = 0, switches = 0, switches_in_op = 0;
  int64_t vtime_ns = 0;
  int threads = 0;
  std::map<std::string, uint64_t> probes, faults;
  std::string plan_json;
  std::vector<Dec> log;
  std::string raw_tail;  // stderr-ish diagnostics
};

// Runs in the forked child: executes the specs one after the other in this
// process (results streamed to out_fd); never returns. A run that does not end
// with status 0 terminates the process (remaining specs are not run).
[[noreturn]] void child_main(const RunSpec* specs, size_t n, int out_fd);

// Plan <-> JSON
std::string plan_to_json(const Plan& p, const Harness& h);
bool plan_from_json(const std::string& s, Plan& p, const Harness& h);

}  // namespace rt
}  // namespace sim
