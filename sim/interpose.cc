// libc / libstdc++ entry points owned by the simulator.  DESIGN.md §2.1.
#include <errno.h>
#include <linux/futex.h>
#include <pthread.h>
#include <sched.h>
#include <stdarg.h>
#include <stdio.h>
#include <stdlib.h>
#include <sys/syscall.h>
#include <sys/time.h>
#include <sys/uio.h>
#include <time.h>
#include <unistd.h>

#include <absl/time/clock.h>
#include <absl/time/time.h>

#include <deque>
#include <unordered_map>

#include "state.h"

namespace sim {
namespace rt {

void park_new(Thread* t);

static inline bool live() { return self && G.active && G.cur == self; }

// called at every intercepted call: it is a scheduling point and (soundness
// rule) drains the caller's store buffer.
static inline void sync_point(int kind, uintptr_t addr) {
  sb_drain(self);
  point(kind, addr);
  sb_drain(self);
}

// ---------------------------------------------------------------------------
// threads
struct ExitGuard {
  Thread* t = nullptr;
  ~ExitGuard() {
    if (!t || !G.active) return;
    Thread* me = t;
    sb_drain(me);
    point(P_EXIT, 0);
    sb_drain(me);
    me->st = ST_DONE;
    me->vc.c[me->id]++;
    for (int i = 0; i < G.nth; i++)
      if (G.th[i].st == ST_JOIN && G.th[i].wait_tid == me->id) make_runnable(&G.th[i], W_WOKEN);
    thread_exit_handoff();
  }
};
static thread_local ExitGuard tl_guard;

static void* trampoline(void* p) {
  Thread* t = (Thread*)p;
  // construct the guard FIRST so that its destructor runs LAST among the
  // thread's C++ TLS destructors (babylon's ThreadId etc. run before it)
  tl_guard.t = nullptr;
  ExitGuard* g = &tl_guard;
  park_new(t);
  self = t;
  g->t = t;
  pthread_attr_t attr;
  if (pthread_getattr_np(pthread_self(), &attr) == 0) {
    void* lo; size_t sz;
    pthread_attr_getstack(&attr, &lo, &sz);
    t->stack_lo = (uintptr_t)lo; t->stack_hi = (uintptr_t)lo + sz;
    pthread_attr_destroy(&attr);
  }
  void* r = t->fn(t->arg);
  t->ret = r;
  return r;
}

static Thread* find_by_real(pthread_t th) {
  for (int i = 0; i < G.nth; i++)
    if (G.th[i].st != ST_FREE && !G.th[i].joined && !(G.th[i].st == ST_DONE && G.th[i].detached) && pthread_equal(G.th[i].real, th)) return &G.th[i];
  return nullptr;
}

// ---------------------------------------------------------------------------
// mutex / cond / once tables
struct Mtx { int owner = -1; int depth = 0; };
typedef std::unordered_map<uintptr_t, Mtx, std::hash<uintptr_t>, std::equal_to<uintptr_t>,
                           MA<std::pair<const uintptr_t, Mtx>>> MtxMap;
static MtxMap* g_mtx;
static MtxMap& mtx() { if (!g_mtx) g_mtx = new (malloc(sizeof(MtxMap))) MtxMap(); return *g_mtx; }

static int wake_waiters(State st, uintptr_t addr, int max, int reason) {
  Thread* w[MAXT]; int m = 0;
  for (int i = 0; i < G.nth; i++)
    if (G.th[i].st == st && G.th[i].wait_addr == addr) w[m++] = &G.th[i];
  if (m <= max) { for (int i = 0; i < m; i++) make_runnable(w[i], reason); return m; }
  // fewer wake-ups than waiters: who gets them is a scheduler decision
  int n = 0;
  for (; n < max; n++) {
    int idx = pick_waiter(m, n);
    make_runnable(w[idx], reason);
    for (int j = idx; j + 1 < m; j++) w[j] = w[j + 1];
    m--;
  }
  return n;
}

void sync_reset_run();

static int sim_mutex_lock(uintptr_t m, bool try_only) {
  Thread* me = self;
  sync_point(P_MUTEX, m);
  check_sync_object(m, sizeof(pthread_mutex_t));
  for (;;) {
    Mtx& x = mtx()[m];
    if (x.owner < 0) { x.owner = me->id; hb_acquire_obj(m); return 0; }
    if (x.owner == me->id) finish(1, "deadlock", "mutex-relock", "thread locks a non-recursive mutex it already owns");
    if (try_only) return EBUSY;
    block(ST_MUTEX, m, -1);
  }
}
static int sim_mutex_unlock(uintptr_t m) {
  Thread* me = self;
  sync_point(P_MUTEX, m);
  check_sync_object(m, sizeof(pthread_mutex_t));
  Mtx& x = mtx()[m];
  if (x.owner != me->id) return EPERM;
  hb_release_obj(m);
  x.owner = -1;
  wake_waiters(ST_MUTEX, m, MAXT, W_WOKEN);
  if (G.post_pts) point(P_POST, m);
  return 0;
}

static int64_t ts_to_ns(const struct timespec* ts) { return (int64_t)ts->tv_sec * 1000000000LL + ts->tv_nsec; }

static int64_t clock_now(clockid_t id) {
  switch (id) {
    case CLOCK_REALTIME:
    case CLOCK_REALTIME_COARSE:
    case CLOCK_TAI:
      return G.now + G.realtime_offset;
    default:
      return G.now;
  }
}

static int sim_cond_wait(uintptr_t c, uintptr_t m, int64_t deadline_virtual) {
  Thread* me = self;
  sync_point(P_COND, c);
  check_sync_object(c, sizeof(pthread_cond_t));
  // atomically release the mutex and wait
  Mtx& x = mtx()[m];
  if (x.owner == me->id) { hb_release_obj(m); x.owner = -1; wake_waiters(ST_MUTEX, m, MAXT, W_WOKEN); }
  block(ST_COND, c, deadline_virtual);
  int reason = me->wake_reason;
  hb_acquire_obj(c);
  // re-acquire
  for (;;) {
    Mtx& y = mtx()[m];
    if (y.owner < 0) { y.owner = me->id; hb_acquire_obj(m); break; }
    block(ST_MUTEX, m, -1);
  }
  return reason == W_TIMEOUT ? ETIMEDOUT : 0;
}

}  // namespace rt
}  // namespace sim

using namespace sim;
using namespace sim::rt;

// ---------------------------------------------------------------------------
extern "C" {

int pthread_create(pthread_t* th, const pthread_attr_t* attr, void* (*fn)(void*), void* arg) {
  typedef int (*real_t)(pthread_t*, const pthread_attr_t*, void* (*)(void*), void*); static real_t real = nullptr; if (!real) real = (real_t)real_sym("pthread_create");
  if (!live()) return real(th, attr, fn, arg);
  Thread* me = self;
  sync_point(P_CREATE, 0);
  if (G.nth >= MAXT) finish(3, "budget", "max-threads", "too many simulated threads");
  Thread* t = &G.th[G.nth];
  t->id = G.nth;
  t->fn = fn; t->arg = arg; t->park = 0; t->st = ST_RUN;
  t->prio = (int64_t)G.srng.below(1000000);
  int detachstate = PTHREAD_CREATE_JOINABLE;
  if (attr) pthread_attr_getdetachstate(attr, &detachstate);
  t->detached = detachstate == PTHREAD_CREATE_DETACHED;
  G.nth++;
  g_vc_n = G.nth;
  hb_thread_create(me, t);
  int rc = real(&t->real, attr, trampoline, t);
  if (rc != 0) { G.nth--; g_vc_n = G.nth; t->st = ST_FREE; return rc; }
  *th = t->real;
  return 0;
}

int pthread_join(pthread_t th, void** ret) {
  typedef int (*real_t)(pthread_t, void**); static real_t real = nullptr; if (!real) real = (real_t)real_sym("pthread_join");
  if (!live()) return real(th, ret);
  Thread* me = self;
  Thread* t = find_by_real(th);
  if (!t) return real(th, ret);
  sync_point(P_JOIN, 0);
  while (t->st != ST_DONE) block(ST_JOIN, 0, -1, t->id);
  hb_thread_join(me, t);
  t->joined = true;
  return real(th, ret);
}

int pthread_detach(pthread_t th) {
  typedef int (*real_t)(pthread_t); static real_t real = nullptr; if (!real) real = (real_t)real_sym("pthread_detach");
  if (live()) { Thread* t = find_by_real(th); if (t) t->detached = true; }
  return real(th);
}

int pthread_mutex_lock(pthread_mutex_t* m) {
  typedef int (*real_t)(pthread_mutex_t*); static real_t real = nullptr; if (!real) real = (real_t)real_sym("pthread_mutex_lock");
  if (!live()) return real(m);
  return sim_mutex_lock((uintptr_t)m, false);
}
int pthread_mutex_trylock(pthread_mutex_t* m) {
  typedef int (*real_t)(pthread_mutex_t*); static real_t real = nullptr; if (!real) real = (real_t)real_sym("pthread_mutex_trylock");
  if (!live()) return real(m);
  return sim_mutex_lock((uintptr_t)m, true);
}
int pthread_mutex_unlock(pthread_mutex_t* m) {
  typedef int (*real_t)(pthread_mutex_t*); static real_t real = nullptr; if (!real) real = (real_t)real_sym("pthread_mutex_unlock");
  if (!live()) return real(m);
  return sim_mutex_unlock((uintptr_t)m);
}

int pthread_cond_wait(pthread_cond_t* c, pthread_mutex_t* m) {
  typedef int (*real_t)(pthread_cond_t*, pthread_mutex_t*); static real_t real = nullptr; if (!real) real = (real_t)real_sym("pthread_cond_wait");
  if (!live()) return real(c, m);
  return sim_cond_wait((uintptr_t)c, (uintptr_t)m, -1);
}
int pthread_cond_timedwait(pthread_cond_t* c, pthread_mutex_t* m, const struct timespec* abst) {
  typedef int (*real_t)(pthread_cond_t*, pthread_mutex_t*, const struct timespec*); static real_t real = nullptr; if (!real) real = (real_t)real_sym("pthread_cond_timedwait");
  if (!live()) return real(c, m, abst);
  int64_t d = ts_to_ns(abst) - clock_now(CLOCK_REALTIME);
  return sim_cond_wait((uintptr_t)c, (uintptr_t)m, G.now + (d > 0 ? d : 0));
}
int pthread_cond_clockwait(pthread_cond_t* c, pthread_mutex_t* m, clockid_t clk, const struct timespec* abst) {
  typedef int (*real_t)(pthread_cond_t*, pthread_mutex_t*, clockid_t, const struct timespec*); static real_t real = nullptr; if (!real) real = (real_t)real_sym("pthread_cond_clockwait");
  if (!live()) return real(c, m, clk, abst);
  int64_t d = ts_to_ns(abst) - clock_now(clk);
  return sim_cond_wait((uintptr_t)c, (uintptr_t)m, G.now + (d > 0 ? d : 0));
}
int pthread_cond_signal(pthread_cond_t* c) {
  typedef int (*real_t)(pthread_cond_t*); static real_t real = nullptr; if (!real) real = (real_t)real_sym("pthread_cond_signal");
  if (!live()) return real(c);
  sync_point(P_COND, (uintptr_t)c);
  hb_release_obj((uintptr_t)c);
  wake_waiters(ST_COND, (uintptr_t)c, 1, W_WOKEN);
  return 0;
}
int pthread_cond_broadcast(pthread_cond_t* c) {
  typedef int (*real_t)(pthread_cond_t*); static real_t real = nullptr; if (!real) real = (real_t)real_sym("pthread_cond_broadcast");
  if (!live()) return real(c);
  sync_point(P_COND, (uintptr_t)c);
  hb_release_obj((uintptr_t)c);
  wake_waiters(ST_COND, (uintptr_t)c, MAXT, W_WOKEN);
  return 0;
}

int pthread_once(pthread_once_t* once, void (*fn)(void)) {
  typedef int (*real_t)(pthread_once_t*, void (*)(void)); static real_t real = nullptr; if (!real) real = (real_t)real_sym("pthread_once");
  if (!live()) return real(once, fn);
  // states kept in the object itself: 0 = new, 1 = running, 2 = done (glibc's
  // own encoding for "done" is 2 as well, so objects completed before the
  // simulation started are recognised)
  sync_point(P_GUARD, (uintptr_t)once);
  volatile int* st = (volatile int*)once;
  for (;;) {
    if (*st == 2) { hb_acquire_obj((uintptr_t)once); return 0; }
    if (*st == 0) {
      *st = 1;
      fn();
      sync_point(P_GUARD, (uintptr_t)once);
      *st = 2;
      hb_release_obj((uintptr_t)once);
      wake_waiters(ST_GUARD, (uintptr_t)once, MAXT, W_WOKEN);
      return 0;
    }
    block(ST_GUARD, (uintptr_t)once, -1);
  }
}

// static-local initialisation guards (Itanium ABI): byte 0 = initialised,
// byte 1 = in progress.
int __cxa_guard_acquire(uint64_t* g) {
  volatile uint8_t* b = (volatile uint8_t*)g;
  if (!live()) {
    if (b[0]) return 0;
    b[1] = 1;
    return 1;
  }
  sync_point(P_GUARD, (uintptr_t)g);
  for (;;) {
    if (b[0]) { hb_acquire_obj((uintptr_t)g); return 0; }
    if (!b[1]) { b[1] = 1; return 1; }
    block(ST_GUARD, (uintptr_t)g, -1);
  }
}
void __cxa_guard_release(uint64_t* g) {
  volatile uint8_t* b = (volatile uint8_t*)g;
  if (!live()) { b[0] = 1; b[1] = 0; return; }
  sync_point(P_GUARD, (uintptr_t)g);
  b[0] = 1; b[1] = 0;
  hb_release_obj((uintptr_t)g);
  wake_waiters(ST_GUARD, (uintptr_t)g, MAXT, W_WOKEN);
}
void __cxa_guard_abort(uint64_t* g) {
  volatile uint8_t* b = (volatile uint8_t*)g;
  b[1] = 0;
  if (live()) wake_waiters(ST_GUARD, (uintptr_t)g, MAXT, W_WOKEN);
}

// ---------------------------------------------------------------------------
// futex via syscall()
long syscall(long nr, ...) {
  typedef long (*real_t)(long, ...); static real_t real = nullptr; if (!real) real = (real_t)real_sym("syscall");
  va_list ap;
  va_start(ap, nr);
  long a1 = va_arg(ap, long), a2 = va_arg(ap, long), a3 = va_arg(ap, long);
  long a4 = va_arg(ap, long), a5 = va_arg(ap, long), a6 = va_arg(ap, long);
  va_end(ap);
  if (!live()) return real(nr, a1, a2, a3, a4, a5, a6);
  Thread* me = self;
  if (nr == SYS_gettid) return 100000 + me->id;
  if (nr != SYS_futex) return real(nr, a1, a2, a3, a4, a5, a6);
  uintptr_t addr = (uintptr_t)a1;
  int op = (int)a2 & ~(FUTEX_PRIVATE_FLAG | FUTEX_CLOCK_REALTIME);
  if (op == FUTEX_WAIT || op == FUTEX_WAIT_BITSET) {
    sync_point(P_FUTEX_WAIT, addr);
    check_sync_object(addr, 4);
    uint32_t cur = *(volatile uint32_t*)addr;
    if (cur != (uint32_t)a3) { errno = EAGAIN; return -1; }
    const struct timespec* ts = (const struct timespec*)a4;
    int64_t deadline = -1;
    if (ts) {
      int64_t d = ts_to_ns(ts);
      if (op == FUTEX_WAIT_BITSET) d -= clock_now(((int)a2 & FUTEX_CLOCK_REALTIME) ? CLOCK_REALTIME : CLOCK_MONOTONIC);
      if (d < 0) d = 0;
      deadline = G.now + d;
    }
    block(ST_FUTEX, addr, deadline);
    switch (me->wake_reason) {
      case W_TIMEOUT: errno = ETIMEDOUT; return -1;
      case W_SPURIOUS:
        if ((G.steps & 1) == 0) { errno = EINTR; return -1; }
        return 0;
      default:
        hb_acquire_obj(addr ^ 0x5a5a);
        return 0;
    }
  }
  if (op == FUTEX_WAKE || op == FUTEX_WAKE_BITSET) {
    sync_point(P_FUTEX_WAKE, addr);
    check_sync_object(addr, 4);
    int max = (int)a3;
    if (max <= 0) return 0;
    bool any = false;
    for (int i = 0; i < G.nth && !any; i++) any = G.th[i].st == ST_FUTEX && G.th[i].wait_addr == addr;
    if (!any) return 0;
    hb_release_obj(addr ^ 0x5a5a);
    return wake_waiters(ST_FUTEX, addr, max, W_WOKEN);
  }
  errno = ENOSYS;
  return -1;
}

// ---------------------------------------------------------------------------
// time
int clock_gettime(clockid_t id, struct timespec* ts) {
  typedef int (*real_t)(clockid_t, struct timespec*); static real_t real = nullptr; if (!real) real = (real_t)real_sym("clock_gettime");
  if (!live()) return real(id, ts);
  point(P_CLOCK, 0);
  int64_t t = clock_now(id);
  ts->tv_sec = t / 1000000000LL;
  ts->tv_nsec = t % 1000000000LL;
  return 0;
}
int gettimeofday(struct timeval* tv, void* tz) {
  typedef int (*real_t)(struct timeval*, void*); static real_t real = nullptr; if (!real) real = (real_t)real_sym("gettimeofday");
  if (!live()) return real(tv, tz);
  point(P_CLOCK, 0);
  int64_t t = clock_now(CLOCK_REALTIME);
  tv->tv_sec = t / 1000000000LL;
  tv->tv_usec = (t % 1000000000LL) / 1000;
  return 0;
}
time_t time(time_t* out) {
  typedef time_t(*real_t)(time_t*); static real_t real = nullptr; if (!real) real = (real_t)real_sym("time");
  if (!live()) return real(out);
  point(P_CLOCK, 0);
  time_t t = (time_t)(clock_now(CLOCK_REALTIME) / 1000000000LL);
  if (out) *out = t;
  return t;
}

}  // extern "C"

// abseil's GetCurrentTimeNanos() estimates time from the cycle counter and only
// occasionally calls clock_gettime: real time would leak into simulated runs
// (observed: one run in twelve had an extra clock_gettime scheduling point).
// The executable's definitions take precedence over libabsl_time.so's.
namespace absl {
ABSL_NAMESPACE_BEGIN
int64_t GetCurrentTimeNanos() {
  struct timespec ts;
  ::clock_gettime(CLOCK_REALTIME, &ts);  // interposed above: virtual when live
  return (int64_t)ts.tv_sec * 1000000000LL + ts.tv_nsec;
}
Time Now() { return FromUnixNanos(GetCurrentTimeNanos()); }
ABSL_NAMESPACE_END
}  // namespace absl

extern "C" {

static __thread int64_t tl_sleep_remaining = 0;
static int sim_sleep(int64_t ns) {
  tl_sleep_remaining = 0;
  Thread* me = self;
  sync_point(P_SLEEP, 0);
  if (ns <= 0) return 0;
  int64_t part = fault_short_sleep(ns);
  if (part >= 0) {
    if (part > 0) block(ST_SLEEP, 0, G.now + part);
    tl_sleep_remaining = ns - part;
    errno = EINTR;
    return -1;
  }
  block(ST_SLEEP, 0, G.now + ns);
  (void)me;
  return 0;
}
int usleep(useconds_t us) {
  typedef int (*real_t)(useconds_t); static real_t real = nullptr; if (!real) real = (real_t)real_sym("usleep");
  if (!live()) return real(us);
  return sim_sleep((int64_t)us * 1000);
}
unsigned int sleep(unsigned int s) {
  typedef unsigned int (*real_t)(unsigned int); static real_t real = nullptr; if (!real) real = (real_t)real_sym("sleep");
  if (!live()) return real(s);
  sim_sleep((int64_t)s * 1000000000LL);
  return 0;
}
int nanosleep(const struct timespec* req, struct timespec* rem) {
  typedef int (*real_t)(const struct timespec*, struct timespec*); static real_t real = nullptr; if (!real) real = (real_t)real_sym("nanosleep");
  if (!live()) return real(req, rem);
  int64_t ns = ts_to_ns(req);  // req and rem may alias (libstdc++ sleep_for)
  int rc = sim_sleep(ns);
  if (rem) { rem->tv_sec = tl_sleep_remaining / 1000000000LL; rem->tv_nsec = tl_sleep_remaining % 1000000000LL; }
  return rc;
}
int clock_nanosleep(clockid_t id, int flags, const struct timespec* req, struct timespec* rem) {
  typedef int (*real_t)(clockid_t, int, const struct timespec*, struct timespec*); static real_t real = nullptr; if (!real) real = (real_t)real_sym("clock_nanosleep");
  if (!live()) return real(id, flags, req, rem);
  int64_t d = ts_to_ns(req);
  if (flags & TIMER_ABSTIME) d -= clock_now(id);
  int rc = sim_sleep(d);
  if (rem && !(flags & TIMER_ABSTIME)) { rem->tv_sec = tl_sleep_remaining / 1000000000LL; rem->tv_nsec = tl_sleep_remaining % 1000000000LL; }
  return rc == 0 ? 0 : EINTR;
}
int sched_yield(void) {
  typedef int (*real_t)(void); static real_t real = nullptr; if (!real) real = (real_t)real_sym("sched_yield");
  if (!live()) return real();
  sb_drain(self);
  point(P_YIELD, 0);
  return 0;
}

}  // extern "C"

// ---------------------------------------------------------------------------
// file sinks: write/writev/close on fake fds
namespace sim {
namespace rt {
struct Sink { std::string data; int fault = 0; int every = 0; int calls = 0; bool closed = false; };
static const int SINK_BASE = 1000000;
static std::vector<Sink*, MA<Sink*>>* g_sinks;
static Sink* sink_of(int fd) {
  if (!g_sinks || fd < SINK_BASE || (size_t)(fd - SINK_BASE) >= g_sinks->size()) return nullptr;
  return (*g_sinks)[(size_t)(fd - SINK_BASE)];
}
void sync_reset_run() {
  if (g_mtx) g_mtx->clear();
  if (g_sinks) g_sinks->clear();
}
}  // namespace rt
int sink_open() {
  if (!g_sinks) g_sinks = new (malloc(sizeof(*g_sinks))) std::vector<Sink*, MA<Sink*>>();
  g_sinks->push_back(new (malloc(sizeof(Sink))) Sink());
  return SINK_BASE + (int)g_sinks->size() - 1;
}
const std::string& sink_data(int fd) { return sink_of(fd)->data; }
void sink_set_fault(int fd, int kind, int every) { Sink* s = sink_of(fd); s->fault = kind; s->every = every; }
bool sink_closed(int fd) { return sink_of(fd)->closed; }
}  // namespace sim

extern "C" {
ssize_t writev(int fd, const struct iovec* iov, int cnt) {
  typedef ssize_t(*real_t)(int, const struct iovec*, int); static real_t real = nullptr; if (!real) real = (real_t)real_sym("writev");
  Sink* s = sink_of(fd);
  if (!s || !live()) return real(fd, iov, cnt);
  sync_point(P_IO, 0);
  size_t total = 0;
  for (int i = 0; i < cnt; i++) total += iov[i].iov_len;
  s->calls++;
  size_t limit = total;
  if (s->fault && s->every && s->calls % s->every == 0) {
    if (s->fault == 2) { sim::fault_fired("writev_eio"); errno = EIO; return -1; }
    if (s->fault == 3) { sim::fault_fired("writev_enospc"); errno = ENOSPC; return -1; }
    limit = total / 2;
    sim::fault_fired("writev_short");
  }
  size_t done = 0;
  for (int i = 0; i < cnt && done < limit; i++) {
    size_t n = iov[i].iov_len;
    if (done + n > limit) n = limit - done;
    if (n) sim::hb_read(iov[i].iov_base, n);  // zero-length elements (LogEntry page-table pages) touch no memory
    s->data.append((const char*)iov[i].iov_base, n);
    done += n;
  }
  return (ssize_t)done;
}
ssize_t write(int fd, const void* buf, size_t n) {
  typedef ssize_t(*real_t)(int, const void*, size_t); static real_t real = nullptr; if (!real) real = (real_t)real_sym("write");
  Sink* s = sink_of(fd);
  if (!s || !live()) return real(fd, buf, n);
  sync_point(P_IO, 0);
  s->data.append((const char*)buf, n);
  return (ssize_t)n;
}
int close(int fd) {
  typedef int (*real_t)(int); static real_t real = nullptr; if (!real) real = (real_t)real_sym("close");
  Sink* s = sink_of(fd);
  if (!s) return real(fd);
  if (live()) sync_point(P_IO, 0);
  s->closed = true;
  return 0;
}
}
