// Minimal JSON value, parser and writer (runner side only).
#pragma once
#include <stdint.h>
#include <stdio.h>
#include <stdlib.h>
#include <string.h>

#include <map>
#include <string>
#include <vector>

namespace sim {
namespace json {

struct Value {
  enum Type { NUL, BOOL, INT, DBL, STR, ARR, OBJ } type = NUL;
  bool b = false;
  int64_t i = 0;
  double d = 0;
  std::string s;
  std::vector<Value> a;
  std::vector<std::string> ok;  // object keys
  std::vector<Value> ov;        // object values
  const Value* get(const char* k) const {
    for (size_t i = 0; i < ok.size(); i++)
      if (ok[i] == k) return &ov[i];
    return nullptr;
  }
  int64_t geti(const char* k, int64_t d0 = 0) const {
    const Value* v = get(k);
    if (!v) return d0;
    if (v->type == INT) return v->i;
    if (v->type == DBL) return (int64_t)v->d;
    if (v->type == BOOL) return v->b;
    return d0;
  }
  std::string gets(const char* k, const char* d0 = "") const {
    const Value* v = get(k);
    return v && v->type == STR ? v->s : std::string(d0);
  }
};

struct Parser {
  const char* p;
  const char* e;
  bool ok = true;
  void ws() { while (p < e && (*p == ' ' || *p == '\n' || *p == '\t' || *p == '\r')) p++; }
  bool lit(const char* w) {
    size_t n = strlen(w);
    if ((size_t)(e - p) >= n && memcmp(p, w, n) == 0) { p += n; return true; }
    return false;
  }
  Value parse() {
    Value v;
    ws();
    if (p >= e) { ok = false; return v; }
    if (*p == '{') {
      v.type = Value::OBJ; p++; ws();
      if (p < e && *p == '}') { p++; return v; }
      while (ok) {
        ws();
        Value k = parse();
        if (k.type != Value::STR) { ok = false; break; }
        ws();
        if (p >= e || *p != ':') { ok = false; break; }
        p++;
        Value x = parse();
        v.ok.push_back(k.s);
        v.ov.push_back(std::move(x));
        ws();
        if (p < e && *p == ',') { p++; continue; }
        if (p < e && *p == '}') { p++; break; }
        ok = false;
      }
    } else if (*p == '[') {
      v.type = Value::ARR; p++; ws();
      if (p < e && *p == ']') { p++; return v; }
      while (ok) {
        v.a.push_back(parse());
        ws();
        if (p < e && *p == ',') { p++; continue; }
        if (p < e && *p == ']') { p++; break; }
        ok = false;
      }
    } else if (*p == '"') {
      v.type = Value::STR; p++;
      while (p < e && *p != '"') {
        if (*p == '\\' && p + 1 < e) {
          p++;
          switch (*p) {
            case 'n': v.s += '\n'; break;
            case 't': v.s += '\t'; break;
            case 'r': v.s += '\r'; break;
            case 'u': {
              unsigned c = 0;
              if (e - p >= 5) { char h[5] = {p[1], p[2], p[3], p[4], 0}; c = (unsigned)strtoul(h, nullptr, 16); p += 4; }
              v.s += (char)c;
              break;
            }
            default: v.s += *p;
          }
          p++;
        } else v.s += *p++;
      }
      if (p < e) p++; else ok = false;
    } else if (lit("true")) { v.type = Value::BOOL; v.b = true; }
    else if (lit("false")) { v.type = Value::BOOL; v.b = false; }
    else if (lit("null")) { v.type = Value::NUL; }
    else {
      const char* s = p;
      bool dbl = false;
      if (p < e && (*p == '-' || *p == '+')) p++;
      while (p < e && ((*p >= '0' && *p <= '9') || *p == '.' || *p == 'e' || *p == 'E' || *p == '-' || *p == '+')) {
        if (*p == '.' || *p == 'e' || *p == 'E') dbl = true;
        p++;
      }
      if (p == s) { ok = false; return v; }
      std::string t(s, p);
      if (dbl) { v.type = Value::DBL; v.d = strtod(t.c_str(), nullptr); }
      else { v.type = Value::INT; v.i = strtoll(t.c_str(), nullptr, 10); }
    }
    return v;
  }
};

inline bool parse(const std::string& s, Value& out) {
  Parser ps{s.data(), s.data() + s.size()};
  out = ps.parse();
  return ps.ok;
}

inline std::string quote(const std::string& s) {
  std::string o = "\"";
  for (unsigned char c : s) {
    if (c == '"' || c == '\\') { o += '\\'; o += (char)c; }
    else if (c == '\n') o += "\\n";
    else if (c == '\t') o += "\\t";
    else if (c < 0x20 || c >= 0x7f) { char b[8]; snprintf(b, sizeof b, "\\u%04x", c); o += b; }
    else o += (char)c;
  }
  return o + "\"";
}

}  // namespace json
}  // namespace sim
