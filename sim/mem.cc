// Memory model: __tsan_* ABI, store buffers, happens-before clocks, race
// detection on registered ranges, simulated C++ heap.  DESIGN.md §2.4.
#include <stdio.h>
#include <stdlib.h>
#include <sys/mman.h>
#include <unistd.h>

#include <new>
#include <unordered_map>

#include "state.h"

// string-instruction primitives: must not call anything (memcpy/memset below are ours)
static inline void raw_copy_fwd(void* d, const void* s, size_t n) {
  __asm__ volatile("rep movsb" : "+D"(d), "+S"(s), "+c"(n) : : "memory");
}
static inline void raw_copy_bwd(void* d, const void* s, size_t n) {
  unsigned char* dd = (unsigned char*)d + n - 1;
  const unsigned char* ss = (const unsigned char*)s + n - 1;
  __asm__ volatile("std\n\trep movsb\n\tcld" : "+D"(dd), "+S"(ss), "+c"(n) : : "memory");
}
static inline void raw_set(void* d, int c, size_t n) {
  __asm__ volatile("rep stosb" : "+D"(d), "+c"(n) : "a"(c) : "memory");
}

namespace sim {
namespace rt {

enum { MO_RELAXED = 0, MO_CONSUME = 1, MO_ACQUIRE = 2, MO_RELEASE = 3, MO_ACQ_REL = 4, MO_SEQ_CST = 5 };
static inline bool is_acq(int mo) { return mo == MO_CONSUME || mo == MO_ACQUIRE || mo == MO_ACQ_REL || mo == MO_SEQ_CST; }
static inline bool is_rel(int mo) { return mo == MO_RELEASE || mo == MO_ACQ_REL || mo == MO_SEQ_CST; }

// ---------------------------------------------------------------------------
// sync clocks per sync object (mutexes, guards, futex wake edges); per-byte
// clocks of atomic locations are defined further down
typedef std::unordered_map<uintptr_t, VC, std::hash<uintptr_t>, std::equal_to<uintptr_t>,
                           MA<std::pair<const uintptr_t, VC>>> ClockMap;
static ClockMap* g_obj;   // mutexes, guards, futex words (wake edge)

static inline ClockMap& obj() { if (!g_obj) g_obj = new (malloc(sizeof(ClockMap))) ClockMap(); return *g_obj; }

void hb_acquire_obj(uintptr_t key) {
  Thread* me = self;
  auto it = obj().find(key);
  if (it != obj().end()) me->vc.join(it->second);
}
void hb_release_obj(uintptr_t key) {
  Thread* me = self;
  auto it = obj().find(key);
  if (it == obj().end()) { VC z; z.clear(); it = obj().emplace(key, z).first; }
  it->second.join(me->vc);
  me->vc.c[me->id]++;
}
void hb_thread_create(Thread* parent, Thread* child) {
  child->vc = parent->vc;
  child->vc.c[child->id] = 1;
  child->fence_rel.clear(); child->has_fence_rel = false;
  child->pend_acq.clear(); child->has_pend_acq = false;
  parent->vc.c[parent->id]++;
}
void hb_thread_join(Thread* joiner, Thread* target) { joiner->vc.join(target->vc); }
void hb_edge(Thread* from, Thread* to) {
  to->vc.join(from->vc);
  from->vc.c[from->id]++;
}

// Release clocks are kept per BYTE: babylon packs independently published
// one-byte control tags (hash table) and 16/32-bit halves (futex words) into one
// word, and a release store to one byte must not wipe out the clock another
// thread published through a neighbouring byte. The map is keyed by the aligned
// 8-byte unit; each unit holds up to 8 lazily allocated per-byte clocks.
struct Unit { VC* b[8]; int16_t own[8]; };  // own: thread of the last release *store* (head of the release sequence)
typedef std::unordered_map<uintptr_t, Unit, std::hash<uintptr_t>, std::equal_to<uintptr_t>,
                           MA<std::pair<const uintptr_t, Unit>>> UnitMap;
static UnitMap* g_units;
static inline UnitMap& units() { if (!g_units) g_units = new (malloc(sizeof(UnitMap))) UnitMap(); return *g_units; }
static void units_clear() {
  if (!g_units) return;
  for (auto& kv : *g_units) for (VC* v : kv.second.b) if (v) free(v);
  g_units->clear();
}

static inline void loc_acquire(Thread* me, uintptr_t addr, size_t size, bool acq) {
  if (!g_units || g_units->empty()) return;
  for (uintptr_t a = addr; a < addr + size;) {
    uintptr_t u = a & ~(uintptr_t)7;
    auto it = g_units->find(u);
    uintptr_t end = u + 8 < addr + size ? u + 8 : addr + size;
    if (it != g_units->end())
      for (uintptr_t x = a; x < end; x++) {
        VC* v = it->second.b[x - u];
        if (!v) continue;
        if (acq) me->vc.join(*v);
        else { me->pend_acq.join(*v); me->has_pend_acq = true; }
      }
    a = end;
  }
}
// plain store semantics: replaces the clock of every byte written
// G.relseq17: C++11-17 release sequences — a later store of the thread that
// performed the heading release store continues the sequence (the clock of the
// head stays readable through it). Off: C++20 rule, any non-RMW store ends it.
static inline void loc_store(uintptr_t addr, size_t size, bool release, const VC* vc, int tid) {
  if (!release && (!g_units || g_units->empty())) return;
  for (uintptr_t x = addr; x < addr + size; x++) {
    uintptr_t u = x & ~(uintptr_t)7;
    if (release) {
      Unit& un = units()[u];
      VC*& v = un.b[x - u];
      if (v && G.relseq17 && un.own[x - u] == (int16_t)tid) { v->join(*vc); continue; }  // same thread: both heads stay readable
      if (!v) v = (VC*)malloc(sizeof(VC));
      *v = *vc;
      un.own[x - u] = (int16_t)tid;
    } else {
      auto it = g_units->find(u);
      if (it != g_units->end() && it->second.b[x - u]) {
        if (G.relseq17 && it->second.own[x - u] == (int16_t)tid) continue;
        free(it->second.b[x - u]); it->second.b[x - u] = nullptr;
      }
    }
  }
}
// RMW semantics: continues the release sequence
static inline void loc_rmw(uintptr_t addr, size_t size, const VC* add) {
  if (!add) return;
  for (uintptr_t x = addr; x < addr + size; x++) {
    uintptr_t u = x & ~(uintptr_t)7;
    Unit& un = units()[u];
    VC*& v = un.b[x - u];
    if (!v) { v = (VC*)malloc(sizeof(VC)); *v = *add; un.own[x - u] = -1; } else v->join(*add);
  }
}

// ---------------------------------------------------------------------------
// watchpoints
struct Watch { uintptr_t lo, hi; WatchFn fn; void* ctx; };
static MVec<Watch>* g_watch;
static inline void fire_watch(uintptr_t addr, size_t size, uint64_t oldv, uint64_t newv) {
  if (!g_watch) return;
  for (auto& w : *g_watch)
    if (addr < w.hi && w.lo < addr + size) w.fn(w.ctx, (const void*)addr, oldv, newv);
}

// ---------------------------------------------------------------------------
// heap
static const uintptr_t ARENA_BASE = 0x600000000000ULL;
static const size_t ARENA_SIZE = 4ULL << 30;
static const uintptr_t SHADOW_BASE = 0x680000000000ULL;
static bool g_arena_mapped = false;
static bool g_arena_on = false;
static uintptr_t g_bump = ARENA_BASE;
struct Block { uintptr_t start; size_t size; int64_t free_time; bool freed; };
static MVec<Block>* g_blocks;
static uint64_t g_live_blocks = 0, g_live_bytes = 0;
static void (*g_free_hook)(void*, void*, size_t);
static void* g_free_hook_ctx;

static inline uint8_t* shadow(uintptr_t a) { return (uint8_t*)(SHADOW_BASE + ((a - ARENA_BASE) >> 3)); }
static inline bool in_arena(uintptr_t a) { return a - ARENA_BASE < ARENA_SIZE; }

static void arena_map() {
  void* p = mmap((void*)ARENA_BASE, ARENA_SIZE, PROT_READ | PROT_WRITE,
                 MAP_PRIVATE | MAP_ANONYMOUS | MAP_NORESERVE | MAP_FIXED_NOREPLACE, -1, 0);
  void* s = mmap((void*)SHADOW_BASE, ARENA_SIZE >> 3, PROT_READ | PROT_WRITE,
                 MAP_PRIVATE | MAP_ANONYMOUS | MAP_NORESERVE | MAP_FIXED_NOREPLACE, -1, 0);
  if (p != (void*)ARENA_BASE || s != (void*)SHADOW_BASE) {
    fprintf(stderr, "sim: cannot map arena\n");
    abort();
  }
  g_arena_mapped = true;
}

void heap_child_init() {
  if (g_arena_on) return;
  if (!g_arena_mapped) arena_map();
  g_bump = ARENA_BASE + 4096;
  g_blocks = new (malloc(sizeof(MVec<Block>))) MVec<Block>();
  g_blocks->reserve(4096);
  g_arena_on = true;
}

static void* sim_alloc(size_t size, size_t align) {
  if (!g_arena_on) {
    void* p = nullptr;
    if (align <= 16) p = malloc(size ? size : 1);
    else if (posix_memalign(&p, align, size ? size : 1) != 0) p = nullptr;
    if (!p) abort();
    return p;
  }
  if (G.active && self && G.cur != self) {
    fprintf(stderr, "sim: operator new without token\n");
    abort();
  }
  if (align < 16) align = 16;
  uintptr_t user = (g_bump + 32 + align - 1) & ~(uintptr_t)(align - 1);
  size_t rounded = (size + 7) & ~(size_t)7;
  uintptr_t end = user + rounded + 32;  // redzone
  if (end > ARENA_BASE + ARENA_SIZE) {
    if (G.active) finish(3, "budget", "heap-exhausted", "simulated heap exhausted");
    abort();
  }
  g_bump = end;
  raw_set(shadow(user), 1, rounded >> 3);
  ((uint64_t*)user)[-1] = g_blocks->size();
  ((uint64_t*)user)[-2] = 0x51b10c51b10c51b1ULL;
  g_blocks->push_back(Block{user, size, -1, false});
  g_live_blocks++; g_live_bytes += size;
  return (void*)user;
}

static Block* find_block(uintptr_t a) {
  if (!g_blocks || g_blocks->empty()) return nullptr;
  size_t lo = 0, hi = g_blocks->size();
  while (lo + 1 < hi) {
    size_t mid = (lo + hi) / 2;
    if ((*g_blocks)[mid].start <= a) lo = mid; else hi = mid;
  }
  Block* b = &(*g_blocks)[lo];
  if (a >= b->start && a < b->start + ((b->size + 7) & ~(size_t)7) + (b->size == 0 ? 8 : 0)) return b;
  return nullptr;
}

static void sim_free(void* p) {
  if (!p) return;
  uintptr_t a = (uintptr_t)p;
  if (!in_arena(a)) { free(p); return; }
  if (!g_arena_on) return;  // arena memory of a parent? cannot happen
  if (((uint64_t*)a)[-2] != 0x51b10c51b10c51b1ULL) {
    if (G.active) finish(1, "heap", "bad-free", "operator delete of a pointer that was not returned by operator new (or header overwritten)");
    abort();
  }
  Block* b = &(*g_blocks)[((uint64_t*)a)[-1]];
  if (b->freed) {
    if (G.active) finish(1, "heap", "double-free", "operator delete called twice for the same block");
    abort();
  }
  Thread* me = self;
  size_t rounded = (b->size + 7) & ~(size_t)7;
  if (me && G.active) {
    // pending buffered stores into this block must land before it dies
    for (int i = 0; i < G.nth; i++)
      if (!G.th[i].sb.empty()) sb_drain_overlap(&G.th[i], a, rounded);
  }
  if (g_free_hook) g_free_hook(g_free_hook_ctx, p, b->size);
  b->freed = true;
  b->free_time = G.now;
  raw_set(shadow(a), 2, rounded >> 3);
  raw_set(p, 0xDD, rounded);
  g_live_blocks--; g_live_bytes -= b->size;
}

static inline void heap_check(uintptr_t a, size_t n, bool is_write) {
  if (!in_arena(a)) return;
  uint8_t s0 = *shadow(a), s1 = *shadow(a + n - 1);
  if (s0 == 1 && s1 == 1) return;
  if (!G.active) return;
  char buf[256];
  uint8_t s = s0 != 1 ? s0 : s1;
  Block* b = find_block(a);
  snprintf(buf, sizeof buf, "%s of %zu bytes at %#lx: %s (block size %zu, freed at t=%lldns, now=%lldns) by T%d",
           is_write ? "write" : "read", n, (unsigned long)a,
           s == 2 ? "use after free" : "outside any live block",
           b ? b->size : 0, b ? (long long)b->free_time : -1LL, (long long)G.now, self ? self->id : -1);
  finish(1, s == 2 ? "uaf" : "heap-oob", s == 2 ? "use-after-free" : "out-of-bounds", buf);
}

// ---------------------------------------------------------------------------
// registered ranges (HB race detection, plain-access preemption)
struct RCell {
  uint32_t wclk; int16_t wtid;
  struct { int16_t tid; uint32_t clk; } r[4];
};
static MVec<Range>* g_hb;
static MVec<Range>* g_pre;
static uintptr_t g_hb_lo = ~(uintptr_t)0, g_hb_hi = 0, g_pre_lo = ~(uintptr_t)0, g_pre_hi = 0;

static void bounds(MVec<Range>* v, uintptr_t& lo, uintptr_t& hi) {
  lo = ~(uintptr_t)0; hi = 0;
  if (!v) return;
  for (auto& r : *v) { if (r.lo < lo) lo = r.lo; if (r.hi > hi) hi = r.hi; }
}

static void race(Thread* me, Range& r, uintptr_t a, bool is_write, int other, bool other_write) {
  char buf[256];
  snprintf(buf, sizeof buf, "data race on %s+%lu: %s by T%d not ordered after %s by T%d",
           r.name, (unsigned long)(a - r.lo), is_write ? "write" : "read", me->id,
           other_write ? "write" : "read", other);
  finish(1, "race", r.name, buf);
}

static void hb_access(Thread* me, uintptr_t a, size_t n, bool is_write) {
  for (auto& r : *g_hb) {
    if (a >= r.hi || a + n <= r.lo) continue;
    uintptr_t lo = a < r.lo ? r.lo : a, hi = a + n > r.hi ? r.hi : a + n;
    RCell* cells = (RCell*)r.cells;
    for (uintptr_t x = lo; x < hi; x++) {
      RCell& c = cells[x - r.lo];
      if (c.wtid >= 0 && c.wtid != me->id && c.wclk > me->vc.c[c.wtid]) race(me, r, x, is_write, c.wtid, true);
      if (is_write) {
        for (auto& rd : c.r)
          if (rd.tid >= 0 && rd.tid != me->id && rd.clk > me->vc.c[rd.tid]) race(me, r, x, true, rd.tid, false);
        c.wtid = (int16_t)me->id; c.wclk = me->vc.c[me->id];
        for (auto& rd : c.r) rd.tid = -1;
      } else {
        int slot = -1;
        for (int i = 0; i < 4; i++) if (c.r[i].tid == me->id) { slot = i; break; }
        if (slot < 0) for (int i = 0; i < 4; i++) if (c.r[i].tid < 0 || c.r[i].clk <= me->vc.c[c.r[i].tid]) { slot = i; break; }
        if (slot < 0) slot = 0;
        c.r[slot].tid = (int16_t)me->id; c.r[slot].clk = me->vc.c[me->id];
      }
    }
  }
}

static inline void plain_access(uintptr_t a, size_t n, bool is_write) {
  Thread* me = self;
  if (!me || !G.active || G.cur != me) return;
  if (a >= me->stack_lo && a < me->stack_hi) return;
  if (a < g_pre_hi && a + n > g_pre_lo) {
    for (auto& r : *g_pre)
      if (a < r.hi && a + n > r.lo) { point(P_PLAIN, a); break; }
  }
  if (!me->sb.empty()) sb_drain_overlap(me, a, n);
  heap_check(a, n, is_write);
  if (a < g_hb_hi && a + n > g_hb_lo) hb_access(me, a, n, is_write);
}

// ---------------------------------------------------------------------------
// store buffers
static inline void write_mem(uintptr_t addr, size_t size, uint64_t val) {
  switch (size) {
    case 1: *(volatile uint8_t*)addr = (uint8_t)val; break;
    case 2: *(volatile uint16_t*)addr = (uint16_t)val; break;
    case 4: *(volatile uint32_t*)addr = (uint32_t)val; break;
    default: *(volatile uint64_t*)addr = val; break;
  }
}
static inline uint64_t read_mem(uintptr_t addr, size_t size) {
  switch (size) {
    case 1: return *(volatile uint8_t*)addr;
    case 2: return *(volatile uint16_t*)addr;
    case 4: return *(volatile uint32_t*)addr;
    default: return *(volatile uint64_t*)addr;
  }
}

static void commit(uintptr_t addr, size_t size, uint64_t val, bool release, const VC* vc, int tid) {
  uint64_t oldv = g_watch ? read_mem(addr, size) : 0;
  write_mem(addr, size, val);
  loc_store(addr, size, release, vc, tid);
  G.idle_jumps = 0;
  fire_watch(addr, size, oldv, val);
}

void sb_commit_one(Thread* t, size_t idx) {
  if (idx >= t->sb.size()) return;
  SbEntry e = t->sb[idx];
  t->sb.erase(t->sb.begin() + (long)idx);
  if (t->sb.empty()) G.sb_nonempty--;
  commit(e.addr, e.size, e.val, e.release, &e.vc, t->id);
}
void sb_drain(Thread* t) {
  while (!t->sb.empty()) sb_commit_one(t, 0);
}
void sb_drain_overlap(Thread* t, uintptr_t addr, size_t n) {
  // commit in order up to and including the last overlapping entry
  long last = -1;
  for (size_t i = 0; i < t->sb.size(); i++)
    if (t->sb[i].addr < addr + n && addr < t->sb[i].addr + t->sb[i].size) last = (long)i;
  for (long i = 0; i <= last; i++) sb_commit_one(t, 0);
}

static inline uint64_t load_value(Thread* me, uintptr_t addr, size_t size) {
  uint64_t v = read_mem(addr, size);
  if (!me->sb.empty()) {
    unsigned char bytes[8];
    memcpy(bytes, &v, 8);
    for (auto& e : me->sb) {
      if (e.addr < addr + size && addr < e.addr + e.size) {
        unsigned char eb[8];
        memcpy(eb, &e.val, 8);
        for (size_t i = 0; i < e.size; i++) {
          uintptr_t b = e.addr + i;
          if (b >= addr && b < addr + size) bytes[b - addr] = eb[i];
        }
      }
    }
    memcpy(&v, bytes, 8);
    if (size < 8) v &= (((uint64_t)1 << (size * 8)) - 1);
  }
  return v;
}

static inline bool live(Thread* me) { return me && G.active && G.cur == me; }

template <typename T>
static inline T a_load(const volatile T* a, int mo) {
  Thread* me = self;
  if (!live(me)) return __atomic_load_n(a, __ATOMIC_SEQ_CST);
  point(P_LOAD, (uintptr_t)a);
  heap_check((uintptr_t)a, sizeof(T), false);
  T v = (T)load_value(me, (uintptr_t)a, sizeof(T));
  loc_acquire(me, (uintptr_t)a, sizeof(T), is_acq(mo));
  return v;
}

template <typename T>
static inline void a_store(volatile T* a, T v, int mo) {
  Thread* me = self;
  if (!live(me)) { __atomic_store_n(a, v, __ATOMIC_SEQ_CST); return; }
  point(P_STORE, (uintptr_t)a);
  heap_check((uintptr_t)a, sizeof(T), true);
  uintptr_t addr = (uintptr_t)a;
  bool rel = is_rel(mo);
  bool carries = rel || me->has_fence_rel;
  const VC* vc = rel ? &me->vc : &me->fence_rel;
  bool on_stack = addr >= me->stack_lo && addr < me->stack_hi;
  if (G.storebuf && mo != MO_SEQ_CST && !on_stack) {
    SbEntry e;
    e.addr = addr; e.size = sizeof(T); e.val = (uint64_t)v; e.release = carries;
    if (carries) e.vc = *vc;
    if (me->sb.empty()) G.sb_nonempty++;
    me->sb.push_back(e);
  } else {
    sb_drain(me);
    commit(addr, sizeof(T), (uint64_t)v, carries, vc, me->id);
  }
  if (rel) me->vc.c[me->id]++;
  me->idle_pts = 0;
  if (G.post_pts && !on_stack) point(P_POST, addr);
}

template <typename T, typename F>
static inline T a_rmw(volatile T* a, int mo, F f) {
  Thread* me = self;
  point(P_RMW, (uintptr_t)a);
  heap_check((uintptr_t)a, sizeof(T), true);
  sb_drain(me);
  uintptr_t addr = (uintptr_t)a;
  T oldv = (T)read_mem(addr, sizeof(T));
  T newv = f(oldv);
  write_mem(addr, sizeof(T), (uint64_t)newv);
  loc_acquire(me, addr, sizeof(T), is_acq(mo));
  if (is_rel(mo)) { loc_rmw(addr, sizeof(T), &me->vc); me->vc.c[me->id]++; }
  else if (me->has_fence_rel) loc_rmw(addr, sizeof(T), &me->fence_rel);
  G.idle_jumps = 0; me->idle_pts = 0;
  fire_watch(addr, sizeof(T), (uint64_t)oldv, (uint64_t)newv);
  if (G.post_pts) point(P_POST, addr);
  return oldv;
}

template <typename T>
static inline bool a_cas(volatile T* a, T* expected, T desired, int mo, int fmo) {
  Thread* me = self;
  if (!live(me)) return __atomic_compare_exchange_n(a, expected, desired, false, __ATOMIC_SEQ_CST, __ATOMIC_SEQ_CST);
  point(P_RMW, (uintptr_t)a);
  heap_check((uintptr_t)a, sizeof(T), true);
  sb_drain(me);
  uintptr_t addr = (uintptr_t)a;
  T oldv = (T)read_mem(addr, sizeof(T));
  if (oldv != *expected) {
    *expected = oldv;
    loc_acquire(me, addr, sizeof(T), is_acq(fmo));
    return false;
  }
  write_mem(addr, sizeof(T), (uint64_t)desired);
  loc_acquire(me, addr, sizeof(T), is_acq(mo));
  if (is_rel(mo)) { loc_rmw(addr, sizeof(T), &me->vc); me->vc.c[me->id]++; }
  else if (me->has_fence_rel) loc_rmw(addr, sizeof(T), &me->fence_rel);
  G.idle_jumps = 0; me->idle_pts = 0;
  fire_watch(addr, sizeof(T), (uint64_t)oldv, (uint64_t)desired);
  if (G.post_pts) point(P_POST, addr);
  return true;
}

static void a_fence(int mo) {
  Thread* me = self;
  if (!live(me)) { __atomic_thread_fence(__ATOMIC_SEQ_CST); return; }
  point(P_FENCE, 0);
  if (is_acq(mo) && me->has_pend_acq) { me->vc.join(me->pend_acq); }
  if (mo == MO_SEQ_CST) {
    sb_drain(me);
    me->vc.join(G.sc_fence);
    G.sc_fence = me->vc;
  }
  if (is_rel(mo)) { me->fence_rel = me->vc; me->has_fence_rel = true; me->vc.c[me->id]++; }
}

void check_sync_object(uintptr_t a, size_t n) { heap_check(a, n, true); }

void mem_reset_run() {
  units_clear();
  if (g_obj) g_obj->clear();
  if (g_watch) g_watch->clear();
  if (g_hb) { for (auto& r : *g_hb) free(r.cells); g_hb->clear(); }
  if (g_pre) g_pre->clear();
  g_hb_lo = g_pre_lo = ~(uintptr_t)0; g_hb_hi = g_pre_hi = 0;
  g_free_hook = nullptr; g_free_hook_ctx = nullptr;
  // start every run on a fresh page so that in-run addresses do not depend
  // on the byte-exact size of what earlier runs allocated
  g_bump = (g_bump + 65535) & ~(uintptr_t)65535;
}

}  // namespace rt

// ---------------------------------------------------------------------------
// public API: ranges, watch, heap
using namespace rt;

void hb_register(const void* p, size_t n, const char* name) {
  if (!g_hb) g_hb = new (malloc(sizeof(MVec<Range>))) MVec<Range>();
  RCell* cells = (RCell*)malloc(sizeof(RCell) * n);
  for (size_t i = 0; i < n; i++) { cells[i].wtid = -1; cells[i].wclk = 0; for (auto& r : cells[i].r) r.tid = -1; }
  g_hb->push_back(Range{(uintptr_t)p, (uintptr_t)p + n, name, cells});
  bounds(g_hb, g_hb_lo, g_hb_hi);
}
void hb_unregister(const void* p) {
  if (!g_hb) return;
  for (size_t i = 0; i < g_hb->size(); i++)
    if ((*g_hb)[i].lo == (uintptr_t)p) { free((*g_hb)[i].cells); g_hb->erase(g_hb->begin() + (long)i); break; }
  bounds(g_hb, g_hb_lo, g_hb_hi);
}
void preempt_register(const void* p, size_t n) {
  if (!g_pre) g_pre = new (malloc(sizeof(MVec<Range>))) MVec<Range>();
  g_pre->push_back(Range{(uintptr_t)p, (uintptr_t)p + n, "", nullptr});
  bounds(g_pre, g_pre_lo, g_pre_hi);
}
void preempt_unregister(const void* p) {
  if (!g_pre) return;
  for (size_t i = 0; i < g_pre->size(); i++)
    if ((*g_pre)[i].lo == (uintptr_t)p) { g_pre->erase(g_pre->begin() + (long)i); break; }
  bounds(g_pre, g_pre_lo, g_pre_hi);
}
void hb_read(const void* p, size_t n) { plain_access((uintptr_t)p, n, false); }
void hb_write(const void* p, size_t n) { plain_access((uintptr_t)p, n, true); }
void watch(const void* addr, size_t n, WatchFn fn, void* ctx) {
  if (!g_watch) g_watch = new (malloc(sizeof(MVec<Watch>))) MVec<Watch>();
  g_watch->push_back(Watch{(uintptr_t)addr, (uintptr_t)addr + n, fn, ctx});
}
bool heap_owns(const void* p) { return in_arena((uintptr_t)p); }
bool heap_is_live(const void* p) { return in_arena((uintptr_t)p) && *shadow((uintptr_t)p) == 1; }
bool heap_is_freed(const void* p) { return in_arena((uintptr_t)p) && *shadow((uintptr_t)p) == 2; }
uint64_t heap_live_blocks() { return g_live_blocks; }
uint64_t heap_live_bytes() { return g_live_bytes; }
int64_t heap_free_time(const void* p) {
  Block* b = find_block((uintptr_t)p);
  return b && b->freed ? b->free_time : -1;
}
void heap_on_free(void (*fn)(void*, void*, size_t), void* ctx) { g_free_hook = fn; g_free_hook_ctx = ctx; }

}  // namespace sim

// ---------------------------------------------------------------------------
// TSan ABI
using namespace sim::rt;
typedef unsigned __int128 u128;

extern "C" {
void __tsan_init() {}
void __tsan_func_entry(void*) {}
void __tsan_func_exit() {}
void __tsan_vptr_update(void**, void*) {}
void __tsan_vptr_read(void**) {}
void __tsan_acquire(void*) {}
void __tsan_release(void*) {}
void __tsan_ignore_thread_begin() {}
void __tsan_ignore_thread_end() {}

#define PLAIN(N)                                                                    \
  void __tsan_read##N(void* a) { plain_access((uintptr_t)a, N, false); }            \
  void __tsan_write##N(void* a) { plain_access((uintptr_t)a, N, true); }            \
  void __tsan_unaligned_read##N(void* a) { plain_access((uintptr_t)a, N, false); }  \
  void __tsan_unaligned_write##N(void* a) { plain_access((uintptr_t)a, N, true); }  \
  void __tsan_read##N##_pc(void* a, void*) { plain_access((uintptr_t)a, N, false); } \
  void __tsan_write##N##_pc(void* a, void*) { plain_access((uintptr_t)a, N, true); }
PLAIN(1) PLAIN(2) PLAIN(4) PLAIN(8) PLAIN(16)
void __tsan_read_range(void* a, unsigned long n) { if (n) plain_access((uintptr_t)a, n, false); }
void __tsan_write_range(void* a, unsigned long n) { if (n) plain_access((uintptr_t)a, n, true); }

#define ATOMICS(N, T)                                                                         \
  T __tsan_atomic##N##_load(const volatile T* a, int mo) { return a_load<T>(a, mo); }          \
  void __tsan_atomic##N##_store(volatile T* a, T v, int mo) { a_store<T>(a, v, mo); }          \
  T __tsan_atomic##N##_exchange(volatile T* a, T v, int mo) {                                  \
    if (!live(self)) return __atomic_exchange_n(a, v, __ATOMIC_SEQ_CST);                        \
    return a_rmw<T>(a, mo, [v](T) { return v; }); }                                            \
  T __tsan_atomic##N##_fetch_add(volatile T* a, T v, int mo) {                                 \
    if (!live(self)) return __atomic_fetch_add(a, v, __ATOMIC_SEQ_CST);                         \
    return a_rmw<T>(a, mo, [v](T o) { return (T)(o + v); }); }                                 \
  T __tsan_atomic##N##_fetch_sub(volatile T* a, T v, int mo) {                                 \
    if (!live(self)) return __atomic_fetch_sub(a, v, __ATOMIC_SEQ_CST);                         \
    return a_rmw<T>(a, mo, [v](T o) { return (T)(o - v); }); }                                 \
  T __tsan_atomic##N##_fetch_and(volatile T* a, T v, int mo) {                                 \
    if (!live(self)) return __atomic_fetch_and(a, v, __ATOMIC_SEQ_CST);                         \
    return a_rmw<T>(a, mo, [v](T o) { return (T)(o & v); }); }                                 \
  T __tsan_atomic##N##_fetch_or(volatile T* a, T v, int mo) {                                  \
    if (!live(self)) return __atomic_fetch_or(a, v, __ATOMIC_SEQ_CST);                          \
    return a_rmw<T>(a, mo, [v](T o) { return (T)(o | v); }); }                                 \
  T __tsan_atomic##N##_fetch_xor(volatile T* a, T v, int mo) {                                 \
    if (!live(self)) return __atomic_fetch_xor(a, v, __ATOMIC_SEQ_CST);                         \
    return a_rmw<T>(a, mo, [v](T o) { return (T)(o ^ v); }); }                                 \
  T __tsan_atomic##N##_fetch_nand(volatile T* a, T v, int mo) {                                \
    if (!live(self)) return __atomic_fetch_nand(a, v, __ATOMIC_SEQ_CST);                        \
    return a_rmw<T>(a, mo, [v](T o) { return (T) ~(o & v); }); }                               \
  int __tsan_atomic##N##_compare_exchange_strong(volatile T* a, T* c, T v, int mo, int fmo) {  \
    return a_cas<T>(a, c, v, mo, fmo); }                                                       \
  int __tsan_atomic##N##_compare_exchange_weak(volatile T* a, T* c, T v, int mo, int fmo) {    \
    return a_cas<T>(a, c, v, mo, fmo); }                                                       \
  T __tsan_atomic##N##_compare_exchange_val(volatile T* a, T c, T v, int mo, int fmo) {        \
    a_cas<T>(a, &c, v, mo, fmo); return c; }
ATOMICS(8, uint8_t) ATOMICS(16, uint16_t) ATOMICS(32, uint32_t) ATOMICS(64, uint64_t)

void __tsan_atomic_thread_fence(int mo) { a_fence(mo); }
void __tsan_atomic_signal_fence(int) {}
}  // extern "C"

// ---------------------------------------------------------------------------
// memcpy / memmove / memset: clang's TSan pass turns memory intrinsics into
// calls of these, and uninstrumented libraries (libstdc++, abseil, protobuf)
// call them through the PLT. Owning them makes bulk accesses visible to the
// heap checker, the race detector and the store-buffer overlap rule.
// Implemented with string instructions: they must not call anything.
static inline void bulk_access(const void* p, size_t n, bool is_write) {
  if (!n || !G.active) return;
  uintptr_t a = (uintptr_t)p;
  // only simulated-heap memory and registered ranges are of interest
  if (!(in_arena(a) || (a < g_hb_hi && a + n > g_hb_lo) || (a < g_pre_hi && a + n > g_pre_lo))) return;
  plain_access(a, n, is_write);
}
extern "C" {
void* memcpy(void* d, const void* s, size_t n) {
  bulk_access(s, n, false);
  bulk_access(d, n, true);
  raw_copy_fwd(d, s, n);
  return d;
}
void* memmove(void* d, const void* s, size_t n) {
  bulk_access(s, n, false);
  bulk_access(d, n, true);
  if ((uintptr_t)d - (uintptr_t)s >= n) raw_copy_fwd(d, s, n); else raw_copy_bwd(d, s, n);
  return d;
}
void* memset(void* d, int c, size_t n) {
  bulk_access(d, n, true);
  raw_set(d, c, n);
  return d;
}
}

// ---------------------------------------------------------------------------
// replaceable allocation functions
void* operator new(size_t n) { return sim_alloc(n, 16); }
void* operator new[](size_t n) { return sim_alloc(n, 16); }
void* operator new(size_t n, const std::nothrow_t&) noexcept { return sim_alloc(n, 16); }
void* operator new[](size_t n, const std::nothrow_t&) noexcept { return sim_alloc(n, 16); }
void* operator new(size_t n, std::align_val_t a) { return sim_alloc(n, (size_t)a); }
void* operator new[](size_t n, std::align_val_t a) { return sim_alloc(n, (size_t)a); }
void* operator new(size_t n, std::align_val_t a, const std::nothrow_t&) noexcept { return sim_alloc(n, (size_t)a); }
void* operator new[](size_t n, std::align_val_t a, const std::nothrow_t&) noexcept { return sim_alloc(n, (size_t)a); }
void operator delete(void* p) noexcept { sim_free(p); }
void operator delete[](void* p) noexcept { sim_free(p); }
void operator delete(void* p, size_t) noexcept { sim_free(p); }
void operator delete[](void* p, size_t) noexcept { sim_free(p); }
void operator delete(void* p, std::align_val_t) noexcept { sim_free(p); }
void operator delete[](void* p, std::align_val_t) noexcept { sim_free(p); }
void operator delete(void* p, size_t, std::align_val_t) noexcept { sim_free(p); }
void operator delete[](void* p, size_t, std::align_val_t) noexcept { sim_free(p); }
void operator delete(void* p, const std::nothrow_t&) noexcept { sim_free(p); }
void operator delete[](void* p, const std::nothrow_t&) noexcept { sim_free(p); }
