// Batch runner: fork-per-run workers, gate, minimiser, replay, evidence.
// DESIGN.md §2.6, §2.7, §5.
#include <errno.h>
#include <fcntl.h>
#include <poll.h>
#include <sched.h>
#include <signal.h>
#include <stdio.h>
#include <stdlib.h>
#include <string.h>
#include <sys/personality.h>
#include <sys/prctl.h>
#include <sys/stat.h>
#include <sys/time.h>
#include <sys/mman.h>
#include <sys/wait.h>
#include <time.h>
#include <unistd.h>

#include <algorithm>
#include <set>
#include <string>
#include <unordered_set>
#include <vector>

#include "internal.h"
#include "json.h"

using namespace sim;
using namespace sim::rt;

static double wall_now() {
  struct timespec ts;
  // not interposed here: runner is never "live"
  clock_gettime(CLOCK_MONOTONIC, &ts);
  return (double)ts.tv_sec + (double)ts.tv_nsec * 1e-9;
}

// ---------------------------------------------------------------------------
// run one spec in a forked child and parse the result
static int g_child_timeout_s = 150;

static bool parse_result(const std::string& txt, RunResult& r) {
  size_t pos = 0;
  bool ended = false;
  while (pos < txt.size()) {
    size_t nl = txt.find('\n', pos);
    if (nl == std::string::npos) nl = txt.size();
    std::string line = txt.substr(pos, nl - pos);
    pos = nl + 1;
    size_t eq = line.find('=');
    if (eq == std::string::npos) continue;
    std::string k = line.substr(0, eq), v = line.substr(eq + 1);
    if (k == "status") r.status = atoi(v.c_str());
    else if (k == "class") r.cls = v;
    else if (k == "site") r.site = v;
    else if (k == "msg") r.msg = v;
    else if (k == "hash") r.hash = strtoull(v.c_str(), nullptr, 10);
    else if (k == "ihash") r.ihash = strtoull(v.c_str(), nullptr, 10);
    else if (k == "steps") r.steps = strtoull(v.c_str(), nullptr, 10);
    else if (k == "switches") r.switches = strtoull(v.c_str(), nullptr, 10);
    else if (k == "switches_in_op") r.switches_in_op = strtoull(v.c_str(), nullptr, 10);
    else if (k == "vtime") r.vtime_ns = strtoll(v.c_str(), nullptr, 10);
    else if (k == "threads") r.threads = atoi(v.c_str());
    else if (k == "probe" || k == "fault") {
      size_t sp = v.rfind(' ');
      if (sp != std::string::npos) (k == "probe" ? r.probes : r.faults)[v.substr(0, sp)] += strtoull(v.c_str() + sp + 1, nullptr, 10);
    } else if (k == "plan") r.plan_json = v;
    else if (k == "dec") {
      Dec d{};
      long long a = 0, a2 = 0;
      if (sscanf(v.c_str(), "%d %d %u %d %lld %lld", &d.tid, &d.op, &d.k, &d.kind, &a, &a2) == 6) {
        d.arg = a; d.arg2 = a2;
        r.log.push_back(d);
      }
    } else if (k == "end") ended = true;
  }
  return ended;
}

// Run the specs in one forked child, one after the other in the same process.
// Returns one result per spec that was started; a non-ok run ends the child, so
// the vector may be shorter than the input.
static std::vector<RunResult> run_many(const RunSpec* specs, size_t n) {
  std::vector<RunResult> out;
  int pfd[2];
  RunResult bad;
  bad.status = 4; bad.cls = "infra";
  if (pipe(pfd) != 0) { bad.msg = "pipe failed"; out.push_back(bad); return out; }
  fflush(stdout);
  fflush(stderr);
  pid_t pid = fork();
  if (pid < 0) { close(pfd[0]); close(pfd[1]); bad.msg = "fork failed"; out.push_back(bad); return out; }
  if (pid == 0) {
    close(pfd[0]);
    prctl(PR_SET_PDEATHSIG, SIGKILL);
    child_main(specs, n, pfd[1]);
  }
  close(pfd[1]);
  std::string txt;
  char buf[65536];
  double deadline = wall_now() + g_child_timeout_s;
  bool timed_out = false;
  size_t parsed_upto = 0;
  for (;;) {
    struct pollfd p = {pfd[0], POLLIN, 0};
    double left = deadline - wall_now();
    if (left <= 0) { timed_out = true; break; }
    int pr = poll(&p, 1, (int)(left * 1000) + 1);
    if (pr < 0) { if (errno == EINTR) continue; break; }
    if (pr == 0) { timed_out = true; break; }
    ssize_t k = read(pfd[0], buf, sizeof buf);
    if (k < 0) { if (errno == EINTR) continue; break; }
    if (k == 0) break;
    txt.append(buf, (size_t)k);
    // complete records extend the per-run deadline
    size_t e;
    while ((e = txt.find("end=1\n", parsed_upto)) != std::string::npos) {
      RunResult r;
      parse_result(txt.substr(parsed_upto, e + 6 - parsed_upto), r);
      out.push_back(r);
      parsed_upto = e + 6;
      deadline = wall_now() + g_child_timeout_s;
    }
  }
  close(pfd[0]);
  if (timed_out) kill(pid, SIGKILL);
  int st = 0;
  while (waitpid(pid, &st, 0) < 0 && errno == EINTR) {}
  if (out.size() < n) {
    // the child ended before finishing all specs: the last reported result
    // explains it if it is non-ok, otherwise the next spec died silently
    bool explained = !out.empty() && out.back().status != 0;
    bool clean_leftover = !out.empty() && out.back().status == 0 && WIFEXITED(st) && !timed_out;
    if (timed_out) { bad.site = "watchdog"; bad.msg = "child exceeded wall-clock limit (real hang: a blocking primitive escaped the simulator?)"; out.push_back(bad); }
    else if (!explained && !clean_leftover) {
      bad.site = "child-died";
      char b[128];
      snprintf(b, sizeof b, "child ended without a result (wait status %#x)", st);
      bad.msg = b;
      out.push_back(bad);
    }
  }
  return out;
}

static RunResult run_one(const RunSpec& spec) {
  std::vector<RunResult> v = run_many(&spec, 1);
  if (v.empty()) { RunResult r; r.status = 4; r.cls = "infra"; r.msg = "no result"; return r; }
  return v[0];
}

// ---------------------------------------------------------------------------
struct Known { std::string cls, site, desc; };

struct Options {
  std::string property = "";
  bool thorough = false;
  int mode = -1;
  double seconds = 20;
  uint64_t max_runs = 0;
  uint64_t seed = 1;
  int jobs = 16;
  std::string evidence;
  std::string replay_dir = "replays";
  std::string replay_file;
  bool trace = false;
  std::vector<Known> known;
  int64_t one = -1;
  bool have_one = false;
  uint64_t selftest = 0;
  std::string level = "exploration";
  std::string note;
  uint64_t first_index = 0;
  std::string flavour = "ship";
};
static Options O;

static bool is_known(const RunResult& r, size_t* idx = nullptr) {
  for (size_t i = 0; i < O.known.size(); i++)
    if (O.known[i].cls == r.cls && (O.known[i].site.empty() || r.site.find(O.known[i].site) != std::string::npos)) {
      if (idx) *idx = i;
      return true;
    }
  return false;
}

struct WorkerStats {
  uint64_t runs = 0, ok = 0, skipped = 0, budget = 0, infra = 0, viol = 0, known = 0;
  uint64_t steps = 0, switches = 0;
  double vtime_s = 0;
  uint64_t nontrivial = 0;
  std::map<std::string, uint64_t> probes, faults, policies, known_hits;
  std::vector<uint64_t> hashes;      // ihash of non-trivial runs
  std::vector<std::string> samples;  // plan json
  std::vector<uint64_t> viol_seeds;
  std::vector<uint64_t> viol_index;
  std::vector<uint64_t> viol_start;  // first index run by the same process
  std::vector<std::string> viol_what;  // class/site: message as seen in the batch
  std::string infra_msg;
};

static RunSpec spec_for_index(uint64_t index) {
  RunSpec s;
  s.seed = mix64(O.seed, index);
  s.gp.property = strdup(O.property.c_str());
  s.gp.thorough = O.thorough;
  s.gp.mode = O.mode;
  s.trace = false;
  return s;
}

static void serialize_stats(const WorkerStats& w, int fd) {
  std::string o;
  char b[256];
  snprintf(b, sizeof b, "runs %llu %llu %llu %llu %llu %llu %llu %llu %llu %.6f %llu\n", (unsigned long long)w.runs, (unsigned long long)w.ok,
           (unsigned long long)w.skipped, (unsigned long long)w.budget, (unsigned long long)w.infra, (unsigned long long)w.viol,
           (unsigned long long)w.known, (unsigned long long)w.steps, (unsigned long long)w.switches, w.vtime_s, (unsigned long long)w.nontrivial);
  o += b;
  for (auto& kv : w.probes) { snprintf(b, sizeof b, "probe %llu ", (unsigned long long)kv.second); o += b; o += kv.first; o += "\n"; }
  for (auto& kv : w.faults) { snprintf(b, sizeof b, "fault %llu ", (unsigned long long)kv.second); o += b; o += kv.first; o += "\n"; }
  for (auto& kv : w.policies) { snprintf(b, sizeof b, "policy %llu ", (unsigned long long)kv.second); o += b; o += kv.first; o += "\n"; }
  for (auto& kv : w.known_hits) { snprintf(b, sizeof b, "knownhit %llu ", (unsigned long long)kv.second); o += b; o += kv.first; o += "\n"; }
  for (auto& s : w.samples) { o += "sample "; o += s; o += "\n"; }
  for (size_t i = 0; i < w.viol_index.size(); i++) { snprintf(b, sizeof b, "viol %llu %llu ", (unsigned long long)w.viol_index[i], (unsigned long long)w.viol_start[i]); o += b; o += w.viol_what[i]; o += "\n"; }
  if (!w.infra_msg.empty()) { o += "inframsg "; o += w.infra_msg; o += "\n"; }
  o += "hashes ";
  snprintf(b, sizeof b, "%zu\n", w.hashes.size());
  o += b;
  o.append((const char*)w.hashes.data(), w.hashes.size() * 8);
  size_t off = 0;
  while (off < o.size()) {
    ssize_t n = write(fd, o.data() + off, o.size() - off);
    if (n <= 0) { if (errno == EINTR) continue; break; }
    off += (size_t)n;
  }
}

static void account(WorkerStats& st, std::unordered_set<uint64_t>& seen, const RunSpec& s, const RunResult& r, uint64_t index, uint64_t proc_start) {
  st.runs++;
  st.steps += r.steps; st.switches += r.switches; st.vtime_s += (double)r.vtime_ns * 1e-9;
  for (auto& kv : r.probes) st.probes[kv.first] += kv.second;
  for (auto& kv : r.faults) st.faults[kv.first] += kv.second;
  if (s.want_plan && !r.plan_json.empty() && r.status == 0 && st.samples.size() < 3) st.samples.push_back(r.plan_json);
  switch (r.status) {
    case 0:
      st.ok++;
      if (r.switches_in_op > 0) {
        st.nontrivial++;
        if (seen.insert(r.ihash).second) st.hashes.push_back(r.ihash);
      }
      break;
    case 2: st.skipped++; break;
    case 3: st.budget++; break;
    case 1: {
      size_t ki;
      if (is_known(r, &ki)) { st.known++; st.known_hits[O.known[ki].desc]++; }
      else { st.viol++; st.viol_index.push_back(index); st.viol_start.push_back(proc_start); st.viol_what.push_back(r.cls + "/" + r.site + ": " + r.msg); }
      break;
    }
    default:
      st.infra++;
      if (st.infra_msg.empty()) { char b[64]; snprintf(b, sizeof b, "index %llu: ", (unsigned long long)index); st.infra_msg = b + r.site + " " + r.msg; }
      break;
  }
}

static int g_chunk = 40;

// set by the first worker that sees a violation: the others finish their chunk and stop
static int* g_stop_flag = nullptr;
static bool stop_requested() { return g_stop_flag && __atomic_load_n(g_stop_flag, __ATOMIC_RELAXED) != 0; }

static void worker_loop(int w, int jobs, double t_end, int out_fd) {
  cpu_set_t cs;
  CPU_ZERO(&cs);
  long ncpu = sysconf(_SC_NPROCESSORS_ONLN);
  CPU_SET((int)(w % (ncpu > 0 ? ncpu : 1)), &cs);
  if (!getenv("SIM_NOPIN")) sched_setaffinity(0, sizeof cs, &cs);
  WorkerStats st;
  std::unordered_set<uint64_t> seen;
  bool stop = false;
  for (uint64_t c = (uint64_t)w; !stop; c += (uint64_t)jobs) {
    uint64_t lo = c * (uint64_t)g_chunk, hi = lo + (uint64_t)g_chunk;
    if (O.max_runs && lo >= O.max_runs) break;
    if (O.max_runs && hi > O.max_runs) hi = O.max_runs;
    if (!O.max_runs && wall_now() >= t_end) break;
    if (stop_requested()) break;
    std::vector<RunSpec> specs;
    for (uint64_t i = lo; i < hi; i++) {
      RunSpec s = spec_for_index(O.first_index + i);
      s.want_plan = (w == 0 && st.samples.size() < 3 && i < lo + 3);
      specs.push_back(s);
    }
    size_t pos = 0;
    while (pos < specs.size() && !stop) {
      std::vector<RunResult> rs = run_many(&specs[pos], specs.size() - pos);
      if (rs.empty()) { stop = true; break; }
      for (size_t j = 0; j < rs.size(); j++) account(st, seen, specs[pos + j], rs[j], O.first_index + lo + pos + j, O.first_index + lo + pos);
      pos += rs.size();
      if (st.viol >= 1 || st.infra >= 3) stop = true;
      if (st.viol >= 1 && g_stop_flag) __atomic_store_n(g_stop_flag, 1, __ATOMIC_RELAXED);
      if (stop_requested()) stop = true;
      if (!O.max_runs && wall_now() >= t_end) stop = true;
    }
    for (auto& s : specs) free((void*)s.gp.property);
  }
  serialize_stats(st, out_fd);
}

static bool read_all(int fd, std::string& out) {
  char buf[65536];
  for (;;) {
    ssize_t n = read(fd, buf, sizeof buf);
    if (n < 0) { if (errno == EINTR) continue; return false; }
    if (n == 0) return true;
    out.append(buf, (size_t)n);
  }
}

static void merge_stats(const std::string& txt, WorkerStats& m, std::unordered_set<uint64_t>& hashes) {
  size_t pos = 0;
  while (pos < txt.size()) {
    size_t nl = txt.find('\n', pos);
    if (nl == std::string::npos) break;
    std::string line = txt.substr(pos, nl - pos);
    pos = nl + 1;
    if (line.compare(0, 5, "runs ") == 0) {
      unsigned long long a[9]; double vt; unsigned long long nt;
      if (sscanf(line.c_str() + 5, "%llu %llu %llu %llu %llu %llu %llu %llu %llu %lf %llu", &a[0], &a[1], &a[2], &a[3], &a[4], &a[5], &a[6], &a[7], &a[8], &vt, &nt) == 11) {
        m.runs += a[0]; m.ok += a[1]; m.skipped += a[2]; m.budget += a[3]; m.infra += a[4]; m.viol += a[5]; m.known += a[6]; m.steps += a[7]; m.switches += a[8]; m.vtime_s += vt; m.nontrivial += nt;
      }
    } else if (line.compare(0, 6, "probe ") == 0 || line.compare(0, 6, "fault ") == 0 || line.compare(0, 7, "policy ") == 0 || line.compare(0, 9, "knownhit ") == 0) {
      size_t sp1 = line.find(' '), sp2 = line.find(' ', sp1 + 1);
      uint64_t n = strtoull(line.c_str() + sp1 + 1, nullptr, 10);
      std::string name = line.substr(sp2 + 1);
      (line[0] == 'p' && line[1] == 'r' ? m.probes : line[0] == 'f' ? m.faults : line[0] == 'k' ? m.known_hits : m.policies)[name] += n;
    } else if (line.compare(0, 7, "sample ") == 0) m.samples.push_back(line.substr(7));
    else if (line.compare(0, 5, "viol ") == 0) {
      unsigned long long a = 0, b2 = 0;
      int consumed = 0;
      sscanf(line.c_str() + 5, "%llu %llu %n", &a, &b2, &consumed);
      m.viol_index.push_back(a); m.viol_start.push_back(b2);
      m.viol_what.push_back(consumed > 0 ? line.substr(5 + (size_t)consumed) : std::string());
    }
    else if (line.compare(0, 9, "inframsg ") == 0) { if (m.infra_msg.empty()) m.infra_msg = line.substr(9); }
    else if (line.compare(0, 7, "hashes ") == 0) {
      size_t n = strtoull(line.c_str() + 7, nullptr, 10);
      for (size_t i = 0; i < n && pos + 8 <= txt.size(); i++, pos += 8) {
        uint64_t h;
        memcpy(&h, txt.data() + pos, 8);
        hashes.insert(h);
      }
    }
  }
}

// ---------------------------------------------------------------------------
// replay files
static std::vector<uint64_t> g_prelude;  // see run_final
static std::string decs_to_json(const std::vector<Dec>& d) {
  std::string o = "[";
  char b[128];
  for (size_t i = 0; i < d.size(); i++) {
    snprintf(b, sizeof b, "%s[%d,%d,%u,%d,%lld,%lld]", i ? "," : "", d[i].tid, d[i].op, d[i].k, d[i].kind, (long long)d[i].arg, (long long)d[i].arg2);
    o += b;
  }
  return o + "]";
}

static std::string make_replay_json(const RunResult& r, const std::string& plan_json, const std::vector<Dec>* decs, uint64_t seed, uint64_t sched_seed, uint64_t orig_seed, size_t orig_ops, size_t orig_decs) {
  std::string o = "{\n";
  char b[256];
  o += " \"property\": " + json::quote(O.property) + ",\n";
  o += " \"harness\": " + json::quote(g_harness.name) + ",\n";
  o += " \"flavour\": " + json::quote(O.flavour) + ",\n";
  o += " \"mode\": " + std::to_string(O.mode) + ",\n";
  o += " \"class\": " + json::quote(r.cls) + ",\n";
  o += " \"site\": " + json::quote(r.site) + ",\n";
  o += " \"message\": " + json::quote(r.msg) + ",\n";
  snprintf(b, sizeof b, " \"seed_str\": \"%llu\",\n \"sched_seed_str\": \"%llu\",\n \"found_by_seed\": \"%llu\",\n \"event_hash\": \"%llu\",\n", (unsigned long long)seed, (unsigned long long)sched_seed, (unsigned long long)orig_seed, (unsigned long long)r.hash);
  o += b;
  snprintf(b, sizeof b, " \"original_ops\": %zu,\n \"original_decisions\": %zu,\n", orig_ops, orig_decs);
  o += b;
  o += " \"prelude_seeds\": [";
  for (size_t i = 0; i < g_prelude.size(); i++) { snprintf(b, sizeof b, "%s\"%llu\"", i ? "," : "", (unsigned long long)g_prelude[i]); o += b; }
  o += "],\n";
  o += " \"plan\": " + plan_json + ",\n";
  if (decs) o += " \"decisions_format\": \"[thread, op_id, point_in_op, kind(0 run,1 commit,2 spurious wake,3 clock jump,4 choose,5 early sleep return,6 waiter picked by a wake), arg, arg2]\",\n \"decisions\": " + decs_to_json(*decs) + "\n";
  else o += " \"decisions\": null\n";
  o += "}\n";
  return o;
}

struct ReplayFile {
  Plan plan;
  std::vector<Dec> decs;
  bool has_decs = false;
  uint64_t seed = 1, sched_seed = 0, hash = 0;
  std::string cls, site, property;
  int mode = -1;
  std::vector<uint64_t> prelude;
};

static bool load_replay(const std::string& path, ReplayFile& rf) {
  FILE* f = fopen(path.c_str(), "r");
  if (!f) return false;
  std::string s;
  char buf[65536];
  size_t n;
  while ((n = fread(buf, 1, sizeof buf, f)) > 0) s.append(buf, n);
  fclose(f);
  json::Value v;
  if (!json::parse(s, v)) return false;
  rf.cls = v.gets("class"); rf.site = v.gets("site"); rf.property = v.gets("property");
  rf.seed = strtoull(v.gets("seed_str", "1").c_str(), nullptr, 10); rf.sched_seed = strtoull(v.gets("sched_seed_str", "0").c_str(), nullptr, 10);
  rf.mode = (int)v.geti("mode", -1);
  rf.hash = strtoull(v.gets("event_hash", "0").c_str(), nullptr, 10);
  const json::Value* p = v.get("plan");
  if (!p) return false;
  // re-serialise the plan sub-object through our own reader
  // (simple approach: find it textually)
  size_t pp = s.find("\"plan\":");
  if (pp == std::string::npos) return false;
  size_t start = s.find('{', pp);
  int depth = 0; size_t end = start;
  for (size_t i = start; i < s.size(); i++) {
    if (s[i] == '{') depth++;
    else if (s[i] == '}') { depth--; if (depth == 0) { end = i + 1; break; } }
  }
  if (!plan_from_json(s.substr(start, end - start), rf.plan, g_harness)) return false;
  const json::Value* pre = v.get("prelude_seeds");
  if (pre && pre->type == json::Value::ARR) for (auto& e : pre->a) rf.prelude.push_back(e.type == json::Value::STR ? strtoull(e.s.c_str(), nullptr, 10) : (uint64_t)e.i);
  const json::Value* d = v.get("decisions");
  if (d && d->type == json::Value::ARR) {
    rf.has_decs = true;
    for (auto& e : d->a) {
      if (e.a.size() < 6) continue;
      Dec x{(int)e.a[0].i, (int)e.a[1].i, (uint32_t)e.a[2].i, (int)e.a[3].i, e.a[4].i, e.a[5].i};
      rf.decs.push_back(x);
    }
  }
  return true;
}

// ---------------------------------------------------------------------------
// A run may depend on what earlier runs left behind in process-wide babylon
// singletons. g_prelude lists the seeds of runs executed (in the same fresh
// process) before the run of interest; empty = pristine process.
static RunResult run_final(const RunSpec& final_spec) {
  if (g_prelude.empty()) return run_one(final_spec);
  std::vector<RunSpec> specs;
  for (uint64_t sd : g_prelude) {
    RunSpec s;
    s.seed = sd;
    s.gp.property = O.property.c_str(); s.gp.thorough = O.thorough; s.gp.mode = O.mode;
    specs.push_back(s);
  }
  specs.push_back(final_spec);
  std::vector<RunResult> v = run_many(specs.data(), specs.size());
  if (v.size() == specs.size()) return v.back();
  RunResult bad;
  bad.status = 4; bad.cls = "infra"; bad.site = "prelude"; bad.msg = "a prelude run did not complete normally";
  if (!v.empty() && v.back().status != 0) bad = v.back(), bad.status = 4;
  return bad;
}

// ---------------------------------------------------------------------------
// minimisation
static uint64_t g_min_runs = 0;

static bool same_class(const RunResult& r, const std::string& cls, const std::string& site) {
  return r.status == 1 && r.cls == cls && r.site == site;
}

// try a plan under up to `tries` schedule seeds; on success returns true and
// fills seed_out/result
static bool plan_fails(const Plan& p, uint64_t base_seed, int tries, const std::string& cls, const std::string& site, uint64_t& sched_seed_out, RunResult& out) {
  for (int j = 0; j < tries; j++) {
    RunSpec s;
    s.seed = base_seed;
    s.plan = &p;
    s.sched_seed = j == 0 ? sched_seed_out : mix64(base_seed, 0x1000 + (uint64_t)j);
    if (s.sched_seed == 0) s.sched_seed = 1;
    s.gp.property = O.property.c_str(); s.gp.thorough = O.thorough; s.gp.mode = O.mode;
    RunResult r = run_final(s);
    g_min_runs++;
    if (same_class(r, cls, site)) { sched_seed_out = s.sched_seed; out = r; return true; }
  }
  return false;
}

static bool decs_fail(const Plan& p, uint64_t seed, const MVec<Dec>& d, const std::string& cls, const std::string& site, RunResult& out) {
  RunSpec s;
  s.seed = seed;
  s.plan = &p;
  s.decisions = &d;
  s.gp.property = O.property.c_str(); s.gp.thorough = O.thorough; s.gp.mode = O.mode;
  RunResult r = run_final(s);
  g_min_runs++;
  if (same_class(r, cls, site)) { out = r; return true; }
  return false;
}

struct Minimised {
  Plan plan;
  std::vector<Dec> decs;
  bool has_decs = false;
  uint64_t sched_seed = 0;
  RunResult result;
};

static double g_min_wall_deadline = 0;
static inline bool min_left(int budget_runs) { return g_min_runs < (uint64_t)budget_runs && wall_now() < g_min_wall_deadline; }

static Minimised minimise(const Plan& orig, uint64_t seed, const RunResult& first, int budget_runs) {
  Minimised m;
  m.plan = orig;
  m.sched_seed = mix64(seed, 0x5ced5ced);
  m.result = first;
  const std::string cls = first.cls, site = first.site;
  const int TRIES = 12;
  g_min_runs = 0;
  // wall-clock cap as well: plans with a hundred threads take a second per run
  g_min_wall_deadline = wall_now() + (O.thorough ? 240.0 : 75.0);
  // drop prelude runs that are not needed (from the front, halving chunks)
  if (!g_prelude.empty()) {
    size_t chunk = g_prelude.size();
    while (chunk >= 1 && !g_prelude.empty()) {
      bool any = false;
      for (size_t start = 0; start < g_prelude.size();) {
        std::vector<uint64_t> keep = g_prelude, cand;
        for (size_t i = 0; i < keep.size(); i++) if (i < start || i >= start + chunk) cand.push_back(keep[i]);
        g_prelude = cand;
        uint64_t ss = m.sched_seed; RunResult rr;
        if (plan_fails(m.plan, seed, 1, cls, site, ss, rr)) { m.result = rr; any = true; }
        else { g_prelude = keep; start += chunk; }
      }
      if (chunk == 1) break;
      chunk = (chunk + 1) / 2;
      (void)any;
    }
  }
  bool progress = true;
  while (progress && min_left(budget_runs)) {
    progress = false;
    // drop whole threads (from the back)
    for (size_t t = m.plan.threads.size(); t-- > 0 && min_left(budget_runs);) {
      if (m.plan.threads[t].empty()) continue;
      Plan c = m.plan;
      c.threads[t].clear();
      uint64_t ss = m.sched_seed; RunResult r;
      if (plan_fails(c, seed, TRIES, cls, site, ss, r)) { m.plan = c; m.sched_seed = ss; m.result = r; progress = true; }
    }
    // drop single ops
    for (size_t t = 0; t < m.plan.threads.size(); t++)
      for (size_t i = m.plan.threads[t].size(); i-- > 0 && min_left(budget_runs);) {
        Plan c = m.plan;
        c.threads[t].erase(c.threads[t].begin() + (long)i);
        uint64_t ss = m.sched_seed; RunResult r;
        if (plan_fails(c, seed, TRIES, cls, site, ss, r)) { m.plan = c; m.sched_seed = ss; m.result = r; progress = true; }
      }
    // simplify environment: faults off, store buffer off, policy random
    static const char* simplify[][2] = {{"faults", "0"}, {"sb", "0"}, {"policy", "0"}, {"jump_den", "0"}, {"spurious_den", "0"}, {"post_stall", "0"}, {"post_pts", "0"}};
    for (auto& kv : simplify) {
      if (!min_left(budget_runs)) break;
      auto it = m.plan.cfg.find(kv[0]);
      if (it == m.plan.cfg.end() || it->second == atoll(kv[1])) continue;
      Plan c = m.plan;
      c.cfg[kv[0]] = atoll(kv[1]);
      uint64_t ss = m.sched_seed; RunResult r;
      if (plan_fails(c, seed, TRIES, cls, site, ss, r)) { m.plan = c; m.sched_seed = ss; m.result = r; progress = true; }
    }
    // shrink op arguments a (towards 1) — harnesses clamp arguments themselves
    for (size_t t = 0; t < m.plan.threads.size(); t++)
      for (size_t i = 0; i < m.plan.threads[t].size() && min_left(budget_runs); i++) {
        if (m.plan.threads[t][i].a <= 1) continue;
        Plan c = m.plan;
        c.threads[t][i].a = c.threads[t][i].a / 2;
        if (c.threads[t][i].a < 1) c.threads[t][i].a = 1;
        uint64_t ss = m.sched_seed; RunResult r;
        if (plan_fails(c, seed, 4, cls, site, ss, r)) { m.plan = c; m.sched_seed = ss; m.result = r; progress = true; }
      }
  }
  // schedule: obtain decision log of the failing run
  {
    RunSpec s;
    s.seed = seed; s.plan = &m.plan; s.sched_seed = m.sched_seed; s.want_log = true;
    s.gp.property = O.property.c_str(); s.gp.thorough = O.thorough; s.gp.mode = O.mode;
    RunResult r = run_final(s);
    if (!same_class(r, cls, site)) return m;  // should not happen (determinism is gated separately)
    MVec<Dec> d(r.log.begin(), r.log.end());
    RunResult rr;
    if (!decs_fail(m.plan, seed, d, cls, site, rr)) return m;  // replay-by-decisions not faithful here: keep seed form
    m.has_decs = true;
    m.result = rr;
    // ddmin over decisions
    size_t chunk = d.size() / 2;
    int sched_budget = budget_runs;
    g_min_runs = 0;
    g_min_wall_deadline = wall_now() + (O.thorough ? 120.0 : 45.0);
    while (chunk >= 1 && min_left(sched_budget)) {
      bool any = false;
      for (size_t start = 0; start < d.size() && min_left(sched_budget);) {
        MVec<Dec> c;
        for (size_t i = 0; i < d.size(); i++)
          if (i < start || i >= start + chunk) c.push_back(d[i]);
        RunResult r2;
        if (c.size() < d.size() && decs_fail(m.plan, seed, c, cls, site, r2)) { d.swap(c); m.result = r2; any = true; }
        else start += chunk;
      }
      if (!any || chunk == 1) { if (chunk == 1 && !any) break; }
      chunk = chunk > 1 ? (chunk + 1) / 2 : (any ? 1 : 0);
      if (chunk == 0) break;
    }
    m.decs.assign(d.begin(), d.end());
  }
  return m;
}

// ---------------------------------------------------------------------------
static std::string g_self_path;

static int replay_in_fresh_process(const std::string& path, std::string* out_line) {
  int pfd[2];
  if (pipe(pfd) != 0) return -1;
  pid_t pid = fork();
  if (pid == 0) {
    close(pfd[0]);
    dup2(pfd[1], 1);
    execl(g_self_path.c_str(), g_self_path.c_str(), "--replay", path.c_str(), "--quiet", (char*)nullptr);
    _exit(127);
  }
  close(pfd[1]);
  std::string txt;
  read_all(pfd[0], txt);
  close(pfd[0]);
  int st = 0;
  waitpid(pid, &st, 0);
  if (out_line) *out_line = txt;
  return WIFEXITED(st) ? WEXITSTATUS(st) : -1;
}

static int do_replay(const std::string& path, bool quiet) {
  ReplayFile rf;
  if (!load_replay(path, rf)) { fprintf(stderr, "cannot load replay file %s\n", path.c_str()); return 2; }
  O.property = rf.property;
  O.mode = rf.mode;
  RunSpec s;
  s.seed = rf.seed; s.sched_seed = rf.sched_seed; s.plan = &rf.plan;
  MVec<Dec> d(rf.decs.begin(), rf.decs.end());
  if (rf.has_decs) s.decisions = &d;
  s.trace = O.trace;
  s.gp.property = O.property.c_str(); s.gp.mode = O.mode;
  g_prelude = rf.prelude;
  RunResult r = run_final(s);
  printf("REPLAY status=%d class=%s site=%s hash=%llu expected_class=%s expected_hash=%llu\n", r.status, r.cls.c_str(), r.site.c_str(), (unsigned long long)r.hash, rf.cls.c_str(), (unsigned long long)rf.hash);
  if (!quiet) printf("message: %s\nsteps=%llu switches=%llu threads=%d vtime_ns=%lld\n", r.msg.c_str(), (unsigned long long)r.steps, (unsigned long long)r.switches, r.threads, (long long)r.vtime_ns);
  if (r.status == 1 && r.cls == rf.cls && r.site == rf.site) {
    if (rf.hash && r.hash != rf.hash) { printf("REPLAY reproduced the violation class but with a different event hash\n"); return 3; }
    printf("VIOLATION property=%s replay=%s\n", rf.property.c_str(), path.c_str());
    return 1;
  }
  if (r.status == 0) { printf("REPLAY: property held (violation not reproduced)\n"); return 0; }
  return r.status == 1 ? 1 : 2;
}

// ---------------------------------------------------------------------------
static std::string jmap(const std::map<std::string, uint64_t>& m) {
  std::string o = "{";
  bool first = true;
  for (auto& kv : m) {
    if (!first) o += ", ";
    first = false;
    o += json::quote(kv.first) + ": " + std::to_string(kv.second);
  }
  return o + "}";
}

static uint64_t g_det_pairs = 0, g_det_bad = 0;
static void write_evidence(const WorkerStats& m, size_t distinct, double wall, int violations, const std::vector<std::string>& notes) {
  if (O.evidence.empty()) return;
  std::string tmp = O.evidence + ".tmp";
  FILE* f = fopen(tmp.c_str(), "w");
  if (!f) { fprintf(stderr, "cannot write evidence %s\n", tmp.c_str()); return; }
  fprintf(f, "{\n \"property_id\": %s,\n \"tier\": \"%s\",\n \"seed\": %llu,\n \"level\": \"%s\",\n", json::quote(O.property).c_str(), O.thorough ? "thorough" : "quick", (unsigned long long)O.seed, O.level.c_str());
  fprintf(f, " \"coverage\": {\n  \"evaluations\": %llu,\n  \"distinct_nontrivial\": %zu,\n", (unsigned long long)m.runs, distinct);
  fprintf(f, "  \"rule\": \"one evaluation = one simulated run (plan generated from mix(VERIF_SEED, index), executed under a seeded scheduler in a forked child); a run is non-trivial if at least one context switch happened strictly inside an API operation of the component under test; distinct = distinct hashes of the sequence (thread, sync-operation kind) over the whole run, counted over non-trivial passing runs\",\n");
  fprintf(f, "  \"samples\": [");
  for (size_t i = 0; i < m.samples.size() && i < 3; i++) fprintf(f, "%s%s", i ? ",\n   " : "\n   ", m.samples[i].c_str());
  if (m.samples.empty()) fprintf(f, "\"(no sample captured)\"");
  fprintf(f, "\n  ],\n");
  fprintf(f, "  \"harness\": %s,\n  \"mode\": %d,\n", json::quote(g_harness.name).c_str(), O.mode);
  fprintf(f, "  \"runs_ok\": %llu,\n  \"runs_skipped\": %llu,\n  \"runs_inconclusive_budget\": %llu,\n  \"runs_infra_error\": %llu,\n  \"runs_known_finding\": %llu,\n", (unsigned long long)m.ok, (unsigned long long)m.skipped, (unsigned long long)m.budget, (unsigned long long)m.infra, (unsigned long long)m.known);
  fprintf(f, "  \"nontrivial_runs\": %llu,\n", (unsigned long long)m.nontrivial);
  fprintf(f, "  \"determinism_pairs_checked\": %llu,\n  \"determinism_mismatches\": %llu,\n", (unsigned long long)g_det_pairs, (unsigned long long)g_det_bad);
  fprintf(f, "  \"runs_per_hour\": %.0f,\n  \"simulated_seconds\": %.3f,\n  \"scheduling_points\": %llu,\n  \"context_switches\": %llu,\n", wall > 0 ? (double)m.runs / wall * 3600 : 0, m.vtime_s, (unsigned long long)m.steps, (unsigned long long)m.switches);
  fprintf(f, "  \"faults_fired\": %s,\n  \"probes\": %s,\n", jmap(m.faults).c_str(), jmap(m.probes).c_str());
  fprintf(f, "  \"components\": {\"real\": [\"babylon sources compiled from /repo working tree with clang -fsanitize=thread instrumentation routed to the simulator\", \"harness\"], \"stub\": [\"kernel futex/clock/sleep/threads scheduling (simulated)\", \"abseil, protobuf, libstdc++ internals (uninstrumented, execute atomically)\"]}\n");
  fprintf(f, " },\n \"assumptions\": [");
  for (size_t i = 0; i < notes.size(); i++) fprintf(f, "%s%s", i ? ", " : "", json::quote(notes[i]).c_str());
  fprintf(f, "],\n \"wall_s\": %.2f,\n \"violations\": %d\n}\n", wall, violations);
  fclose(f);
  rename(tmp.c_str(), O.evidence.c_str());
}

static void mkdirs(const std::string& p) {
  std::string cur;
  for (size_t i = 0; i < p.size(); i++) {
    cur += p[i];
    if (p[i] == '/' || i + 1 == p.size()) mkdir(cur.c_str(), 0755);
  }
}

static int run_batch() {
  double t0 = wall_now();
  double t_end = t0 + O.seconds;
  int jobs = O.jobs;
  std::vector<pid_t> pids;
  std::vector<int> fds;
  g_stop_flag = (int*)mmap(nullptr, 4096, PROT_READ | PROT_WRITE, MAP_SHARED | MAP_ANONYMOUS, -1, 0);
  if (g_stop_flag == MAP_FAILED) g_stop_flag = nullptr;
  for (int w = 0; w < jobs; w++) {
    int pfd[2];
    if (pipe(pfd) != 0) return 2;
    fflush(stdout);
    pid_t pid = fork();
    if (pid == 0) {
      close(pfd[0]);
      for (int fd : fds) close(fd);
      prctl(PR_SET_PDEATHSIG, SIGKILL);
      worker_loop(w, jobs, t_end, pfd[1]);
      _exit(0);
    }
    close(pfd[1]);
    pids.push_back(pid);
    fds.push_back(pfd[0]);
  }
  WorkerStats m;
  std::unordered_set<uint64_t> hashes;
  for (int w = 0; w < jobs; w++) {
    std::string txt;
    read_all(fds[(size_t)w], txt);
    close(fds[(size_t)w]);
    int st;
    waitpid(pids[(size_t)w], &st, 0);
    merge_stats(txt, m, hashes);
  }
  double wall = wall_now() - t0;
  std::vector<std::string> notes = {
      "clang 14 TSan instrumentation pass routes every atomic and plain access of babylon to the simulator runtime",
      "memory model: SC interleaving + per-thread store buffers (TSO/PSO) + happens-before check on registered payload; no load buffering",
      "uninstrumented dependencies (abseil, protobuf, libstdc++ .so) execute atomically between scheduling points",
      "sampling, not exhaustive: a clean batch is evidence, not proof"};
  if (!O.note.empty()) notes.push_back(O.note);
  for (auto& kv : m.known_hits) printf("KNOWN-FINDING: property=%s %s (observed in %llu runs)\n", O.property.c_str(), kv.first.c_str(), (unsigned long long)kv.second);
  printf("SUMMARY property=%s harness=%s mode=%d runs=%llu ok=%llu skipped=%llu budget=%llu infra=%llu known=%llu violations=%llu nontrivial=%llu distinct=%zu steps=%llu wall=%.1fs\n", O.property.c_str(), g_harness.name, O.mode,
         (unsigned long long)m.runs, (unsigned long long)m.ok, (unsigned long long)m.skipped, (unsigned long long)m.budget, (unsigned long long)m.infra, (unsigned long long)m.known, (unsigned long long)m.viol, (unsigned long long)m.nontrivial, hashes.size(), (unsigned long long)m.steps, wall);
  for (auto& kv : m.probes) printf("  probe %-40s %llu\n", kv.first.c_str(), (unsigned long long)kv.second);
  for (auto& kv : m.faults) printf("  fault %-40s %llu\n", kv.first.c_str(), (unsigned long long)kv.second);
  int rc = 0;
  int nviol = 0;
  if (!m.viol_index.empty()) {
    size_t best = 0;
    for (size_t i = 1; i < m.viol_index.size(); i++) if (m.viol_index[i] < m.viol_index[best]) best = i;
    uint64_t idx = m.viol_index[best], pstart = m.viol_start[best];
    RunSpec s = spec_for_index(idx);
    s.want_plan = true;
    g_prelude.clear();
    RunResult a = run_final(s), b = run_final(s);
    if (!(a.status == 1 && b.status == 1 && a.hash == b.hash && a.cls == b.cls) && pstart < idx) {
      // not reproducible in a pristine process: it depends on what the earlier
      // runs of the same worker process left behind. Replay that prefix.
      for (uint64_t i = pstart; i < idx; i++) g_prelude.push_back(mix64(O.seed, i));
      a = run_final(s); b = run_final(s);
      if (a.status == 1 && b.status == 1) printf("note: violation needs the state left by %zu earlier runs in the same process (prelude)\n", g_prelude.size());
    }
    if (!(a.status == 1 && b.status == 1 && a.hash == b.hash && a.cls == b.cls)) {
      printf("INFRA nondeterministic run at index %llu (seed %llu): status %d/%d class %s/%s hash %llu/%llu — not reported as violation; in the batch it was: %s\n", (unsigned long long)idx, (unsigned long long)s.seed, a.status, b.status, a.cls.c_str(), b.cls.c_str(), (unsigned long long)a.hash, (unsigned long long)b.hash, m.viol_what[best].c_str());
      rc = 2;
    } else {
      printf("violation at index %llu seed %llu: class=%s site=%s\n  %s\n", (unsigned long long)idx, (unsigned long long)s.seed, a.cls.c_str(), a.site.c_str(), a.msg.c_str());
      Plan orig;
      if (!plan_from_json(a.plan_json, orig, g_harness)) { printf("INFRA cannot parse plan of failing run\n"); rc = 2; }
      else {
        Minimised mm = minimise(orig, s.seed, a, O.thorough ? 1500 : 600);
        mkdirs(O.replay_dir);
        char name[256];
        snprintf(name, sizeof name, "%s/%s-%s-%llu.json", O.replay_dir.c_str(), O.property.c_str(), g_harness.name, (unsigned long long)s.seed);
        std::string rj = make_replay_json(mm.result, plan_to_json(mm.plan, g_harness), mm.has_decs ? &mm.decs : nullptr, s.seed, mm.sched_seed, s.seed, orig.total_ops(), a.log.size());
        FILE* f = fopen(name, "w");
        if (f) { fwrite(rj.data(), 1, rj.size(), f); fclose(f); }
        std::string out;
        int rr = replay_in_fresh_process(name, &out);
        if (rr != 1) {
          printf("INFRA replay of minimised plan in a fresh process did not reproduce (exit %d): %s\n", rr, out.c_str());
          rc = 2;
        } else {
          printf("minimised to %zu ops, %zu decisions\n  %s\n", mm.plan.total_ops(), mm.decs.size(), mm.result.msg.c_str());
          printf("VIOLATION property=%s replay=%s\n", O.property.c_str(), name);
          rc = 1;
          nviol = 1;
        }
      }
    }
    free((void*)s.gp.property);
  }
  // determinism sample: a few seeds of this batch are run twice more in pristine
  // processes; the full event hashes must agree (otherwise nothing this run
  // reports can be trusted: exit 2)
  uint64_t det_pairs = 0, det_bad = 0;
  if (rc != 1) {
    for (uint64_t i = 0; i < 12 && i < m.runs; i++) {
      RunSpec s = spec_for_index(O.first_index + i * 7);
      g_prelude.clear();
      RunResult a = run_one(s), b = run_one(s);
      det_pairs++;
      if (a.hash != b.hash || a.status != b.status || a.steps != b.steps) {
        det_bad++;
        printf("INFRA nondeterministic: index %llu seed %llu gave status %d/%d steps %llu/%llu hash %llu/%llu\n", (unsigned long long)(O.first_index + i * 7), (unsigned long long)s.seed, a.status, b.status, (unsigned long long)a.steps, (unsigned long long)b.steps, (unsigned long long)a.hash, (unsigned long long)b.hash);
      }
      free((void*)s.gp.property);
    }
    if (det_bad) rc = 2;
  }
  g_det_pairs = det_pairs; g_det_bad = det_bad;
  if (rc == 0 && m.infra > 0) {
    printf("INFRA %llu runs ended with infrastructure errors: %s\n", (unsigned long long)m.infra, m.infra_msg.c_str());
    rc = 2;
  }
  write_evidence(m, hashes.size(), wall, nviol, notes);
  return rc;
}

static int run_selftest(uint64_t n) {
  // determinism: every seed twice, compare full event hashes
  uint64_t bad = 0;
  for (uint64_t i = 0; i < n; i++) {
    RunSpec s = spec_for_index(i);
    RunResult a = run_one(s), b = run_one(s);
    if (a.hash != b.hash || a.status != b.status || a.steps != b.steps) {
      bad++;
      printf("NONDETERMINISTIC index=%llu seed=%llu status %d/%d steps %llu/%llu hash %llu/%llu\n", (unsigned long long)i, (unsigned long long)s.seed, a.status, b.status, (unsigned long long)a.steps, (unsigned long long)b.steps, (unsigned long long)a.hash, (unsigned long long)b.hash);
    }
    // and replay-by-decisions reproduces the same hash
    free((void*)s.gp.property);
  }
  printf("SELFTEST determinism pairs=%llu mismatches=%llu\n", (unsigned long long)n, (unsigned long long)bad);
  return bad ? 2 : 0;
}

int main(int argc, char** argv) {
  // ASLR off (fixed addresses make pointer-dependent behaviour repeatable)
  if (!getenv("SIM_NO_REEXEC")) {
    int pers = personality(0xffffffff);
    if (pers != -1 && !(pers & ADDR_NO_RANDOMIZE)) {
      personality(pers | ADDR_NO_RANDOMIZE);
      setenv("SIM_NO_REEXEC", "1", 1);
      execv("/proc/self/exe", argv);
    }
  }
  char selfbuf[4096];
  ssize_t sl = readlink("/proc/self/exe", selfbuf, sizeof selfbuf - 1);
  if (sl > 0) { selfbuf[sl] = 0; g_self_path = selfbuf; } else g_self_path = argv[0];
  setvbuf(stdout, nullptr, _IOLBF, 0);
  const char* es = getenv("VERIF_SEED");
  if (es && *es) O.seed = strtoull(es, nullptr, 10);
  bool quiet = false;
  for (int i = 1; i < argc; i++) {
    std::string a = argv[i];
    auto next = [&]() -> const char* { return i + 1 < argc ? argv[++i] : ""; };
    if (a == "--property") O.property = next();
    else if (a == "--tier") O.thorough = std::string(next()) == "thorough";
    else if (a == "--mode") O.mode = atoi(next());
    else if (a == "--seconds") O.seconds = atof(next());
    else if (a == "--runs") O.max_runs = strtoull(next(), nullptr, 10);
    else if (a == "--first") O.first_index = strtoull(next(), nullptr, 10);
    else if (a == "--seed") O.seed = strtoull(next(), nullptr, 10);
    else if (a == "--jobs") O.jobs = atoi(next());
    else if (a == "--chunk") g_chunk = atoi(next());
    else if (a == "--evidence") O.evidence = next();
    else if (a == "--replay-dir") O.replay_dir = next();
    else if (a == "--replay") O.replay_file = next();
    else if (a == "--trace") O.trace = true;
    else if (a == "--quiet") quiet = true;
    else if (a == "--level") O.level = next();
    else if (a == "--note") O.note = next();
    else if (a == "--flavour") O.flavour = next();
    else if (a == "--timeout") g_child_timeout_s = atoi(next());
    else if (a == "--known") {
      // class|site|description
      std::string k = next();
      size_t p1 = k.find('|'), p2 = p1 == std::string::npos ? p1 : k.find('|', p1 + 1);
      Known kn;
      kn.cls = k.substr(0, p1);
      if (p1 != std::string::npos) kn.site = k.substr(p1 + 1, p2 == std::string::npos ? std::string::npos : p2 - p1 - 1);
      if (p2 != std::string::npos) kn.desc = k.substr(p2 + 1);
      O.known.push_back(kn);
    } else if (a == "--one") { O.one = (int64_t)strtoull(next(), nullptr, 10); O.have_one = true; }
    else if (a == "--selftest") O.selftest = strtoull(next(), nullptr, 10);
    else { fprintf(stderr, "unknown argument %s\n", a.c_str()); return 2; }
  }
  if (O.jobs < 1) O.jobs = 1;
  if (g_harness.chunk > 0 && g_chunk == 40) g_chunk = g_harness.chunk;
  if (g_chunk < 1) g_chunk = 1;
  if (!O.replay_file.empty()) return do_replay(O.replay_file, quiet);
  if (O.have_one) {
    RunSpec s = spec_for_index((uint64_t)O.one);
    s.trace = O.trace; s.want_plan = true;
    RunResult r = run_one(s);
    printf("index=%lld seed=%llu status=%d class=%s site=%s\nmsg=%s\nsteps=%llu switches=%llu in_op=%llu threads=%d vtime=%lld hash=%llu\nplan=%s\n", (long long)O.one, (unsigned long long)s.seed, r.status, r.cls.c_str(), r.site.c_str(), r.msg.c_str(), (unsigned long long)r.steps, (unsigned long long)r.switches, (unsigned long long)r.switches_in_op, r.threads, (long long)r.vtime_ns, (unsigned long long)r.hash, r.plan_json.c_str());
    for (auto& kv : r.probes) printf("probe %s=%llu\n", kv.first.c_str(), (unsigned long long)kv.second);
    for (auto& kv : r.faults) printf("fault %s=%llu\n", kv.first.c_str(), (unsigned long long)kv.second);
    return r.status;
  }
  if (O.selftest) return run_selftest(O.selftest);
  return run_batch();
}
