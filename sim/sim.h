// Deterministic simulator for baidu/babylon — public interface for harnesses.
// See /verif/DESIGN.md §2.
#pragma once
#include <stddef.h>
#include <stdint.h>

#include <map>
#include <string>
#include <vector>

namespace sim {

// ---------------------------------------------------------------------------
// PRNG: splitmix64-seeded xoshiro256**. Everything random derives from it.
struct Rng {
  uint64_t s[4];
  explicit Rng(uint64_t seed = 1) { reseed(seed); }
  void reseed(uint64_t seed);
  uint64_t next();
  // uniform in [0, n)  (n > 0)
  uint64_t below(uint64_t n) { return n <= 1 ? 0 : next() % n; }
  // uniform in [lo, hi]
  int64_t range(int64_t lo, int64_t hi) {
    return lo + (int64_t)below((uint64_t)(hi - lo + 1));
  }
  bool chance(uint32_t num, uint32_t den) { return below(den) < num; }
  template <typename T, size_t N>
  T pick(const T (&arr)[N]) {
    return arr[below(N)];
  }
};
uint64_t mix64(uint64_t a, uint64_t b);

// ---------------------------------------------------------------------------
// Plans: explicit, shrinkable description of one run's workload.
struct Op {
  int kind = 0;
  int64_t a = 0, b = 0, c = 0;
  int id = 0;  // stable id (original position), survives deletion of others
};
struct Plan {
  std::map<std::string, int64_t> cfg;
  std::vector<std::vector<Op>> threads;
  int64_t get(const char* key, int64_t dflt = 0) const {
    auto it = cfg.find(key);
    return it == cfg.end() ? dflt : it->second;
  }
  size_t total_ops() const {
    size_t n = 0;
    for (auto& t : threads) n += t.size();
    return n;
  }
};

struct GenParams {
  const char* property;  // "C01" ...
  bool thorough;
  int mode;  // harness specific mode selector (from --mode), -1 = mixed
};

struct Harness {
  const char* name;
  const char* const* op_names;  // nullptr terminated
  // Produce a plan from the PRNG.
  void (*gen)(Rng&, Plan&, const GenParams&);
  // Execute as simulated thread 0. Must call sim::fail on violation.
  void (*run)(const Plan&);
  // Optional shrinking hints: cfg keys that may be lowered (nullptr-terminated)
  const char* const* shrink_cfg;
  // how many runs may share one process (0 = default); 1 = fork per run, for
  // harnesses whose runs need a pristine process (absolute clock, singletons)
  int chunk;
};
// Standard configuration keys every plan carries (drawn by gen_common):
//   sb (0 off,1 TSO,2 PSO), sb_den, policy, sticky_den, pct_depth,
//   pct_expected, faults, spurious_den, jump_den, starve_tid, starve_from,
//   starve_len, t0 (initial virtual time, ns)
enum { SB_NEVER = 0, SB_HALF = 1, SB_ALWAYS = 2 };
void gen_common(Rng& r, Plan& p, int sb_mode, bool faults, uint64_t expected_steps);
// Each harness binary defines exactly one of these.
extern const Harness g_harness;

// ---------------------------------------------------------------------------
// Reporting (callable only inside a simulated run).
// Record a violation (class = short stable token, site = stable sub-location)
// and terminate the run.
[[noreturn]] void fail(const char* cls, const char* site, const char* fmt, ...)
    __attribute__((format(printf, 3, 4)));
// Name the API call about to be made, so that a crash (signal) inside it is
// reported with this site instead of the generic "signal" (nullptr resets).
void set_crash_site(const char* site);
// Attribute every violation raised by the calling thread until cleared (nullptr, nullptr)
// to one listed, unrepaired defect: reported as cls/site, original classification in the message.
void fail_context(const char* cls, const char* site);
// Count a "rare condition reached" probe.
void probe(const char* name, uint64_t n = 1);
// Count an injected fault that actually fired.
void fault_fired(const char* name, uint64_t n = 1);
// Mark that the run was not meaningful (skipped) — counted separately.
[[noreturn]] void skip(const char* why);

// Global event sequence number (monotone; one per scheduling point).
uint64_t stamp();
// Virtual time in ns.
int64_t now_ns();
// Current simulated thread id (0 = harness main).
int tid();
int live_threads();

// Operation brackets: make (thread, op id, k) keys for recorded decisions and
// count "context switch strictly inside an operation".
void op_begin(int op_id);
void op_end();
struct OpScope {
  explicit OpScope(int id) { op_begin(id); }
  ~OpScope() { op_end(); }
};

// Explicit scheduling point (harness-declared).
void yield_point();
// Sleep in virtual time.
void sleep_ns(int64_t ns);
// Block until no other thread is runnable (all blocked, sleeping or done).
// Returns the number of other threads that are not done.
int wait_quiescent();
// Number of other threads not yet finished.
int others_alive();
// true if every other thread is DONE
bool all_others_done();
// true if every other live thread is blocked without a timeout (so nothing
// but the caller can ever wake it)
bool others_blocked_forever();
// Virtual time the calling thread has spent blocked (futex/condvar waits and
// sleeps, counted until it became runnable again, not until it actually ran).
int64_t my_blocked_ns();
// Scheduling points executed by the calling thread so far.
uint64_t my_points();
// Arm a per-thread deadline probe: points_since_deadline() later returns how
// many of the caller's own points were executed after virtual time passed
// abs_ns (0 if it never did).
void watch_deadline(int64_t abs_ns);
uint64_t points_since_deadline();
// Vector-clock queries for oracles that must not assume more visibility than
// the C++ memory model gives: my_clock() is the caller's current epoch; an
// event recorded as (tid, clock) happens-before the caller's current point
// iff happened_before_me(tid, clock).
uint32_t my_clock();
bool happened_before_me(int tid, uint32_t clock);
// Force the calling thread's store buffer to drain (harness-side sync).
void drain();
// Virtual clock jump (fault).
void clock_jump(int64_t ns);

// Harness-level random choices *during* the run (rare; recorded in the
// decision log so that replay is exact). Prefer putting choices in the plan.
uint64_t choose(uint64_t n);

// ---------------------------------------------------------------------------
// Happens-before race detection on registered payload ranges.
void hb_register(const void* p, size_t n, const char* name);
void hb_unregister(const void* p);
// Enable preemption (scheduling points) on plain accesses inside a range.
void preempt_register(const void* p, size_t n);
void preempt_unregister(const void* p);
// Explicit harness-level accesses for memory the compiler does not instrument
// for us (e.g. touched through memcpy).
void hb_read(const void* p, size_t n);
void hb_write(const void* p, size_t n);

// Watchpoints: callback on every committed modification of a registered
// atomic location (runs on the committing thread, must not block).
typedef void (*WatchFn)(void* ctx, const void* addr, uint64_t oldv,
                        uint64_t newv);
void watch(const void* addr, size_t n, WatchFn fn, void* ctx);

// ---------------------------------------------------------------------------
// Heap introspection (simulator's operator new arena).
bool heap_is_live(const void* p);       // inside a live block
bool heap_is_freed(const void* p);      // inside a freed block
bool heap_owns(const void* p);          // inside the arena at all
uint64_t heap_live_blocks();
uint64_t heap_live_bytes();
// virtual time at which the block containing p was freed (-1 if live/unknown)
int64_t heap_free_time(const void* p);
// Hook called on every free of a block (ctx, ptr, size); one slot.
void heap_on_free(void (*fn)(void*, void*, size_t), void* ctx);

// Executor / environment fault knobs.
struct Config {
  int storebuf;  // 0 off, 1 TSO, 2 PSO
  int policy;    // 0 random, 1 sticky, 2 pct, 3 starve
  bool faults;   // fault mode (spurious wakes, clock jumps, ...)
};
const Config& config();

// file sink (interposed write/writev) — see harness/logging.
int sink_open();  // returns a fake fd
const std::string& sink_data(int fd);
void sink_set_fault(int fd, int kind, int every);  // 0 none 1 short 2 EIO
bool sink_closed(int fd);

// logging for debugging replays (VERIF_TRACE=1)
void tracef(const char* fmt, ...) __attribute__((format(printf, 1, 2)));
bool tracing();

}  // namespace sim
