// Simulator global state (only touched by the token holder).
#pragma once
#include <pthread.h>
#include <stdint.h>
#include <string.h>

#include <map>

#include "internal.h"

namespace sim {
namespace rt {

constexpr int MAXT = 192;  // simulated threads per run (wide thread pools reach past babylon's 128-entry blocks)
extern int g_vc_n;        // number of thread slots in use in this run: vector clock loops stop here
constexpr int64_t TICK_NS = 50;

struct VC {
  uint32_t c[MAXT];
  void clear() { memset(c, 0, sizeof(c)); }
  void join(const VC& o) {
    for (int i = 0; i < g_vc_n; i++)
      if (o.c[i] > c[i]) c[i] = o.c[i];
  }
};

enum State : int {
  ST_FREE = 0,
  ST_RUN,      // runnable
  ST_FUTEX,    // blocked in futex wait (wait_addr, deadline)
  ST_MUTEX,    // blocked on mutex (wait_addr)
  ST_COND,     // blocked on condvar (wait_addr, deadline)
  ST_JOIN,     // blocked joining thread (wait_tid)
  ST_SLEEP,    // sleeping until deadline
  ST_QUIESCE,  // waiting for everyone else to be blocked
  ST_GUARD,    // waiting for static-init guard / once (wait_addr)
  ST_DONE,
};

enum WakeReason : int { W_NONE = 0, W_WOKEN, W_TIMEOUT, W_SPURIOUS };

struct SbEntry {
  uintptr_t addr;
  uint8_t size;
  uint8_t release;  // store had release semantics (or carries fence clock)
  uint64_t val;
  VC vc;  // clock published with this store (valid if release)
};

struct Thread {
  int id = -1;
  State st = ST_FREE;
  uint32_t park = 0;  // real futex word: 1 = may run
  pthread_t real{};
  void* (*fn)(void*) = nullptr;
  void* arg = nullptr;
  void* ret = nullptr;
  bool detached = false;
  bool joined = false;
  uintptr_t wait_addr = 0;
  int wait_tid = -1;
  int64_t deadline = -1;
  int wake_reason = W_NONE;
  // scheduling
  uint64_t pts = 0;
  int op = -1;
  uint32_t k = 0;
  bool in_op = false;
  int64_t prio = 0;
  uint32_t idle_pts = 0;   // consecutive points without shared write
  uint64_t ops_done = 0;
  int64_t watch_deadline = -1;
  int64_t block_start = 0;
  int64_t blocked_ns = 0;      // total virtual time spent blocked in timed/untimed waits and sleeps
  uint64_t watch_pts = 0;
  // memory model
  MVec<SbEntry> sb;
  VC vc;
  VC fence_rel;
  bool has_fence_rel = false;
  VC pend_acq;
  bool has_pend_acq = false;
  uintptr_t stack_lo = 0, stack_hi = 0;
};

struct Range {
  uintptr_t lo, hi;
  const char* name;
  void* cells;  // HB cells
};

struct Globals {
  bool active = false;       // inside a simulated run (child)
  bool finishing = false;
  Thread th[MAXT];
  int nth = 0;
  Thread* cur = nullptr;
  Rng srng{1};               // schedule PRNG
  uint64_t steps = 0, switches = 0, switches_in_op = 0;
  uint64_t max_steps = 3000000;
  int64_t now = 0;
  int64_t run_start = 0;
  int64_t realtime_offset = 1700000000LL * 1000000000LL;
  uint64_t hash = 1469598103934665603ULL, ihash = 1469598103934665603ULL;
  int sb_nonempty = 0;       // number of threads with pending stores
  uint64_t idle_jumps = 0;   // consecutive idle clock jumps without a shared write
  uint64_t max_idle_jumps = 20000;
  // config
  int storebuf = 0;          // 0 off 1 TSO 2 PSO
  uint32_t commit_den = 8;   // a pending entry commits with prob 1/commit_den per point
  int policy = 0;
  uint32_t sticky_den = 8;   // switch prob = 1/sticky_den
  int pct_depth = 2;
  uint64_t pct_expected = 2000;
  uint64_t pct_points[4] = {0, 0, 0, 0};
  int starve_tid = -1;
  uint64_t starve_from = 0, starve_to = 0;
  bool faults = false;
  uint32_t spurious_den = 200;
  // extra scheduling point *after* every store / successful RMW / unlock / wake:
  // lets a thread be delayed between publishing something and its next plain
  // access (use-after-publish bugs); drawn per run
  int post_pts = 0;
  // post-publish stall (cfg post_stall = den, needs post_pts): at a P_POST point the
  // running thread is, with chance 1/den, kept off the CPU for a drawn number of
  // steps while anybody else can run — "publisher pre-empted right after publishing"
  uint32_t post_stall_den = 0;
  int stall_tid = -1; uint64_t stall_to = 0; int cur_kind = 0;
  int relseq17 = 0;  // happens-before clocks follow the C++11-17 release-sequence rule (mem.cc loc_store)
  uint32_t jump_den = 0;
  Config pub{};
  // replay
  bool replay = false;
  std::multimap<uint64_t, Dec, std::less<uint64_t>,
                MA<std::pair<const uint64_t, Dec>>> rmap;
  MVec<Dec> log;
  bool keep_log = true;
  bool trace = false;
  int out_fd = -1;
  const RunSpec* spec = nullptr;
  const Plan* plan = nullptr;
  std::map<MString, uint64_t, std::less<MString>,
           MA<std::pair<const MString, uint64_t>>> probes, faultc;
  VC sc_fence;  // clock of the last seq_cst fence (total order)
  int out_want_plan = 0;
};
extern Globals G;
extern __thread Thread* self;

inline uint64_t dkey(int tid, int op, uint32_t k) {
  uint64_t opkey = op >= 0 ? (uint64_t)op * 2 : (uint64_t)(-(int64_t)op) * 2 + 1;
  return ((uint64_t)tid << 56) | ((opkey & 0xffffff) << 32) | k;
}

// scheduler entry points
enum PointKind : int {
  P_LOAD = 1, P_STORE, P_RMW, P_FENCE, P_FUTEX_WAIT, P_FUTEX_WAKE, P_MUTEX,
  P_COND, P_SLEEP, P_YIELD, P_CLOCK, P_CREATE, P_JOIN, P_EXIT, P_OP, P_PLAIN,
  P_GUARD, P_IO, P_USER, P_POST,
};
void point(int kind, uintptr_t addr);          // ordinary scheduling point
void block(State st, uintptr_t addr, int64_t deadline, int wait_tid = -1);
void make_runnable(Thread* t, int reason);
void thread_exit_handoff();                     // from the exiting thread
[[noreturn]] void finish(int status, const char* cls, const char* site,
                         const char* msg);
void emit_result(int status, const char* cls, const char* site, const char* msg);
void note_shared_write();
void yield_hint();
int64_t fault_short_sleep(int64_t ns);
int pick_waiter(int n, int seq);  // recorded choice among n waiters (futex wake / cond signal)

// memory model (mem.cc)
void sb_drain(Thread* t);
void sb_commit_one(Thread* t, size_t idx);
void sb_drain_overlap(Thread* t, uintptr_t addr, size_t n);
void hb_acquire_obj(uintptr_t key);   // join clock of sync object
void hb_release_obj(uintptr_t key);   // publish clock into sync object
void hb_thread_create(Thread* parent, Thread* child);
void hb_thread_join(Thread* joiner, Thread* target);
void hb_edge(Thread* from, Thread* to);
void heap_child_init();
void check_sync_object(uintptr_t addr, size_t n);  // uaf/oob verdict if a mutex/condvar/futex word lies in dead heap memory
void mem_reset_run();
void sync_reset_run();
void core_reset_run();

// raw futex for parking
long raw_futex(uint32_t* addr, int op, uint32_t val);

void* real_sym(const char* name);

}  // namespace rt
}  // namespace sim
