#!/bin/bash
# usage: tools/confirm_seeded.sh <PID> <i> <check-cmd-tail...> -- <ninja test targets...>
# Confirms a seeded change delivered by an independent agent in /tmp/brk_<PID>/out:
#   with the change: existing tests (given targets) pass, demo FAILS;
#   without: demo PASSES.  Then stores it under /verif/seeded/<PID>-<i>/.
set -u
PID=$1; I=$2; shift 2
W=/tmp/${BRK:-brk}_$PID; OUT=$W/out; OFF=${OFF:-0}
[ -f $OUT/change$I.diff ] || { echo "no change$I.diff"; exit 2; }
cd $W || exit 2
git checkout -q -- src 2>/dev/null
BS=$W/confirm/build_generic.sh
mkdir -p $W/confirm
cat > $BS <<GEN
#!/bin/sh
# generic demo build against the scratch worktree: sh build_generic.sh demoN.cpp
src="\$1"; out="\${src%.cpp}"
exec g++ -std=gnu++20 -O2 -g -Wno-error -I$W/src -I$W/_build -isystem /root/miniconda/include "\$src" -o "\$out" $W/_build/libbabylon.a -Wl,-rpath,/root/miniconda/lib /usr/lib/x86_64-linux-gnu/libprotobuf.so /usr/lib/x86_64-linux-gnu/libabsl_*.so.20220623.0.0 /root/miniconda/lib/libfmt.so -latomic -lpthread
GEN
mkdir -p $W/confirm; cp $OUT/demo$I.cpp $W/confirm/demo$I.cpp
res=""
git apply $OUT/change$I.diff || { echo "change does not apply"; exit 2; }
nice ninja -C _build -j6 babylon "$@" > $W/confirm/build_with.log 2>&1 || { echo "build with change failed"; tail -5 $W/confirm/build_with.log; git checkout -q -- src; exit 2; }
tests_ok=1
for t in "$@"; do
  for r in 1 2; do
    if ! timeout 600 ./_build/$t > $W/confirm/test_$t.log 2>&1; then tests_ok=0; echo "TEST FAILED with change: $t (run $r)"; tail -5 $W/confirm/test_$t.log; fi
  done
done
(cd $W/confirm && sh $BS demo$I.cpp > build_demo_with.log 2>&1) || { echo "demo build failed (with)"; tail -5 $W/confirm/build_demo_with.log; }
timeout 300 $W/confirm/demo$I > $W/confirm/demo_with.log 2>&1; rc_with=$?
git checkout -q -- src
nice ninja -C _build -j6 babylon > $W/confirm/build_without.log 2>&1
(cd $W/confirm && sh $BS demo$I.cpp > build_demo_without.log 2>&1)
timeout 300 $W/confirm/demo$I > $W/confirm/demo_without.log 2>&1; rc_without=$?
echo "PID=$PID change=$I tests_ok=$tests_ok demo_with_change_rc=$rc_with demo_without_rc=$rc_without"
if [ $tests_ok = 1 ] && [ $rc_with != 0 ] && [ $rc_without = 0 ]; then
  D=/verif/seeded/$PID-$((I+OFF)); mkdir -p $D
  cp $OUT/change$I.diff $D/patch.diff; cp $OUT/demo$I.cpp $D/demo.cpp; cp $BS $D/build_demo.sh; cp $OUT/meta$I.txt $D/meta_from_author.txt
  python3 - "$D" "$PID" "$I" "$rc_with" "$rc_without" "$*" <<'PY'
import json,sys,os
d,pid,i,rw,rwo,targets=sys.argv[1:7]
meta={"property":pid,"breaks":open(os.path.join(d,"meta_from_author.txt")).read()[:4000],
 "confirmed_by_me":{"existing_tests_with_change":"passed 2x each: "+targets,"demo_with_change_exit":int(rw),"demo_without_change_exit":int(rwo),
 "how":"tools/confirm_seeded.sh in the author's scratch worktree /tmp/brk_%s (ninja build of babylon + listed test targets with the change applied, demo built and run with and without the change)"%pid}}
meta["confirmed_by_me"]["how"]=meta["confirmed_by_me"]["how"].replace("/tmp/brk_", "/tmp/"+os.environ.get("BRK","brk")+"_")
json.dump(meta,open(os.path.join(d,"meta.json"),"w"),indent=1)
PY
  echo "stored $D"
else
  echo "NOT CONFIRMED"
fi
