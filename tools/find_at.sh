#!/bin/bash
# usage: tools/find_at.sh <commit> <harness> <property> <out.json> <wanted-class> [runner args...]
# Builds the harness against /repo at <commit> (scratch worktree), searches until a
# violation of <wanted-class> is reported (other classes are passed as --known so
# they do not stop the batch) and copies its replay file to <out.json>.
set -u
commit=$1; harness=$2; prop=$3; out=$(realpath -m "$4"); want=$5; shift 5
W=/tmp/findwt_$$
git -C /repo worktree add -q --detach "$W" "$commit" || exit 2
trap 'git -C /repo worktree remove --force "$W" >/dev/null 2>&1; rm -rf "$W.build" /tmp/findreplays_$$' EXIT
make -s -C /verif -j8 REPO="$W" B="$W.build" "$W.build/bin/$harness" 2>&1 | grep -E "error|Error" -A3
"$W.build/bin/$harness" --property "$prop" --replay-dir /tmp/findreplays_$$ "$@" > /tmp/find_$$.log 2>&1
rc=$?
grep -E "SUMMARY|violation at|VIOLATION|INFRA" /tmp/find_$$.log | cut -c1-300
f=$(grep -o "replay=[^ ]*" /tmp/find_$$.log | head -1 | cut -d= -f2)
if [ $rc -eq 1 ] && [ -n "$f" ] && grep -q "\"class\": \"$want\"" "$f"; then
  python3 - "$f" "$out" "$commit" <<'PY'
import json,sys
r=json.load(open(sys.argv[1])); r["found_at_commit"]=sys.argv[3]
json.dump(r,open(sys.argv[2],"w"),indent=1)
PY
  "$W.build/bin/$harness" --replay "$out" --quiet | tail -1
  echo "saved $out"
else
  echo "wanted class $want not found (rc=$rc)"; exit 1
fi
