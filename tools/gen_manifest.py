#!/usr/bin/env python3
"""Regenerates /verif/MANIFEST.json from the table below (single source of truth)."""
import json, os
ROOT = os.path.dirname(os.path.dirname(os.path.abspath(__file__)))

TRUSTED = ("Trusted: clang 14 TSan instrumentation pass (routes every atomic and plain access to the simulator), "
           "the simulator runtime and oracles in /verif, libstdc++/abseil/protobuf/glibc as uninstrumented stubs executing atomically between scheduling points. "
           "Memory model explored: SC interleavings + per-thread store buffers (TSO/PSO) + happens-before check on registered payload; no load buffering, no weak-CAS spurious failure. "
           "Sampling, not exhaustive.")

CLAIMED = {
    "C01": dict(
        text="Seeded exploration of schedules (every atomic operation of the real queue code is a scheduling point; random-walk, sticky, PCT and starve-one policies), store-buffer delays and futex faults over generated client programs mixing all push/pop variants and all CONCURRENT/FUTEX_WAIT/FUTEX_WAKE combinations that respect the pairing rules; oracles: value conservation, FIFO interval rule, try_-failure legitimacy, happens-before race detector and ownership flag on the slot payload. Finds interleaving bugs in seconds that the unit tests cannot reach; a clean batch is evidence, not proof.",
        ref="§3 C01", technique="deterministic simulation: seeded schedule + store-buffer + fault search, history oracle and HB race detector"),
    "C02": dict(
        text="Same harness with futex waiting forced on: blocking is simulated, so a lost wake-up is a decided deadlock/stall verdict (all threads blocked although tickets balance) after microseconds, not a timeout; timed exclusive pop is checked against the virtual clock in terms of the caller's own steps after the deadline.",
        ref="§3 C02", technique="deterministic simulation: seeded schedule/fault search with simulated futex, deadlock and stall verdicts, virtual-time deadline check"),
}

CLAIMED["C13"] = dict(
    text="Real coroutines (Task, Cancellable<Task>, Future awaitable, coroutine::Futex) on real ThreadPoolExecutor / AlwaysUseNewThreadExecutor running under the simulator; seeded search over interleavings of wake_one/wake_all/cancel/new waiters (cancel and wake released at the same instant a waiter is known suspended), completion vs. registration, completion vs. cancellation; oracles: resume ledger per suspension (exactly once, on the bound executor), wake return values vs. resumed waiters, wake_one/wake_all-missed rules stated in event order, optional empty iff cancel won, DepositBox slot balance (no leaked per-wait bookkeeping), simulated-heap use-after-free detection on coroutine frames. Found three genuine defects (fixed, see known_findings.json).",
    ref="§3 C13", technique="deterministic simulation: seeded schedule search over real coroutines/executors, resume ledger, slot-balance and heap oracles")

CLAIMED["C07"] = dict(
    text="Real ThreadPoolExecutor (1-3 workers, local queues, work stealing, balance thread), AlwaysUseNewThreadExecutor, InplaceExecutor and a harness executor that refuses drawn submissions, all running under the simulator; external submitters, tasks that spawn tasks (placement local/global predicted through the pool's own rule), plain and coroutine execute/submit, stop() after or while submitters run, destructor instead of stop. Oracles: run-count ledger (exactly once, never after stop returned, never when refused), is_running_in, future ready with the right value at stop()/join return, refused submissions reported (invalid future / non-zero), coroutine frame destroyed exactly once. Found one genuine defect (fixed).",
    ref="§3 C07", technique="deterministic simulation: seeded schedule search over the real thread pool, run ledger and future-readiness oracle, executor fault injection")
CLAIMED["C09"] = dict(
    text="The client protocol the property describes on the real Epoch (readers in thread-local or Accessor regions, nested, handed between threads; writers unlink, tick, poll low_water_mark, reclaim) explored with store buffering always on (lazy commits), which is what exposes a weakened or missing seq_cst fence in lock() although the host is x86; oracle: at the moment low_water_mark reaches a tick no reader still inside the region in which it obtained the unlinked object may hold it; reads of reclaimed objects; released/unlocked accessors must not hold the mark back.",
    ref="§3 C09", technique="deterministic simulation: seeded schedule + store-buffer (TSO/PSO) delay search, reclamation-safety oracle")
CLAIMED["C10"] = dict(
    text="Real GarbageCollector (queue capacity 1-4) with retiring threads, reader threads opening/closing regions after a drawn number of their own steps, and stop()/destructor issued at drawn points including while regions are open, while retire() is blocked on a full queue and while the collector is in its usleep back-off (virtual time); oracle: reclaimer ledger (exactly once, never before the regions open at retire time closed, all run by the time stop() returns). Found one genuine defect (fixed).",
    ref="§3 C10", technique="deterministic simulation: seeded schedule search with virtual-time back-off, reclaimer ledger oracle")

CLAIMED["C08"] = dict(
    text="Real Future/Promise/CountDownLatch (two scheduling-interface variants, six value types) under the simulator: one setter vs. 1-4 threads doing get/wait_for/on_finish/then/ready on copies, registration before, after and racing with set_value, timeouts from negative to INT64_MAX; fault mode adds futex spurious wakes/EINTR and forward clock jumps during wait_for. Oracles: callback ledger (exactly once, never before the value is constructed, on a legitimate thread), value seen (HB race detector on the value storage), wait_for truth table in virtual time, ready monotone, latch ready iff count reached zero, callback nodes freed exactly once (token objects + simulated heap), deadlock verdict for a get() that is never woken.",
    ref="§3 C08", technique="deterministic simulation: seeded schedule + futex/clock fault search, callback ledger and virtual-time oracle")
CLAIMED["C16"] = dict(
    text="Real ConcurrentExecutionQueue (capacity 1-4) with 1-3 producers, inplace / real thread-pool / new-thread executors and a faulty executor that refuses drawn launch attempts and later recovers (fault sequence from the plan); join() and signal_push_event() racing with producers. Oracles: every item consumed exactly once, per producer in order, consume function never active twice, execute/signal return values consistent with refusals, join() covers everything submitted before it (happens-before judged), no stranded items at quiescence, final drain after the healthy signal. One genuine defect is listed as known finding (join returns early behind an in-flight smaller ticket).",
    ref="§3 C16", technique="deterministic simulation: seeded schedule + executor-fault search, exactly-once/order ledger, quiescence oracle")

NOT_APPLICABLE = {
    "C12": "single-threaded value containers: behaviour is a pure function of the operation sequence; nothing in the statement depends on a schedule, clock, I/O or fault, so deciding it would be property-based testing, not simulation (DESIGN.md §4)",
}
PENDING_REASON = "check not built yet (framework under construction, see DESIGN.md §8)"

def main():
    ids = [json.loads(l)["id"] for l in open(os.path.join(ROOT, "properties.jsonl"))]
    checks = []
    for pid in ids:
        if pid not in CLAIMED: continue
        c = CLAIMED[pid]
        checks.append({
            "property_id": pid,
            "quick_cmd": "./check %s --tier quick" % pid,
            "thorough_cmd": "./check %s --tier thorough" % pid,
            "evidence_file": "/verif/evidence/%s.json" % pid,
            "replay_cmd_template": "./check %s --replay {path}" % pid,
            "engine": "sim",
            "level_claimed": {"category": c.get("level", "exploration"), "text": c["text"], "design_ref": "DESIGN.md " + c["ref"]},
            "level_note": TRUSTED,
            "technique": c["technique"],
        })
    na = []
    for pid in ids:
        if pid in CLAIMED: continue
        na.append({"property_id": pid, "reason": NOT_APPLICABLE.get(pid, PENDING_REASON)})
    m = {
        "version": 1,
        "setup_cmd": "./check --build",
        "hooks": {
            "guard": "BABYLON_VERIF_SIM",
            "enable": "no source hooks are needed: checks compile /repo/src with clang -fsanitize=thread and link the simulator's own __tsan_* runtime plus libc/pthread interposers instead of libtsan",
            "baseline_off_cmd": "cmake --build /repo/_build && ctest --test-dir /repo/_build -j8 --timeout 900",
            "source_commits": [],
            "add_only": True,
        },
        "engines": [{"name": "sim", "path": "/verif/sim", "serves_properties": sorted(CLAIMED.keys()),
                     "kind_free_text": "deterministic simulator: token-passing scheduler over real threads, TSan-ABI memory model with store buffers and vector clocks, simulated futex/mutex/clock/sleep/heap, plan generator, ddmin minimiser, replay"}],
        "checks": checks,
        "not_applicable": na,
        "notes": "All checks rebuild babylon from /repo's working tree (make, depfiles). Exit 2 = infrastructure error (never reported as violation). See DESIGN.md.",
    }
    json.dump(m, open(os.path.join(ROOT, "MANIFEST.json"), "w"), indent=1)

if __name__ == "__main__":
    main()
