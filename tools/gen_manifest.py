#!/usr/bin/env python3
"""Regenerates /verif/MANIFEST.json from the table below (single source of truth)."""
import json, os
ROOT = os.path.dirname(os.path.dirname(os.path.abspath(__file__)))

TRUSTED = ("Trusted: clang 14 TSan instrumentation pass (routes every atomic and plain access to the simulator), "
           "the simulator runtime and oracles in /verif, libstdc++/abseil/protobuf/glibc as uninstrumented stubs executing atomically between scheduling points. "
           "Memory model explored: SC interleavings + per-thread store buffers (TSO/PSO) + happens-before check on registered payload; no load buffering, no weak-CAS spurious failure; scheduling points before every atomic/fence/intercepted call, after publishing operations in 40% of the runs (in a quarter of those the publisher is additionally stalled for 30-400 steps), and at plain accesses to registered ranges. "
           "Sampling, not exhaustive.")

CLAIMED = {
    "C01": dict(
        text="Seeded exploration of schedules (every atomic operation of the real queue code is a scheduling point; random-walk, sticky, PCT and starve-one policies), store-buffer delays and futex faults over generated client programs mixing all push/pop variants and all CONCURRENT/FUTEX_WAIT/FUTEX_WAKE combinations that respect the pairing rules; oracles: value conservation, FIFO interval rule, try_-failure legitimacy, happens-before race detector and ownership flag on the slot payload. Finds interleaving bugs in seconds that the unit tests cannot reach; a clean batch is evidence, not proof.",
        ref="§3 C01", technique="deterministic simulation: seeded schedule + store-buffer + fault search, history oracle and HB race detector"),
    "C02": dict(
        text="Same harness with futex waiting forced on: blocking is simulated, so a lost wake-up is a decided deadlock/stall verdict (all threads blocked although tickets balance) after microseconds, not a timeout; timed exclusive pop is checked against the virtual clock in terms of the caller's own steps after the deadline.",
        ref="§3 C02", technique="deterministic simulation: seeded schedule/fault search with simulated futex, deadlock and stall verdicts, virtual-time deadline check"),
}

CLAIMED["C13"] = dict(
    text="Real coroutines (Task, Cancellable<Task>, Future awaitable, coroutine::Futex) on real ThreadPoolExecutor / AlwaysUseNewThreadExecutor running under the simulator; seeded search over interleavings of wake_one/wake_all/cancel/new waiters (cancel and wake released at the same instant a waiter is known suspended), completion vs. registration, completion vs. cancellation; oracles: resume ledger per suspension (exactly once, on the bound executor), wake return values vs. resumed waiters, wake_one/wake_all-missed rules stated in event order, optional empty iff cancel won, DepositBox slot balance (no leaked per-wait bookkeeping), simulated-heap use-after-free detection on coroutine frames. Scheduling points also after publishing operations (store/RMW/unlock) so that use-after-publish is reachable. Found five genuine defects (fixed, see known_findings.json).",
    ref="§3 C13", technique="deterministic simulation: seeded schedule search over real coroutines/executors, resume ledger, slot-balance and heap oracles")

CLAIMED["C07"] = dict(
    text="Real ThreadPoolExecutor (1-3 workers, and a wide shape with 130-138 workers whose local queues span two storage blocks; local queues, work stealing, balance thread; which waiter a wake-up picks is a scheduler decision), AlwaysUseNewThreadExecutor, InplaceExecutor and a harness executor that refuses drawn submissions, all running under the simulator; external submitters, tasks that spawn tasks (placement local/global predicted through the pool's own rule), plain and coroutine execute/submit, stop() after or while submitters run, destructor instead of stop. Oracles: run-count ledger (exactly once, never after stop returned, never when refused), is_running_in, future ready with the right value at stop()/join return, refused submissions reported (invalid future / non-zero), coroutine frame destroyed exactly once. Found one genuine defect (fixed).",
    ref="§3 C07", technique="deterministic simulation: seeded schedule search over the real thread pool, run ledger and future-readiness oracle, executor fault injection")
CLAIMED["C09"] = dict(
    text="The client protocol the property describes on the real Epoch (readers in thread-local or Accessor regions, nested, handed between threads; writers unlink, tick, poll low_water_mark, reclaim) explored with store buffering always on (lazy commits), which is what exposes a weakened or missing seq_cst fence in lock() although the host is x86; oracle: at the moment low_water_mark reaches a tick no reader still inside the region in which it obtained the unlinked object may hold it; reads of reclaimed objects; released/unlocked accessors must not hold the mark back; black-box reader self check (a tick the reader takes inside its own open region must stay above low_water_mark()); accessor create/use/release churn across threads (recycled slot indexes).",
    ref="§3 C09", technique="deterministic simulation: seeded schedule + store-buffer (TSO/PSO) delay search, reclamation-safety oracle")
CLAIMED["C10"] = dict(
    text="Real GarbageCollector (queue capacity 1-4) with retiring threads, reader threads opening/closing regions after a drawn number of their own steps, and stop()/destructor issued at drawn points including while regions are open, while retire() is blocked on a full queue and while the collector is in its usleep back-off (virtual time); oracle: reclaimer ledger (exactly once, never before the regions open at retire time closed, all run by the time stop() returns). Found one genuine defect (fixed).",
    ref="§3 C10", technique="deterministic simulation: seeded schedule search with virtual-time back-off, reclaimer ledger oracle")

CLAIMED["C08"] = dict(
    text="Real Future/Promise/CountDownLatch (two scheduling-interface variants, six value types) under the simulator: one setter vs. 1-4 threads doing get/wait_for/on_finish/then/ready on copies, registration before, after and racing with set_value, timeouts from negative to INT64_MAX; fault mode adds futex spurious wakes/EINTR and forward clock jumps during wait_for. Oracles: callback ledger (exactly once, never before the value is constructed, on a legitimate thread), value seen (HB race detector on the value storage), wait_for truth table in virtual time, ready monotone, latch ready iff count reached zero, callback nodes freed exactly once (token objects + simulated heap), deadlock verdict for a get() that is never woken.",
    ref="§3 C08", technique="deterministic simulation: seeded schedule + futex/clock fault search, callback ledger and virtual-time oracle")
CLAIMED["C16"] = dict(
    text="Real ConcurrentExecutionQueue (capacity 1-4) with 1-3 producers, inplace / real thread-pool / new-thread executors and a faulty executor that refuses drawn launch attempts and later recovers (fault sequence from the plan); join() and signal_push_event() racing with producers. Oracles: every item consumed exactly once, per producer in order, consume function never active twice, execute/signal return values consistent with refusals, join() covers everything submitted before it (happens-before judged), no stranded items at quiescence, final drain after the healthy signal. One genuine defect is listed as known finding (join returns early behind an in-flight smaller ticket).",
    ref="§3 C16", technique="deterministic simulation: seeded schedule + executor-fault search, exactly-once/order ledger, quiescence oracle")

CLAIMED["C03"] = dict(
    text="Real ConcurrentFixedSwissTable / ConcurrentTransientHashSet / Map in two build flavours (as shipped: 16-byte SIMD group load; with babylon's own TSan branch: 16 relaxed byte loads, a reader can see a group half-updated) under an adversarial hasher (colliding groups, equal 7-bit tags), default-constructed placeholder and small initial bucket counts, fill-to-full and chained growth, with scheduling points on control bytes and value storage. History oracle per key: exactly one winner, same address and fully constructed content for every observer, no miss after an ordered-before insertion (happens-before judged under store buffers), full fixed table leaves arguments untouched, one in-table construction per winner; quiescent iteration/size; growth-boundary read-your-write shape (chain prefilled to just below a table boundary, own fresh keys looked up right after insertion, publisher stalled after publishing). Two genuine defects found (fixed).",
    ref="§3 C03", technique="deterministic simulation: seeded schedule search in two instrumentation flavours, per-key history oracle")
CLAIMED["C04"] = dict(
    text="Real ConcurrentVector (static and dynamic block sizes incl. 1) with 2-4 threads racing for the same new blocks, kept snapshots, gc(), and a virtual clock started near 64 s unit boundaries and near the 16-bit timestamp wrap, jumped by 0-200 s between rounds; a directed mode stalls one thread for > 64 s between reading the clock and publishing its retire node. Oracles: index->address map, constructor/destructor ledger by address (speculative blocks of CAS losers included), cooling period measured from a watchpoint on the block table to the simulated heap's free time, use-after-free through kept snapshots, heap balance. One genuine defect found (fixed).",
    ref="§3 C04", technique="deterministic simulation: seeded schedule + virtual clock history search (jumps, wrap), ledger and cooling-period oracle")
CLAIMED["C05"] = dict(
    text="Random acyclic graphs built through the real GraphBuilder (conditional and essential dependencies, fan-in up to 8 with pending-then-ready dependency lists, fan-out, trivial vertices, asynchronously completing processors), run on the inplace executor, the real thread-pool executor and a thread-per-vertex executor under the simulator, inputs injected before or concurrently with run(), 1-3 run/reset cycles; oracle = a sequential demand-driven reference interpreter (values, emptiness, error code, needed set), at-most-once and dependencies-resolved checks inside the processor, publish-once, wait() vs in-flight vertices, closure vertex count, HB race detector on data payload, reset state. One genuine defect is listed as known finding (vertex started on an already flushed closure after a late external injection).",
    ref="§3 C05", technique="deterministic simulation: seeded graph/schedule search against a sequential reference interpreter")
CLAIMED["C06"] = dict(
    text="Exclusive / Shared / Swiss monotonic resources on a recording page allocator (page sizes 128-4096, LIFO-recycling or always-fresh) and a recording upstream resource; request histories with sizes and alignments around every boundary, register_destructor, contains, release and moves at quiescent points, waves of worker threads that exit so thread-local slots are recycled (shared variants under the scheduler; the exclusive variant has no schedule and is the 1-thread case of the same ledger). Oracle: alignment, containment in owned memory, interval map (no overlap), per-block patterns re-verified, destructors/pages/oversize blocks returned exactly once with original size and alignment, accounting zero after release. The swiss variant is also driven through its google::protobuf::Arena view (CreateArray / Create<T> with destructor, created lazily by racing threads). Four genuine defects found (fixed), one listed as known finding (Arena view after move).",
    ref="§3 C06", technique="deterministic simulation: seeded request-history + schedule search with recording allocators (ledger oracle)")
CLAIMED["C11"] = dict(level="fault_enumeration", engine="serial",
    text="Stream-fault harness without scheduler (there are no threads or clocks in this property): the environment is the byte stream the parser consumes, owned by the harness through ZeroCopyInput/OutputStream. 84 value shapes incl. protobuf messages; oracle 1: round trip, exact size, stable output, 18 presentations (flat, string, stream chunkings 1/2/3/7/random/zero-size buffers, with and without enclosing limit), protobuf differential in both directions incl. unknown/permuted/absent fields; oracle 2: truncation at every prefix for encodings <= 256 bytes (drawn above), byte flips, length inflation up to 2^64-1, wire-type swaps, nesting, Next() failure, splices, random bytes: parse must terminate, no ASan report, no read beyond the limit, success implies serialize/parse fixpoint. Debug and NDEBUG builds, ASan+UBSan. Three genuine defects fixed, one listed as known finding.",
    ref="§3 C11", technique="stream fault injection (chunking, truncation, corruption, Next() failure) with seeded enumeration, ASan/UBSan, differential and fixpoint oracles")
CLAIMED["C14"] = dict(
    text="Real IdAllocator (head version preset near wrap as a legal history prefix), ThreadId over generations of thread birth/death, and DepositBox with recycled slots and stale ids, ids handed between threads only through synchronising channels; oracles: held-set uniqueness at the moment of return, reuse of freed values, for_each == live set at quiescence, distinct stable thread ids with reuse after exit, single taker (whose accessor is kept, move-constructed, move-assigned or parked on the heap; the moved-from one must be empty), stale id never matches, exclusive winner (ownership flag + HB detector kept across slot recycling), constructor/destructor ledger.",
    ref="§3 C14", technique="deterministic simulation: seeded schedule search (ABA windows), held-set and single-winner oracles")
CLAIMED["C15"] = dict(
    text="Real ConcurrentTransientTopic with 1-3 publishers (single and batch, batches crossing the 128-slot block boundary), 1-3 consumers subscribed before/during/after publication with varying batch sizes, close() racing with the last wake-up, 1-3 publish/close/clear cycles; store buffering and futex spurious wakes. Oracle: every consumer's output is exactly the published index sequence with fully visible content (HB race detector on slot payload), publishers never share a slot, end marker only after everything was delivered, consumers terminate (deadlock verdict), clear resets.",
    ref="§3 C15", technique="deterministic simulation: seeded schedule + store-buffer + futex fault search, per-consumer sequence oracle")
CLAIMED["C17"] = dict(
    text="Stacks of Counting / Batch / Cached page allocators (and PageHeap) over a recording upstream, capacities and batch sizes 1-4 with batches larger than the cache so both compensating paths of the underlying queue run, pages handed between threads, a burn-in shape that brings the 16-bit slot versions of the cache queue to the wrap; ObjectPool in strict and auto-create mode. Oracle: ownership map page -> {upstream, cached, caller}, per-caller patterns and HB detector on page memory, conservation equation at every quiescent point, destruction returns the cache, counting allocator equals pages held; pool: never more than n outstanding, exclusive objects, blocked pop resumes (deadlock verdict), recycler once per return, overflow destroyed. One genuine defect found (fixed).",
    ref="§3 C17", technique="deterministic simulation: seeded schedule search, ownership-map and conservation oracle")
CLAIMED["C18"] = dict(
    text="Same hash harness in phase mode: histories of structural operations executed alone (construct default/n, clear, reserve, rehash, copy, move, swap, iterate, size, find) separated by batches of emplace/find run by 1-3 threads under the scheduler (so the chain shape is schedule dependent), compared after every phase with std::map/std::set: size, iteration exactly once, find of present and absent keys, first-inserted mapped values; both build flavours. Two genuine defects found (fixed).",
    ref="§3 C18", technique="deterministic simulation: seeded phase-history + schedule search against a std reference container")
CLAIMED["C19"] = dict(
    text="Real ConcurrentAdder/Summer/Maxer/Miner and (Compact)EnumerableThreadLocal over generations of threads that count and exit (slots of dead threads reused), instances created, destroyed and moved so instance ids and cache-line offsets are recycled (at quiescent points by the main thread and concurrently by workers on private instances), a reader concurrent with writers with scheduling points on the single-writer plain slots. Oracle: exact totals at quiescence incl. dead threads, fresh counters read zero, moves keep totals, concurrent reads equal one prefix per writer (happens-before judged), local() stable/distinct, for_each / for_each_alive sets. One genuine defect fixed, two listed as known findings (maxer/miner concurrent first-count read; numeric-limit sentinel).",
    ref="§3 C19", technique="deterministic simulation: seeded thread-generation history + schedule search with plain-access preemption, exact-total oracle")
CLAIMED["C20"] = dict(
    text="Real LogStreamBuffer / LogEntry / AsyncFileAppender (and AsyncLogStream) on a recording page allocator (page sizes 128-4096) with entry lengths around the inline page capacity and page-table boundaries, 1-3 logging threads, queue capacity 1-8, two file objects one of which rotates its fd, discard, close() after or concurrently with the last writes; writer back-off in virtual time, writev captured in memory. Oracle: scatter list == streamed bytes with every page exactly once; sinks hold each entry once, contiguous, per thread in order, on the right file; page ledger zero, nothing returned early or twice (HB detector + simulated heap). Write-fault mode checks page conservation and termination only. Two genuine defects found (fixed).",
    ref="§3 C20", technique="deterministic simulation: seeded length/schedule search with in-memory file sink and writev fault injection, byte-exact sink oracle")

NOT_APPLICABLE = {
    "C12": "single-threaded value containers: behaviour is a pure function of the operation sequence; nothing in the statement depends on a schedule, clock, I/O or fault, so deciding it would be property-based testing, not simulation (DESIGN.md §4)",
}
PENDING_REASON = "check not built yet (framework under construction, see DESIGN.md §8)"

def main():
    ids = [json.loads(l)["id"] for l in open(os.path.join(ROOT, "properties.jsonl"))]
    checks = []
    for pid in ids:
        if pid not in CLAIMED: continue
        c = CLAIMED[pid]
        checks.append({
            "property_id": pid,
            "quick_cmd": "./check %s --tier quick" % pid,
            "thorough_cmd": "./check %s --tier thorough" % pid,
            "evidence_file": "/verif/evidence/%s.json" % pid,
            "replay_cmd_template": "./check %s --replay {path}" % pid,
            "engine": c.get("engine", "sim"),
            "level_claimed": {"category": c.get("level", "exploration"), "text": c["text"], "design_ref": "DESIGN.md " + c["ref"]},
            "level_note": TRUSTED,
            "technique": c["technique"],
        })
    na = []
    for pid in ids:
        if pid in CLAIMED: continue
        na.append({"property_id": pid, "reason": NOT_APPLICABLE.get(pid, PENDING_REASON)})
    m = {
        "version": 1,
        "setup_cmd": "./check --build",
        "hooks": {
            "guard": "BABYLON_VERIF_SIM",
            "enable": "no source hooks are needed: checks compile /repo/src with clang -fsanitize=thread and link the simulator's own __tsan_* runtime plus libc/pthread interposers instead of libtsan",
            "baseline_off_cmd": "cmake --build /repo/_build && ctest --test-dir /repo/_build -j8 --timeout 900",
            "source_commits": [],
            "add_only": True,
        },
        "engines": [{"name": "serial", "path": "/verif/serial", "serves_properties": ["C11"],
                     "kind_free_text": "stream-fault harness: long-lived ASan+UBSan worker processes, harness-owned ZeroCopy streams (chunking, truncation, corruption, Next() failure), seeded enumeration, ddmin over bytes, replay"},
                    {"name": "sim", "path": "/verif/sim", "serves_properties": sorted(k for k in CLAIMED.keys() if k != "C11"),
                     "kind_free_text": "deterministic simulator: token-passing scheduler over real threads, TSan-ABI memory model with store buffers and vector clocks, simulated futex/mutex/clock/sleep/heap, plan generator, ddmin minimiser, replay"}],
        "checks": checks,
        "not_applicable": na,
        "notes": "All checks rebuild babylon from /repo's working tree (make, depfiles). Exit 2 = infrastructure error (never reported as violation). See DESIGN.md.",
    }
    json.dump(m, open(os.path.join(ROOT, "MANIFEST.json"), "w"), indent=1)

if __name__ == "__main__":
    main()
