#!/bin/bash
# usage: tools/mutant.sh <patchfile> <harness> <runner args...>
# Applies a patch to a scratch worktree of /repo, builds the harness against it
# and runs it; cleans up afterwards. Never touches /repo itself.
set -u
patch=$(realpath "$1"); harness=$2; shift 2
W=$(mktemp -d /tmp/mutwt.XXXX); rmdir "$W"
git -C /repo worktree add -q --detach "$W" HEAD || exit 2
trap 'git -C /repo worktree remove --force "$W" >/dev/null 2>&1; rm -rf "$W.build"' EXIT
if ! git -C "$W" apply "$patch"; then echo "patch does not apply"; exit 2; fi
make -s -C /verif -j16 REPO="$W" B="$W.build" "$W.build/bin/$harness" 2>&1 | grep -E "error|Error" -A3
"$W.build/bin/$harness" "$@" --replay-dir /tmp/mutreplays
echo "exit=$?"
