#!/bin/bash
# usage: tools/mutant_fast.sh <patchfile> <harness> [--flavour tsm] <runner args...>
# Like mutant.sh but keeps ONE persistent scratch worktree + build directory per
# caller tag (MUTTAG, default "main") so that only what the patch touches is
# recompiled. Never touches /repo's working tree.
set -u
patch=$(realpath "$1"); harness=$2; shift 2
bindir=bin
if [ "${1:-}" = "--flavour" ]; then [ "$2" = "tsm" ] && bindir=bin-tsm; shift 2; fi
TAG=${MUTTAG:-main}
W=/tmp/mutwt_$TAG
exec 9>/tmp/mutwt_$TAG.lock; flock 9
if [ ! -d "$W/.git" ] && [ ! -f "$W/.git" ]; then
  rm -rf "$W"; git -C /repo worktree prune; git -C /repo worktree add -q --detach "$W" HEAD || exit 2
fi
git -C "$W" checkout -q --detach "$(git -C /repo rev-parse HEAD)" 2>/dev/null
git -C "$W" checkout -q -- . 
if ! git -C "$W" apply "$patch"; then echo "patch does not apply"; exit 2; fi
make -s -C /verif -j8 REPO="$W" B="$W.build" "$W.build/$bindir/$harness" 2>&1 | grep -E "error|Error" -A3
"$W.build/$bindir/$harness" "$@" --replay-dir /tmp/mutreplays_$TAG
rc=$?
git -C "$W" checkout -q -- .
echo "exit=$rc"
