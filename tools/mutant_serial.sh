#!/bin/bash
# usage: tools/mutant_serial.sh <patchfile> [seconds]
# C11 variant of mutant_fast.sh: persistent scratch worktree + serial harness build.
set -u
patch=$(realpath "$1"); secs=${2:-40}
W=/tmp/mutwt_serial
exec 9>/tmp/mutwt_serial.lock; flock 9
if [ ! -e "$W/.git" ]; then rm -rf "$W"; git -C /repo worktree prune; git -C /repo worktree add -q --detach "$W" HEAD || exit 2; fi
git -C "$W" checkout -q --detach "$(git -C /repo rev-parse HEAD)" 2>/dev/null
git -C "$W" checkout -q -- .
git -C "$W" apply "$patch" || { echo "patch does not apply"; exit 2; }
make -s -C /verif/serial -j8 REPO="$W" B="$W.build" 2>&1 | grep -E "error|Error" -A3
KN=$(python3 - <<'PY'
import json
for e in json.load(open('/verif/known_findings.json'))['findings']:
    if e['property']=='C11' and e['status']=='known': print('--known'); print('%s|%s|k'%(e['class'],e['site']))
PY
)
mapfile -t KA <<< "$KN"
rc=0
for v in ndebug debug; do
  "$W.build/serial/serial_$v" --property C11 --tier quick --seconds $secs --seed 1 --jobs 6 --evidence /tmp/mut_serial_ev.json --replay-dir /tmp/mutreplays_serial "${KA[@]}" 2>&1 | grep -E "SUMMARY|VIOLATION|INFRA|candidate" | cut -c1-260
  r=${PIPESTATUS[0]}; [ $r -ne 0 ] && rc=$r
done
git -C "$W" checkout -q -- .
echo "exit=$rc"
