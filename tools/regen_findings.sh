#!/bin/bash
# Re-validate (and, where the harness has changed since, re-find) the replay files of all
# simulator findings: fixed ones on the current tree with that one repair undone
# (tools/unfixed.sh), known ones on the current tree as it is.
cd /verif
H() { case $1 in C04) echo cvector;; C05) echo anyflow;; C06) echo arena;; C07) echo executor;; C10) echo gc;; C13) echo coroutine;; C16) echo execq;; C17) echo pages;; C18) echo hash;; C19) echo counter;; C20) echo logging;; esac; }
python3 - "${1:-}" <<'PY' > /tmp/regen_list.txt
import json,sys
only=sys.argv[1]
for e in json.load(open('/verif/known_findings.json'))['findings']:
    if e['property']=='C11' or not e.get('replay','').endswith('.json'): continue
    if only and only not in e['replay']: continue
    print(e['property'], e['status'], e.get('fix_diff') or 'none', e['class'], e['site'], e['replay'])
PY
while read pid st fix cls site f; do
  h=$(H $pid)
  out=$(tools/unfixed.sh replay $fix $h $f 2>&1 < /dev/null | tail -3)
  if echo "$out" | grep -q "^VIOLATION"; then echo "OK-AS-IS $pid $f"; continue; fi
  found=0
  for extra in "" "--mode 0" "--mode 1" "--mode 2" "--mode 3" "--mode 7" "--mode 8" "--mode 9"; do
    res=$(tools/unfixed.sh find $fix $h $pid $f.new "$cls" "$site" --seconds 60 --jobs 5 $extra 2>&1 < /dev/null | tail -2)
    if echo "$res" | grep -q "^saved"; then mv $f.new $f; echo "REGENERATED $pid $f ($extra)"; found=1; break; fi
    echo "   try [$extra]: $(echo "$res" | tail -1 | cut -c1-160)"
  done
  [ $found = 0 ] && echo "FAILED-TO-REGENERATE $pid $f $cls/$site"
done < /tmp/regen_list.txt
