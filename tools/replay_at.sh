#!/bin/bash
# usage: tools/replay_at.sh <commit> <harness> <replay.json> [runner args]
# Builds the harness against a scratch worktree of /repo at <commit> and replays
# the file there (to demonstrate a fixed finding on the tree that still had it).
set -u
commit=$1; harness=$2; replay=$(realpath "$3"); shift 3
W=$(mktemp -d /tmp/replaywt.XXXX); rmdir "$W"
git -C /repo worktree add -q --detach "$W" "$commit" || exit 2
trap 'git -C /repo worktree remove --force "$W" >/dev/null 2>&1; rm -rf "$W.build"' EXIT
make -s -C /verif -j8 REPO="$W" B="$W.build" "$W.build/bin/$harness" 2>&1 | grep -E "error|Error" -A3
"$W.build/bin/$harness" --replay "$replay" "$@"
echo "exit=$?"
