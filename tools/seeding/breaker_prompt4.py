import sys, json, glob, subprocess
pid=sys.argv[1]
prop=open('/tmp/prop_%s.txt'%pid).read()
prev=[]
for d in sorted(glob.glob('/verif/seeded/%s-*'%pid)):
    diff=open(d+'/patch.diff').read()
    files=[l[6:] for l in diff.splitlines() if l.startswith('+++ b/')]
    hunks=[l for l in diff.splitlines() if l.startswith('@@')]
    prev.append("%s (%s)" % (", ".join(files), "; ".join(h.split('@@')[-1].strip()[:90] for h in hunks[:2])))
prevtxt="\n".join("  - "+p for p in prev)
base=open('/verif/tools/seeding/breaker_prompt.py').read()
# reuse the text of the first-round brief
ns={}
import io, contextlib
buf=io.StringIO()
with contextlib.redirect_stdout(buf):
    sys.argv=['x',pid]
    exec(base,{'__name__':'__main__'})
txt=buf.getvalue().replace('/tmp/brk_%s'%pid,'/tmp/brk4_%s'%pid).replace("up to THREE different source changes","up to TWO different source changes").replace("for each change i = 1..3","for each change i = 1..2")
txt=txt.replace("Your task: produce","Another engineer has already delivered changes at these places — pick DIFFERENT functions and different failure mechanisms (prefer code paths, configurations, member functions, template variants or interactions between two components that those did not touch):\n"+prevtxt+"\n\nYour task: produce")
txt=txt.replace("Final answer:","You have a hard time budget of 35 minutes wall-clock in total: deliver whatever is fully validated by then (one good change is enough) and stop. Final answer:")
print(txt)
