#!/usr/bin/env python3
"""Rewrite the block between <!-- SENS-BEGIN --> and <!-- SENS-END --> in DESIGN.md
from reports/sensitivity.tsv (written by tools/sweep.py)."""
import os, collections
ROOT = os.path.dirname(os.path.dirname(os.path.abspath(__file__)))
rows = []
for l in open(os.path.join(ROOT, "reports/sensitivity.tsv")):
    p = l.rstrip("\n").split("\t")
    if len(p) >= 7: rows.append(p)
best = collections.OrderedDict()
for r in rows:
    name = r[0]
    cur = best.get(name)
    # a change is caught if any of the properties it was run against catches it
    if cur is None or (cur[2] != "caught" and r[2] == "caught"): best[name] = r
out = []
def table(kind, title):
    sel = [r for n, r in best.items() if n.startswith(kind + ":")]
    caught = sum(1 for r in sel if r[2] == "caught")
    out.append("%s: **%d of %d caught**.\n" % (title, caught, len(sel)))
    out.append("| change | property | verdict | configuration that caught it | first failing run (index) | class/site | wall s |")
    out.append("|---|---|---|---|---|---|---|")
    for r in sel:
        out.append("| `%s` | %s | %s | %s | %s | %s | %s |" % (r[0].split(":", 1)[1], r[1], r[2], r[3] or "—", r[4] or "—", ("`%s`" % r[5]) if r[5] else "—", r[6]))
    out.append("")
table("seeded", "Independently seeded changes (`seeded/<id>-<n>/patch.diff`)")
table("own", "Own mutants (`mutants/*.diff`)")
# per-property summary
per = collections.OrderedDict()
for n, r in best.items():
    d = per.setdefault(r[1], [0, 0]); d[1] += 1; d[0] += r[2] == "caught"
out.append("Per property (caught/total): " + ", ".join("%s %d/%d" % (k, v[0], v[1]) for k, v in sorted(per.items())) + ".")
txt = "\n".join(out)
p = os.path.join(ROOT, "DESIGN.md")
s = open(p).read()
a = s.index("<!-- SENS-BEGIN -->") + len("<!-- SENS-BEGIN -->")
b = s.index("<!-- SENS-END -->")
open(p, "w").write(s[:a] + "\n" + txt + "\n" + s[b:])
print("rows", len(rows), "changes", len(best))
