#!/usr/bin/env python3
import json,sys
r=json.load(open(sys.argv[1]))
p=r['plan']
print(r['class'],r['site'],'|',r['message'])
print({k:v for k,v in p['cfg'].items() if k not in ('starve_from','starve_len','starve_tid','pct_expected','pct_depth','sticky_den','jump_den','spurious_den','t0','max_idle_jumps')})
for i,t in enumerate(p['threads']): print(i,[ (o['op'],o['a'],o['b'],o['id']) for o in t])
print('decisions',r['decisions'])
