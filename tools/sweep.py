#!/usr/bin/env python3
"""Sensitivity sweep: run every deliberately broken tree (own mutants under
mutants/*.diff and independently seeded changes under seeded/*/patch.diff)
against the registered check configurations of its property, in a scratch
worktree (never /repo), and append one line per (change, property) to
reports/sensitivity.tsv:

  change  property  verdict(caught|MISSED|noapply)  config  first_index  class/site  wall_s

usage: tools/sweep.py [--only PREFIX] [--seconds-scale F] [--tag TAG]
"""
import json, os, re, subprocess, sys, time, glob

ROOT = os.path.dirname(os.path.dirname(os.path.abspath(__file__)))
# the configurations (harness/flavour/mode/share) are read out of ./check itself
def load_checks():
    src = open(os.path.join(ROOT, "check")).read()
    m = re.search(r"CHECKS = \{.*?\n\}\n", src, re.S)
    ns = {}
    exec(m.group(0), {"dict": dict}, ns)
    return ns["CHECKS"]

CHECKS = load_checks()
PREFIX_PROPS = {
    "queue": ["C01", "C02"], "hash": ["C03", "C18"], "cvector": ["C04"], "anyflow": ["C05"], "arena": ["C06"],
    "executor": ["C07"], "future": ["C08"], "epoch": ["C09"], "gc": ["C10"], "serial": ["C11"], "coroutine": ["C13"],
    "ids": ["C14"], "topic": ["C15"], "execq": ["C16"], "pages": ["C17"], "counter": ["C19"], "logging": ["C20"],
}

def known_args(pid):
    out = []
    for e in json.load(open(os.path.join(ROOT, "known_findings.json"))).get("findings", []):
        if e.get("property") == pid and e.get("status") == "known":
            out += ["--known", "%s|%s|k" % (e.get("class", ""), e.get("site", ""))]
    return out

def run_one(patch, pid, scale, tag):
    c = CHECKS[pid]
    if c.get("serial"):
        t0 = time.time()
        r = subprocess.run([os.path.join(ROOT, "tools/mutant_serial.sh"), patch, str(int(c["quick"] * scale))], stdout=subprocess.PIPE, stderr=subprocess.STDOUT, text=True)
        out = r.stdout
        if "does not apply" in out: return ("noapply", "", "", "", 0)
        m = re.search(r"VIOLATION property=\S+ replay=\S+", out)
        cand = re.search(r"candidate.*?class=(\S+).*?site=(\S+)", out)
        return ("caught" if m else "MISSED", "serial", "", (cand.group(1) + "/" + cand.group(2)) if cand else "", time.time() - t0)
    for (h, fl, mode, share) in c["configs"]:
        secs = max(10, int(c["quick"] * share * scale))
        cmd = [os.path.join(ROOT, "tools/mutant_fast.sh"), patch, h]
        if fl == "tsm": cmd += ["--flavour", "tsm"]
        cmd += ["--property", pid, "--mode", str(mode), "--seconds", str(secs), "--jobs", "6"] + known_args(pid)
        env = dict(os.environ, MUTTAG=tag)
        t0 = time.time()
        r = subprocess.run(cmd, stdout=subprocess.PIPE, stderr=subprocess.STDOUT, text=True, env=env)
        out = r.stdout
        if "does not apply" in out: return ("noapply", "", "", "", 0)
        if "VIOLATION property=" in out:
            m = re.search(r"violation at index (\d+) seed \d+: class=(\S+) site=(\S+)", out)
            return ("caught", "%s/%s/mode%d" % (h, fl, mode), m.group(1) if m else "", (m.group(2) + "/" + m.group(3)) if m else "", time.time() - t0)
        if "INFRA" in out or "rror" in out:
            sys.stderr.write(out[-1500:])
    return ("MISSED", "", "", "", 0)

def main():
    only = None; scale = 2.0; tag = "sweep"; shard = (0, 1)
    a = sys.argv[1:]
    while a:
        x = a.pop(0)
        if x == "--only": only = a.pop(0)
        elif x == "--seconds-scale": scale = float(a.pop(0))
        elif x == "--tag": tag = a.pop(0)
        elif x == "--shard": i, n = a.pop(0).split("/"); shard = (int(i), int(n))
    items = []
    for d in sorted(glob.glob(os.path.join(ROOT, "seeded/*/patch.diff"))):
        name = os.path.basename(os.path.dirname(d))
        items.append(("seeded:" + name, name.split("-")[0], d))
    for f in sorted(glob.glob(os.path.join(ROOT, "mutants/*.diff"))):
        name = os.path.basename(f)[:-5]
        pre = re.split(r"[-_]", name)[0]
        for pid in PREFIX_PROPS.get(pre, []): items.append(("own:" + name, pid, f))
    outp = os.path.join(ROOT, "reports/sensitivity.tsv")
    done = set()
    if os.path.exists(outp):
        for l in open(outp):
            p = l.rstrip("\n").split("\t")
            if len(p) >= 3: done.add((p[0], p[1]))
    # properties anchored in the same source files (a change seeded for one property may be
    # the business of another one's check: e.g. the bounded queue under the thread pool)
    anchors = {}
    for l in open(os.path.join(ROOT, "properties.jsonl")):
        d = json.loads(l)
        anchors[d["id"]] = set(d.get("anchors", {}).get("files", []))
    def related(patch, own):
        touched = set(x[6:] for x in open(patch).read().splitlines() if x.startswith("+++ b/"))
        return [p for p in sorted(anchors) if p != own and p in CHECKS and anchors[p] & touched]
    def record(name, pid, v):
        line = "\t".join([name, pid, v[0], v[1], str(v[2]), v[3], "%.0f" % v[4]])
        print(line, flush=True)
        with open(outp, "a") as o: o.write(line + "\n")
    items = [it for k, it in enumerate(items) if k % shard[1] == shard[0]]
    for (name, pid, f) in items:
        if only and not (name.split(":")[1].startswith(only) or pid == only): continue
        if (name, pid) in done: continue
        v = run_one(f, pid, scale, tag)
        record(name, pid, v)
        if v[0] == "MISSED" and name.startswith("seeded:"):
            for q in related(f, pid):
                if (name, q) in done: continue
                w = run_one(f, q, scale, tag)
                record(name, q, w)
                if w[0] == "caught": break

main()
