#!/bin/bash
# Demonstrate a repaired defect on the current tree with exactly that one repair undone.
#   tools/unfixed.sh replay <fixes/NAME.diff> <harness> <replay.json>
#   (pass `none` instead of a fix diff for a known, unrepaired finding: current tree as it is)
#   tools/unfixed.sh find   <fixes/NAME.diff> <harness> <property> <out.json> <class> <site> [runner args...]
# A persistent scratch worktree of /repo's HEAD (never /repo itself) gets the fix diff applied
# in reverse (or fixes/NAME.unfix.diff forwards where later repairs changed the context), the
# harness is rebuilt against it and the replay file is run / a batch searches for the class.
set -u
mode=$1; fix=$2; [ "$fix" != none ] && fix=$(realpath "$2"); harness=$3; shift 3
W=/tmp/mutwt_unfix
exec 9>/tmp/mutwt_unfix.lock; flock 9
if [ ! -e "$W/.git" ]; then rm -rf "$W"; git -C /repo worktree prune; git -C /repo worktree add -q --detach "$W" HEAD || exit 2; fi
git -C "$W" checkout -q --detach "$(git -C /repo rev-parse HEAD)" 2>/dev/null
git -C "$W" checkout -q -- .
un="${fix%.diff}.unfix.diff"
if [ "$fix" = none ]; then :
elif [ -f "$un" ]; then git -C "$W" apply "$un" || { echo "unfix diff does not apply"; exit 2; }
else git -C "$W" apply -R "$fix" || { echo "fix diff does not apply in reverse"; exit 2; }; fi
bindir=bin; [ "${FLAVOUR:-ship}" = tsm ] && bindir=bin-tsm
make -s -C /verif -j8 REPO="$W" B="$W.build" "$W.build/$bindir/$harness" 2>&1 | grep -E "error|Error" -A3
if [ "$mode" = replay ]; then
  "$W.build/$bindir/$harness" --replay "$(realpath "$1")" --quiet | tail -2
  rc=${PIPESTATUS[0]}
else
  prop=$1; out=$(realpath -m "$2"); cls=$3; site=$4; shift 4
  rm -rf /tmp/unfixreplays
  "$W.build/$bindir/$harness" --property "$prop" --replay-dir /tmp/unfixreplays "$@" > /tmp/unfix_find.log 2>&1
  rc=$?
  grep -E "SUMMARY|violation at|VIOLATION|INFRA" /tmp/unfix_find.log | cut -c1-260
  f=$(grep -o "replay=[^ ]*" /tmp/unfix_find.log | head -1 | cut -d= -f2)
  if [ $rc -eq 1 ] && [ -n "$f" ] && grep -q "\"class\": \"$cls\"" "$f" && grep -q "\"site\": \"[^\"]*$site" "$f"; then
    python3 - "$f" "$out" "$(basename "$fix")" <<'PY'
import json,sys
r=json.load(open(sys.argv[1])); r["reproduces_with_fix_undone"]=sys.argv[3]
json.dump(r,open(sys.argv[2],"w"),indent=1)
PY
    echo "saved $out"
  else echo "wanted $cls/$site not found (rc=$rc, got $(grep -o '"class": "[^"]*"' "$f" 2>/dev/null | head -1) $(grep -o '"site": "[^"]*"' "$f" 2>/dev/null | head -1))"; rc=3
  fi
fi
git -C "$W" checkout -q -- .
exit $rc
