#!/bin/bash
# usage: tools/verify_findings.sh [only-substring]
# For every simulator finding in known_findings.json: a fixed finding must replay as a
# VIOLATION on the parent commit of its fix and as "held" on /repo's HEAD; a known
# finding must replay as a VIOLATION on HEAD. (C11 findings belong to the serial harness
# and are verified by serial/verify_findings.sh.)
cd /verif
python3 - "$@" <<'PY' > /tmp/vf_list.txt
import json,sys
only=sys.argv[1] if len(sys.argv)>1 else ""
H={"C01":"queue","C02":"queue","C03":"hash","C04":"cvector","C05":"anyflow","C06":"arena","C07":"executor","C08":"future","C09":"epoch","C10":"gc","C13":"coroutine","C14":"ids","C15":"topic","C16":"execq","C17":"pages","C18":"hash","C19":"counter","C20":"logging"}
for e in json.load(open('/verif/known_findings.json'))['findings']:
    if e['property']=='C11' or not e.get('replay','').endswith('.json'): continue
    if only and only not in e['replay']: continue
    print(e['property'],H[e['property']],e['status'],e.get('commit','-'),e['replay'])
PY
while read pid h st commit f; do
  if [ "$st" = fixed ]; then
    a=$(tools/replay_at.sh "$commit~1" $h $f --quiet 2>&1 | grep -c "^VIOLATION")
    b=$(./build/bin/$h --replay $f --quiet 2>&1 | grep -c "property held")
    echo "$pid $f parent-of-$commit:violation=$a head:held=$b"
  else
    a=$(./build/bin/$h --replay $f --quiet 2>&1 | grep -c "^VIOLATION")
    echo "$pid $f known head:violation=$a"
  fi
done < /tmp/vf_list.txt
